/-
  C04 — Back-ends reject what they cannot emulate instead of returning wrong results.

  Statement (properties.jsonl): each backend either emulates a sequence with the Hamiltonian
  and basis Pulser defines for it, or raises an error before returning any result. A sequence
  using an interaction or basis the backend does not implement (for emu-sv: the XY/microwave
  basis, leakage, more than two levels) never produces results.

  The theorems are about `Model.Config` (`accept`, `acceptSeq`, `acceptSequence`, current tree =
  `Variant.repaired`), tied to the real code by the exhaustive cell-by-cell correspondence of
  `harness/props/c04.py`. `Outcome` has exactly two shapes, `emulate k` (results of an emulation
  with Hamiltonian `k`) and `raise e` (an exception, no result), so "raises before any result"
  is "is not `emulate`".

  Proved at full strength on the decision abstraction:
    * `table_sound`        – finite table, every one of the 2·2·3·4·3·2·2 = 576 cells checked by
                             the kernel: `table c = emulate k` ⇒ `k` is the Hamiltonian defined
                             for the cell's interaction type / level count and the back-end
                             (with that solver) implements it;
    * `acceptSeq_sound`    – lifted to *every* `SequenceData` feature vector (any level count,
                             any list of Lindblad-operator sizes, any atom counts) by the
                             abstraction lemma `acceptSeq_table` (`Proofs/Config.lean`);
    * `outcome_depends_only_on_cell` – two runs in the same cell have the same outcome;
    * `rep_in_cell`, `table_rep` – the representative the harness builds for a cell lies in that
                             cell and the model evaluated on it gives the table entry;
    * `accept_sound`       – the whole pipeline (`PulserData.__init__` → back-end), for every
                             interaction type, level count, noise-kind list and solver;
    * `emulate_or_raise`   – the dichotomy of the property statement;
    * `unsupported_raises` – everything the back-end does not implement raises;
    * `sv_rejects`         – emu-sv: XY, any other interaction type, any level count ≠ 2 raise;
    * `impl_matches_solver` – `create_impl` hands out the DMRG implementation iff DMRG was asked;
    * `sequence_sound`, `digital_never_emulated`, `unsupported_pulsed_never_emulated` – from the
      channel bases a sequence declares and pulses: only sequences that declare nothing but
      ground-rydberg (or nothing but XY) are ever emulated, with the matching Hamiltonian; a
      sequence that *pulses* the digital basis never is, whatever unused channels it declares
      (`extract_guard_used_counterexample`: false for the seeded change t11-C04).
    * `solver_form_irrelevant`, `dmrg_any_form` – the decision depends on the value of
      `config.solver` only (enum member, string `"dmrg"`, abstract-repr round trip);
      `solver_identity_counterexample`: false when the code tests `is Solver.DMRG` (t09-C33).
    * `run_kind_constant`, `accept_kind_constant` – with the Hamiltonian kind recorded per time
      step (`acceptRun`/`acceptSteps`): every step of a run that returns results uses the same,
      right Hamiltonian, for every pattern of interaction-matrix changes (SLM mask ending inside
      the sequence, where emu-mps rebuilds its MPO); `runTable_sound` – the table with the extra
      "interaction matrix changes mid-run" axis (1152 cells); `run_depends_only_on_cell`;
      `run_kind_defaultRydberg_counterexample` – false when the rebuild relies on a default
      Rydberg type (seeded change r11-C04).
    * `sv_xy_asFound_counterexample`, `impl_solver_asFound_counterexample` – on the tree before
      the two fixes both statements fail (D8: emu-sv emulated XY with the Rydberg Hamiltonian;
      D9: DMRG + Lindblad operators got the TDVP quantum-jump implementation).

  Not a theorem (outside the abstraction): that `RydbergHamiltonian`/`make_H` *are* the Pulser
  Hamiltonians (C01, C05, C06), and that the features listed in `Seq`/`Cell` are the only ones the
  real accept/reject logic looks at — the latter is what the harness validates with random
  concrete variations inside each cell.
-/
import EmuVerif.Proofs.Config

namespace EmuVerif.Props.C04
open EmuVerif EmuVerif.Config

/-- The full feature table, cell by cell (kernel-checked enumeration of all 576 cells). -/
theorem table_sound (c : Cell) (k : HamKind) (h : table c = .emulate k) :
    hamKindC c.ham c.dim = some k ∧ implements c.b c.s k = true := by
  obtain ⟨b, ham, dim, ops, atoms, s, cn⟩ := c
  revert h
  cases b <;> cases ham <;> cases dim <;> cases ops <;> cases atoms <;> cases s <;> cases cn <;>
    first
    | (intro h; cases h; exact ⟨rfl, rfl⟩)
    | (intro h; cases h)

/-- Lift to every `SequenceData`: if a back-end returns results, it emulated the Hamiltonian
Pulser defines for that interaction type and level count, and it implements it. -/
theorem acceptSeq_sound (b : Backend) (d : Seq) (s : Solver) (cn : Bool) (k : HamKind)
    (h : acceptSeq .repaired b d s cn = .emulate k) :
    hamKind d.ham d.dim = some k ∧ implements b s k = true := by
  rw [acceptSeq_table] at h
  have := table_sound _ k h
  rw [hamKind_dimC]
  exact this

/-- Only the abstracted features matter. -/
theorem outcome_depends_only_on_cell (b b' : Backend) (d d' : Seq) (s s' : Solver) (cn cn' : Bool)
    (h : classify b d s cn = classify b' d' s' cn') :
    acceptSeq .repaired b d s cn = acceptSeq .repaired b' d' s' cn' := by
  rw [acceptSeq_table, acceptSeq_table, h]

/-- The representative of a cell is in the cell … -/
theorem rep_in_cell (c : Cell) : classify c.b (rep c) c.s c.cfgNoise = c := by
  obtain ⟨b, ham, dim, ops, atoms, s, cn⟩ := c
  cases b <;> cases ham <;> cases dim <;> cases ops <;> cases atoms <;> cases s <;> cases cn <;> rfl

/-- … and the model on the representative is the table entry. -/
theorem table_rep (c : Cell) : acceptSeq .repaired c.b (rep c) c.s c.cfgNoise = table c := by
  rw [acceptSeq_table, rep_in_cell]

/-- The whole pipeline: `accept … = Emulate k` ⇒ `k` is the Hamiltonian Pulser defines for that
interaction type / level count, and the back-end implements it. -/
theorem accept_sound (b : Backend) (it : IntType) (dim : Nat) (kinds : List NoiseKind) (s : Solver)
    (k : HamKind) (h : accept b it dim kinds s = .emulate k) :
    pulserHam it dim = some k ∧ implements b s k = true := by
  unfold accept acceptV acceptCore at h
  cases it with
  | other => simp [detectHam] at h
  | ising =>
    simp only [detectHam] at h
    cases hl : allLindblad dim kinds with
    | err e => rw [hl] at h; cases h
    | ok n => rw [hl] at h; exact acceptSeq_sound _ _ _ _ _ h
  | xy =>
    simp only [detectHam] at h
    cases hl : allLindblad dim kinds with
    | err e => rw [hl] at h; cases h
    | ok n => rw [hl] at h; exact acceptSeq_sound _ _ _ _ _ h

/-- The property statement: either an emulation of the right, implemented Hamiltonian, or an
exception (and then no result). -/
theorem emulate_or_raise (b : Backend) (it : IntType) (dim : Nat) (kinds : List NoiseKind)
    (s : Solver) :
    (∃ k, accept b it dim kinds s = .emulate k ∧ pulserHam it dim = some k ∧ implements b s k = true)
    ∨ (∃ e, accept b it dim kinds s = .raise e) := by
  cases h : accept b it dim kinds s with
  | emulate k => exact Or.inl ⟨k, rfl, accept_sound b it dim kinds s k h⟩
  | raise e => exact Or.inr ⟨e, rfl⟩

/-- Whatever the back-end does not implement raises. -/
theorem unsupported_raises (b : Backend) (it : IntType) (dim : Nat) (kinds : List NoiseKind)
    (s : Solver) (h : ∀ k, pulserHam it dim = some k → implements b s k = false) :
    ∃ e, accept b it dim kinds s = .raise e := by
  rcases emulate_or_raise b it dim kinds s with ⟨k, _, h2, h3⟩ | hr
  · rw [h k h2] at h3; cases h3
  · exact hr

/-- emu-sv never returns results for XY, for an unknown interaction type, or for any level
count other than 2 (leakage, three-level bases), whatever the noise and the solver field. -/
theorem sv_rejects (it : IntType) (dim : Nat) (kinds : List NoiseKind) (s : Solver)
    (h : it ≠ .ising ∨ dim ≠ 2) : ∃ e, accept .sv it dim kinds s = .raise e := by
  apply unsupported_raises
  intro k hk
  cases it with
  | other => simp [pulserHam] at hk
  | xy =>
    match dim, hk with
    | 2, hk => simp [pulserHam, hamKind] at hk; subst hk; rfl
    | 3, hk => simp [pulserHam, hamKind] at hk; subst hk; rfl
    | 0, hk | 1, hk => simp [pulserHam, hamKind] at hk
    | n + 4, hk => simp [pulserHam, hamKind] at hk
  | ising =>
    have hd : dim ≠ 2 := by rcases h with h | h; exact absurd rfl h; exact h
    match dim, hk, hd with
    | 2, _, hd => exact absurd rfl hd
    | 3, hk, _ => simp [pulserHam, hamKind] at hk; subst hk; rfl
    | 0, hk, _ | 1, hk, _ => simp [pulserHam, hamKind] at hk
    | n + 4, hk, _ => simp [pulserHam, hamKind] at hk

/-- `create_impl` returns the implementation of the solver that was requested. -/
theorem impl_matches_solver (s : Solver) (nOps nAtoms : Nat) (cn : Bool) (i : Impl)
    (h : createImpl .repaired s nOps cn nAtoms = .ok i) : (s = .dmrg ↔ i = .dmrg) := by
  unfold createImpl at h
  cases s
  · simp only [reduceCtorEq, if_false] at h
    split_ifs at h <;> cases h <;> simp
  · simp only [if_true] at h
    split_ifs at h <;> cases h <;> simp

/-- `pulserBasis` answers only for the six pulsed-basis sets Pulser can produce. -/
theorem pulserBasis_cases {declared pulsed : List ChanBasis} {leak : Bool} {x : IntType × Nat}
    (h : pulserBasis declared pulsed leak = some x) :
    pulsed = [] ∨ pulsed = [.groundRydberg] ∨ pulsed = [.digital] ∨
    pulsed = [.groundRydberg, .digital] ∨ pulsed = [.digital, .groundRydberg] ∨ pulsed = [.xy] := by
  rcases pulsed with _ | ⟨a, _ | ⟨b, _ | ⟨c, t⟩⟩⟩
  · simp
  · cases a <;> simp
  · cases a <;> cases b <;> simp [pulserBasis] at h ⊢
  · cases a <;> cases b <;> simp [pulserBasis] at h

/-- From the channel bases of a Pulser sequence (`declared` channels, of which `pulsed ⊆ declared`
are driven): only sequences that declare nothing but ground-rydberg, or nothing but XY, are ever
emulated, and with the matching Hamiltonian. -/
theorem sequence_sound (fixed : Bool) (b : Backend) (declared pulsed : List ChanBasis) (leak : Bool)
    (kinds : List NoiseKind) (s : Solver) (k : HamKind)
    (hsub : ∀ x ∈ pulsed, x ∈ declared)
    (h : acceptSequence .repaired fixed b declared pulsed leak kinds s = some (.emulate k)) :
    ((declared = [.groundRydberg] ∧ (k = .rydberg2 ∨ k = .rydberg3)) ∨
     (declared = [.xy] ∧ (k = .xy2 ∨ k = .xy3))) ∧ implements b s k = true := by
  unfold acceptSequence acceptSequenceG at h
  cases hb : pulserBasis declared pulsed leak with
  | none => rw [hb] at h; cases h
  | some p =>
    obtain ⟨it, dim⟩ := p
    rw [hb] at h
    simp only [Option.some.injEq] at h
    cases hd : detectHam it with
    | err e => rw [hd] at h; cases h
    | ok ham =>
      rw [hd] at h
      cases hl : allLindblad dim kinds with
      | err e => rw [hl] at h; cases h
      | ok n =>
        rw [hl] at h
        split_ifs at h
        simp only [extractOkG] at h
        cases he : extractOk declared with
        | err e => rw [he] at h; cases h
        | ok u =>
          rw [he] at h
          have hs := accept_sound b it dim kinds s k h
          refine ⟨?_, hs.2⟩
          have hdecl : declared = [.groundRydberg] ∨ declared = [.xy] := by
            match declared, he with
            | [.groundRydberg], _ => exact Or.inl rfl
            | [.xy], _ => exact Or.inr rfl
            | [], he | [.digital], he | _ :: _ :: _, he => simp [extractOk] at he
          have hp := pulserBasis_cases hb
          rcases hdecl with rfl | rfl
          · left
            refine ⟨rfl, ?_⟩
            rcases hp with rfl | rfl | rfl | rfl | rfl | rfl
            all_goals first
              | (exfalso; simp at hsub; done)
              | (cases leak <;> simp [pulserBasis] at hb <;> obtain ⟨rfl, rfl⟩ := hb <;>
                  simp [pulserHam, hamKind] at hs <;> simp [← hs.1])
          · right
            refine ⟨rfl, ?_⟩
            rcases hp with rfl | rfl | rfl | rfl | rfl | rfl
            all_goals first
              | (exfalso; simp at hsub; done)
              | (cases leak <;> simp [pulserBasis] at hb <;> obtain ⟨rfl, rfl⟩ := hb <;>
                  simp [pulserHam, hamKind] at hs <;> simp [← hs.1])

/-- A sequence that declares a digital-basis channel never produces results on any back-end. -/
theorem digital_never_emulated (fixed : Bool) (b : Backend) (declared pulsed : List ChanBasis)
    (leak : Bool) (kinds : List NoiseKind) (s : Solver) (k : HamKind)
    (hsub : ∀ x ∈ pulsed, x ∈ declared) (hd : ChanBasis.digital ∈ declared) :
    acceptSequence .repaired fixed b declared pulsed leak kinds s ≠ some (.emulate k) := by
  intro h
  rcases (sequence_sound fixed b declared pulsed leak kinds s k hsub h).1 with ⟨rfl, _⟩ | ⟨rfl, _⟩ <;>
    simp at hd

/-- A sequence whose *pulsed* basis is one the back-ends do not implement (digital) never
produces results, whatever other channels it declares or leaves unused. -/
theorem unsupported_pulsed_never_emulated (fixed : Bool) (b : Backend)
    (declared pulsed : List ChanBasis) (leak : Bool) (kinds : List NoiseKind) (s : Solver) (k : HamKind)
    (hsub : ∀ x ∈ pulsed, x ∈ declared) (hd : ChanBasis.digital ∈ pulsed) :
    acceptSequence .repaired fixed b declared pulsed leak kinds s ≠ some (.emulate k) :=
  digital_never_emulated fixed b declared pulsed leak kinds s k hsub (hsub _ hd)

/-- Seeded variant t11-C04 (the single-basis guard counts only bases with non-zero samples, the
selection still looks at the declared keys): a digital sequence that also declares an unused
rydberg channel is emulated. -/
theorem extract_guard_used_counterexample :
    ¬ (∀ (b : Backend) (declared pulsed : List ChanBasis) (k : HamKind),
        (∀ x ∈ pulsed, x ∈ declared) → ChanBasis.digital ∈ pulsed →
        acceptSequenceG .used .repaired true b declared pulsed false [] .tdvp ≠ some (.emulate k)) := by
  intro h
  exact h .sv [.groundRydberg, .digital] [.digital] .rydberg2 (by simp) (by simp) (by decide)

/-! ### How the solver is requested -/

/-- The decision depends on the *value* of `config.solver` only: the enum member, the string
`"dmrg"` and a config round-tripped through its abstract representation take the same branch. -/
theorem solver_form_irrelevant (f : SolverForm) (v : Variant) (b : Backend) (d : Seq) (s : Solver)
    (cn : Bool) (nOps nAtoms : Nat) :
    createImplF .byValue f v s nOps cn nAtoms = createImpl v s nOps cn nAtoms ∧
    acceptSeqF .byValue f v b d s cn = acceptSeq v b d s cn := ⟨rfl, rfl⟩

/-- Hence: DMRG requested in *any* form gets the DMRG implementation or an exception, and with
Lindblad operators or configured noise it raises. -/
theorem dmrg_any_form (f : SolverForm) (nOps nAtoms : Nat) (cn : Bool) :
    (∀ i, createImplF .byValue f .repaired .dmrg nOps cn nAtoms = .ok i → i = .dmrg) ∧
    ((0 < nOps ∨ cn = true) → createImplF .byValue f .repaired .dmrg nOps cn nAtoms = .err .notImpl) := by
  constructor
  · intro i hi
    exact (impl_matches_solver .dmrg nOps nAtoms cn i hi).1 rfl
  · intro h
    show createImpl .repaired .dmrg nOps cn nAtoms = .err .notImpl
    unfold createImpl
    rcases h with h | h
    · simp [h]
    · subst h
      by_cases h0 : 0 < nOps <;> simp [h0]

/-- Seeded variant t09-C33 (`is Solver.DMRG`): the string form falls through to the TDVP branches —
DMRG + one Lindblad operator gets the quantum-jump implementation. -/
theorem solver_identity_counterexample :
    ¬ (∀ (f : SolverForm) (nOps nAtoms : Nat) (cn : Bool) (i : Impl),
        createImplF .byIdentity f .repaired .dmrg nOps cn nAtoms = .ok i → i = .dmrg) := by
  intro h
  have := h .string 1 2 false .noisy (by decide)
  revert this
  decide

/-! ### The Hamiltonian stays the same over the whole run -/

/-- Every time step of a run that returns results uses the *same* Hamiltonian, the one Pulser
defines for the sequence's interaction type and level count — for every `SequenceData`, every
number of steps and every pattern of interaction-matrix changes (SLM mask ending mid-run). -/
theorem run_kind_constant (b : Backend) (d : Seq) (s : Solver) (cn : Bool) (changes : List Bool)
    (ks : List HamKind) (h : acceptRun .passesType .repaired b d s cn changes = .emulate ks) :
    ∃ k, hamKind d.ham d.dim = some k ∧ implements b s k = true ∧
      ks = List.replicate (changes.length + 1) k := by
  unfold acceptRun at h
  cases ha : acceptSeq .repaired b d s cn with
  | raise e => rw [ha] at h; cases h
  | emulate k =>
    rw [ha] at h
    obtain ⟨h1, h2⟩ := acceptSeq_sound b d s cn k ha
    refine ⟨k, h1, h2, ?_⟩
    cases b with
    | sv => cases h; rfl
    | mps =>
      simp only [rebuiltKind, stepKinds_same] at h
      cases h; rfl

/-- The same through `PulserData.__init__` (`accept` with per-step kinds). -/
theorem accept_kind_constant (b : Backend) (it : IntType) (dim : Nat) (kinds : List NoiseKind)
    (s : Solver) (changes : List Bool) (ks : List HamKind)
    (h : acceptSteps .passesType b it dim kinds s changes = .emulate ks) :
    ∃ k, pulserHam it dim = some k ∧ implements b s k = true ∧
      ks = List.replicate (changes.length + 1) k := by
  unfold acceptSteps at h
  cases it with
  | other => simp [detectHam] at h
  | ising =>
    simp only [detectHam] at h
    cases hl : allLindblad dim kinds with
    | err e => rw [hl] at h; cases h
    | ok n => rw [hl] at h; exact run_kind_constant _ _ _ _ _ _ h
  | xy =>
    simp only [detectHam] at h
    cases hl : allLindblad dim kinds with
    | err e => rw [hl] at h; cases h
    | ok n => rw [hl] at h; exact run_kind_constant _ _ _ _ _ _ h

/-- The feature table with the "interaction matrix changes mid-run" axis (2 × 576 cells, checked
one by one by the kernel): a cell that emulates uses exactly one Hamiltonian, the right one. -/
theorem runTable_sound (c : Cell) (slm : Bool) (ks : List HamKind)
    (h : runTable .passesType c slm = .emulate ks) :
    ∃ k, ks = [k] ∧ hamKindC c.ham c.dim = some k ∧ implements c.b c.s k = true := by
  unfold runTable at h
  cases ht : table c with
  | raise e => rw [ht] at h; cases h
  | emulate k =>
    rw [ht] at h
    simp only [rebuiltKindC, ne_eq, not_true_eq_false, and_false, if_false] at h
    cases h
    exact ⟨k, rfl, table_sound c k ht⟩

/-- Only the cell and "does the interaction matrix change at all" matter for the sequence of
distinct Hamiltonians of a run. -/
theorem run_depends_only_on_cell (rb : Rebuild) (b b' : Backend) (d d' : Seq) (s s' : Solver)
    (cn cn' : Bool) (ch ch' : List Bool)
    (h : classify b d s cn = classify b' d' s' cn') (hc : ch.any id = ch'.any id) :
    collapseRun (acceptRun rb .repaired b d s cn ch) = collapseRun (acceptRun rb .repaired b' d' s' cn' ch') := by
  rw [acceptRun_table, acceptRun_table, h, hc]

/-- Seeded variant (`make_H` with a default Rydberg type, `timestep_complete` not passing the
type): an XY sequence whose SLM mask ends after the first step is emulated with the XY
Hamiltonian first and the Rydberg one afterwards. -/
theorem run_kind_defaultRydberg_counterexample :
    ¬ (∀ (b : Backend) (d : Seq) (s : Solver) (cn : Bool) (changes : List Bool) (ks : List HamKind),
        acceptRun .defaultRydberg .repaired b d s cn changes = .emulate ks →
        ∀ k ∈ ks, hamKind d.ham d.dim = some k) := by
  intro h
  have := h .mps { ham := .xy, dim := 2, opDims := [], nAtoms := 3, nGood := 3 } .tdvp false [true, false]
    [.xy2, .rydberg2, .rydberg2] (by decide) .rydberg2 (by simp)
  revert this
  decide

/-! ### The tree before the two fixes (kernel-checked counterexamples) -/

/-- D8: emu-sv emulated an XY sequence with the 2-level Rydberg Hamiltonian. -/
theorem sv_xy_asFound_counterexample :
    ¬ (∀ (b : Backend) (it : IntType) (dim : Nat) (kinds : List NoiseKind) (s : Solver) (k : HamKind),
        acceptV .asFound b it dim kinds s = .emulate k → pulserHam it dim = some k) := by
  intro h
  have := h .sv .xy 2 [] .tdvp .rydberg2 (by decide)
  revert this
  decide

/-- D9: DMRG + Lindblad operators was handed the TDVP quantum-jump implementation. -/
theorem impl_solver_asFound_counterexample :
    ¬ (∀ (s : Solver) (nOps nAtoms : Nat) (cn : Bool) (i : Impl),
        createImpl .asFound s nOps cn nAtoms = .ok i → (s = .dmrg ↔ i = .dmrg)) := by
  intro h
  have := h .dmrg 1 2 false .noisy (by decide)
  revert this
  decide

/-! ### Non-vacuity: every outcome shape occurs -/

example : accept .sv .ising 2 [.relaxation, .nonLindblad] .tdvp = .emulate .rydberg2 := by decide
example : accept .mps .xy 3 [.leakage, .effNoise [3, 3]] .tdvp = .emulate .xy3 := by decide
example : accept .mps .ising 3 [] .dmrg = .raise .runtime := by decide
example : accept .sv .xy 2 [] .tdvp = .raise .notImpl := by decide
example : accept .sv .ising 3 [.leakage] .tdvp = .raise .notImpl := by decide
example : accept .mps .ising 2 [.dephasing true] .tdvp = .raise .notImpl := by decide
example : accept .mps .ising 2 [.effNoise [3]] .tdvp = .raise .value := by decide
example : accept .mps .other 2 [] .tdvp = .raise .value := by decide
example : acceptSeq .repaired .mps { ham := .rydberg, dim := 2, opDims := [3], nAtoms := 2, nGood := 2 }
    .tdvp false = .raise .assertion := by decide
example : acceptSeq .repaired .mps { ham := .xy, dim := 2, opDims := [], nAtoms := 3, nGood := 1 }
    .tdvp false = .raise .value := by decide
example : acceptSequence .repaired false .mps [.digital] [.digital] false [] .tdvp = some (.raise .value) := by decide
example : acceptSequence .repaired true .sv [.groundRydberg, .digital] [.digital] false [] .tdvp = some (.raise .value) := by decide
example : acceptSequence .repaired true .sv [.groundRydberg] [] false [] .tdvp = some (.emulate .rydberg2) := by decide
example : acceptSequence .repaired false .mps [.xy] [.xy] true [.leakage] .tdvp = some (.emulate .xy3) := by decide
example : createImpl .repaired .tdvp 2 false 2 = .ok .noisy := by decide
example : acceptRun .passesType .repaired .mps { ham := .xy, dim := 2, opDims := [], nAtoms := 3, nGood := 3 }
    .tdvp false [true, false] = .emulate [.xy2, .xy2, .xy2] := by decide
example : acceptSteps .passesType .mps .xy 3 [.leakage] .tdvp [false, true] = .emulate [.xy3, .xy3, .xy3] := by decide

end EmuVerif.Props.C04
