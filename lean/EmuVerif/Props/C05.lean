/-
  C05 — the emu-mps MPO Hamiltonian equals the dense neutral-atom Hamiltonian.

  Statement (properties.jsonl): for any number of atoms ≥ 2, any interaction matrix (any sparsity
  pattern and signs), any drive amplitudes, detunings, phases and single-atom noise term, the
  emu-mps matrix-product Hamiltonian contracts to the dense Rydberg or XY Hamiltonian; for 2- and
  3-level atoms; and still after the drive terms are updated in place.

  All theorems are about `Model.HamMPO` (tied to `emu_mps/hamiltonian.py` by the exact,
  entry-by-entry correspondence check of every factor tensor), read over
    * any commutative ring `α` of interaction values (ℚ, ℝ, … — every sign, every sparsity pattern:
      `U` is an arbitrary symmetric function, the masks are decided by `U i j = 0`),
    * any `α`-module `A` of local operators with a unit (2×2, 3×3 complex matrices, …) and
      **arbitrary** elements `op k : A` (`n`; `sx, sy`) and `h m : A` (drive + detuning + noise block),
    * any `α`-algebra `R` with linear unital site embeddings `emb m : A →ₗ[α] R`
      (`emb m a = 1 ⊗ … ⊗ a ⊗ … ⊗ 1`; no commutation between sites is assumed or needed).

  Proved here, at full strength (all `N ≥ 2`):
    * `mpo_eq_dense`            – left-to-right contraction of `factors P` = `[Hdense P emb]`;
    * `rydberg_mpo_eq_dense`, `xy_mpo_eq_dense` – the same with the two concrete layouts spelled out
      (`Σ emb h + Σ_{i<j} U_ij n_i n_j`, resp. `… + Σ_{i<j} 2U_ij (sx_i sx_j + sy_i sy_j)`);
    * `bonds_agree_left/right`  – neighbouring bond label lists are equal *as ordered lists*;
    * `mpo_split_independent`   – the result does not depend on where the chain is split
      (`contract_split`: any `1 ≤ m ≤ N-2`);
    * `updateH_eq_rebuild`      – `update_H` on the factors = the factors built with the new terms;
    * `mpo_eq_dense_after_updates` – hence the contraction theorem after two in-place updates;
      `updateSeq_eq_rebuild`, `mpo_eq_dense_after_update_seq`, `mpo_eq_dense_after_zero_update` – after
      ANY finite sequence of updates on the same factor list (each `h` arbitrary, `0` included);
    * `updateH_last_write_wins`, `updateH_only_slots`, `updateH_shape` – generic facts about
      `update_H` on *any* factor list: idempotent/last write wins, touches only `[0][0,:,:,0]`,
      `[i][1,:,:,0]`, keeps every shape.
  Nothing is assumed beyond symmetry of `U` (the code reads the upper triangle in the left half
  and the lower triangle in the right half; for a non-symmetric matrix the factors are still the
  model's — checked by the correspondence — but do not represent a Hamiltonian).
-/
import EmuVerif.Proofs.HamMPO
import EmuVerif.Proofs.HamMPOUpdate
import Mathlib.Data.Matrix.Basic
import Mathlib.Data.Rat.Defs
import Mathlib.Algebra.Algebra.Hom

set_option linter.unusedSectionVars false
set_option linter.unusedVariables false

namespace EmuVerif.Props.C05
open EmuVerif EmuVerif.HamMPO Finset

section main
variable {α A R : Type} [CommRing α] [DecidableEq α] [AddCommGroup A] [Module α A] [One A]
  [Ring R] [Algebra α R]

/-- The dense Hamiltonian in site order:
`Σ_m emb m (h m) + Σ_{j<N} Σ_{i<j} Σ_k (c·U i j) • (emb i (op k) · emb j (op k))`. -/
def Hdense (P : Params α A) (emb : ℕ → A →ₗ[α] R) : R :=
  ∑ m ∈ range P.N, emb m (P.h m)
    + ∑ j ∈ range P.N, ∑ i ∈ range j, ∑ k ∈ range P.K,
        (P.c * P.U i j) • (emb i (P.op k) * emb j (P.op k))

theorem Hpre_eq_Hdense (P : Params α A) (emb : ℕ → A →ₗ[α] R) : Hpre P emb P.N = Hdense P emb := by
  unfold Hpre Hdense pairTerm
  rw [Finset.sum_add_distrib]
  congr 1
  apply Finset.sum_congr rfl
  intro j _
  rw [Finset.sum_comm]

/-- **C05, flagship.** For every `N ≥ 2`, every symmetric `U`, every choice of local operators and
single-site terms, the MPO factors contract (left to right, factor `n` acting on site `n`) to the
dense Hamiltonian. -/
theorem mpo_eq_dense (P : Params α A) (emb : ℕ → A →ₗ[α] R) (hemb : ∀ n, emb n 1 = 1)
    (hU : ∀ i j, P.U i j = P.U j i) (hN : 2 ≤ P.N) :
    contractFrom (fun n => ⇑(emb n)) 0 [1] (factors P) = [Hdense P emb] := by
  rw [← Hpre_eq_Hdense]
  by_cases h3 : 3 ≤ P.N
  · have hm1 : 1 ≤ mid P := by unfold mid; omega
    have hm2 : mid P + 1 < P.N := by unfold mid; omega
    have := contract_split P emb hemb hU (mid P) hm1 hm2
    unfold factors lastF middleF
    rw [if_pos h3, if_neg (by omega)]
    exact this
  · have h2 : P.N = 2 := by omega
    have hmid : mid P = 1 := by unfold mid; omega
    unfold factors lastF
    rw [if_neg h3, if_pos h2, hmid, h2]
    simp only [Nat.reduceAdd, Nat.reduceSub, List.range', List.map_nil, List.append_nil,
      List.nil_append, contractFrom]
    rw [rowStep_first P emb hemb (by omega), rowStep_last2 P emb hemb hU h2]

/-- The result does not depend on the split point: any `1 ≤ m ≤ N-2` in place of `N / 2`. -/
theorem mpo_split_independent (P : Params α A) (emb : ℕ → A →ₗ[α] R) (hemb : ∀ n, emb n 1 = 1)
    (hU : ∀ i j, P.U i j = P.U j i) (m : ℕ) (h1 : 1 ≤ m) (h2 : m + 1 < P.N) :
    contractFrom (fun n => ⇑(emb n)) 0 [1]
      (firstF P :: ((List.range' 1 (m - 1)).map (leftF P)
        ++ [enumFactor (LLl P m) (LRr P m) (Wmid P m)]
        ++ (List.range' (m + 1) (P.N - 1 - (m + 1))).map (rightF P)
        ++ [enumFactor (LLr P (P.N - 1)) [.done] (Wright P (P.N - 1))]))
      = [Hdense P emb] := by
  rw [← Hpre_eq_Hdense]; exact contract_split P emb hemb hU m h1 h2

/-- Rydberg layout: `Σ_m emb m (h m) + Σ_{i<j} U i j • (emb i n̂ · emb j n̂)`. -/
theorem rydberg_mpo_eq_dense (N : ℕ) (U : ℕ → ℕ → α) (nop : A) (h : ℕ → A)
    (emb : ℕ → A →ₗ[α] R) (hemb : ∀ n, emb n 1 = 1) (hU : ∀ i j, U i j = U j i) (hN : 2 ≤ N) :
    contractFrom (fun n => ⇑(emb n)) 0 [1] (factors (mkRyd N U nop h))
      = [∑ m ∈ range N, emb m (h m)
          + ∑ j ∈ range N, ∑ i ∈ range j, U i j • (emb i nop * emb j nop)] := by
  rw [mpo_eq_dense (mkRyd N U nop h) emb hemb hU hN]
  simp [Hdense, mkRyd]

/-- XY layout: `Σ_m emb m (h m) + Σ_{i<j} (2·U i j) • (emb i sx · emb j sx + emb i sy · emb j sy)`. -/
theorem xy_mpo_eq_dense (N : ℕ) (U : ℕ → ℕ → α) (sx sy : A) (h : ℕ → A)
    (emb : ℕ → A →ₗ[α] R) (hemb : ∀ n, emb n 1 = 1) (hU : ∀ i j, U i j = U j i) (hN : 2 ≤ N) :
    contractFrom (fun n => ⇑(emb n)) 0 [1] (factors (mkXY N U sx sy h))
      = [∑ m ∈ range N, emb m (h m)
          + ∑ j ∈ range N, ∑ i ∈ range j,
              (2 * U i j) • (emb i sx * emb j sx + emb i sy * emb j sy)] := by
  rw [mpo_eq_dense (mkXY N U sx sy h) emb hemb hU hN]
  simp [Hdense, mkXY, Finset.sum_range_succ, smul_add]

/-- Bond agreement (left half), as ordered label lists. -/
theorem bonds_agree_left (P : Params α A) (n : ℕ) : LRl P n = LLl P (n + 1) := bondsAgree_left P n

/-- Bond agreement (right half), as ordered label lists. -/
theorem bonds_agree_right (P : Params α A) (n : ℕ) (hn : n + 1 < P.N) : LRr P n = LLr P (n + 1) :=
  bondsAgree_right P n hn

/-- `update_H` (after `make_H` or after any earlier `update_H`) produces exactly the factors of the
Hamiltonian with the new single-site terms. -/
theorem updateH_eq_rebuild (P : Params α A) (h' : ℕ → A) (hN : 2 ≤ P.N) :
    updateH (factors P) h' = factors (withH P h') := updateH_factors P h' hN

/-- The in-place clause: after `update_H` with `h₁` and then with `h₂` (and, by iterating
`updateH_eq_rebuild`, after any number of updates) the MPO is the dense Hamiltonian with the
last single-site terms. -/
theorem mpo_eq_dense_after_updates (P : Params α A) (h₁ h₂ : ℕ → A) (emb : ℕ → A →ₗ[α] R)
    (hemb : ∀ n, emb n 1 = 1) (hU : ∀ i j, P.U i j = P.U j i) (hN : 2 ≤ P.N) :
    contractFrom (fun n => ⇑(emb n)) 0 [1] (updateH (updateH (factors P) h₁) h₂)
      = [Hdense (withH P h₂) emb] := by
  rw [updateH_factors P h₁ hN, updateH_factors (withH P h₁) h₂ hN]
  exact mpo_eq_dense (withH P h₂) emb hemb hU hN

/-- Any sequence of in-place updates (`update_H` folded over the same factor list) leaves exactly
the factors of the Hamiltonian with the LAST single-site terms (every `h` may be anything, in
particular identically `0`: an all-zero drive step after a driven/noisy one). -/
theorem updateSeq_eq_rebuild (P : Params α A) (hs : List (ℕ → A)) (hN : 2 ≤ P.N) :
    hs.foldl updateH (factors P) = factors (withH P (hs.getLastD P.h)) := by
  induction hs generalizing P with
  | nil => rfl
  | cons h hs ih =>
    rw [List.foldl_cons, updateH_factors P h hN, ih (withH P h) hN, List.getLastD_cons]
    rfl

/-- **In-place clause, any number of updates**: after `update_H` with `h₁, …, h_k, h` in sequence on
the same MPO the contraction is the dense Hamiltonian with the last terms `h`. -/
theorem mpo_eq_dense_after_update_seq (P : Params α A) (hs : List (ℕ → A)) (h : ℕ → A)
    (emb : ℕ → A →ₗ[α] R) (hemb : ∀ n, emb n 1 = 1) (hU : ∀ i j, P.U i j = P.U j i) (hN : 2 ≤ P.N) :
    contractFrom (fun n => ⇑(emb n)) 0 [1] ((hs ++ [h]).foldl updateH (factors P))
      = [Hdense (withH P h) emb] := by
  rw [updateSeq_eq_rebuild P (hs ++ [h]) hN, List.getLastD_concat]
  exact mpo_eq_dense (withH P h) emb hemb hU hN

/-- The case the seeded `update_H` early return breaks: a step with all-zero single-site terms after
arbitrary earlier steps leaves the pure interaction Hamiltonian (no stale drive/noise terms). -/
theorem mpo_eq_dense_after_zero_update (P : Params α A) (hs : List (ℕ → A))
    (emb : ℕ → A →ₗ[α] R) (hemb : ∀ n, emb n 1 = 1) (hU : ∀ i j, P.U i j = P.U j i) (hN : 2 ≤ P.N) :
    contractFrom (fun n => ⇑(emb n)) 0 [1] ((hs ++ [fun _ => 0]).foldl updateH (factors P))
      = [∑ j ∈ range P.N, ∑ i ∈ range j, ∑ k ∈ range P.K,
          (P.c * P.U i j) • (emb i (P.op k) * emb j (P.op k))] := by
  rw [mpo_eq_dense_after_update_seq P hs _ emb hemb hU hN]
  simp [Hdense, withH]

/-- The statement of DESIGN §5 verbatim: site embeddings that are unital algebra homomorphisms
(a special case: only linearity and `emb n 1 = 1` are used). -/
theorem mpo_eq_dense_algHom {A' : Type} [Ring A'] [Algebra α A'] (P : Params α A')
    (emb : ℕ → A' →ₐ[α] R) (hU : ∀ i j, P.U i j = P.U j i) (hN : 2 ≤ P.N) :
    contractFrom (fun n => ⇑(emb n)) 0 [1] (factors P)
      = [Hdense P (fun n => (emb n).toLinearMap)] :=
  mpo_eq_dense P (fun n => (emb n).toLinearMap) (fun n => map_one (emb n)) hU hN

end main

/-! ### `update_H` on arbitrary factor lists -/
section update
variable {A : Type} [Zero A]

/-- `factor[a, :, :, b]` -/
def entry (F : Factor A) (a b : ℕ) : A := (F.rows.getD a []).getD b 0

/-- the row `update_H` writes in factor `i` -/
def slot (i : ℕ) : ℕ := if i = 0 then 0 else 1

theorem setEntry_setEntry (F : Factor A) (a b : ℕ) (x y : A) :
    setEntry (setEntry F a b x) a b y = setEntry F a b y := by
  unfold setEntry
  by_cases h : a < F.rows.length
  · simp [List.getD_eq_getElem?_getD, h, List.set_set]
  · have h' : F.rows.length ≤ a := not_lt.mp h
    simp [List.set_eq_of_length_le h']

theorem entry_setEntry_ne (F : Factor A) (a b a' b' : ℕ) (x : A) (hne : ¬(a' = a ∧ b' = b)) :
    entry (setEntry F a b x) a' b' = entry F a' b' := by
  unfold entry setEntry
  simp only [List.getD_eq_getElem?_getD]
  by_cases ha : a' = a
  · subst ha
    have hb : b' ≠ b := fun e => hne ⟨rfl, e⟩
    by_cases hl : a' < F.rows.length
    · simp [hl, List.getElem?_set, Ne.symm hb]
    · simp [List.set_eq_of_length_le (not_lt.mp hl)]
  · simp [List.getElem?_set, Ne.symm ha]

theorem updateFrom_updateFrom (h₁ h₂ : ℕ → A) (s : ℕ) (fs : List (Factor A)) :
    updateFrom h₂ s (updateFrom h₁ s fs) = updateFrom h₂ s fs := by
  induction fs generalizing s with
  | nil => rfl
  | cons F Fs ih => simp only [updateFrom, setEntry_setEntry, ih]

/-- Last write wins (in particular `update_H` is idempotent), for any factor list. -/
theorem updateH_last_write_wins (fs : List (Factor A)) (h₁ h₂ : ℕ → A) :
    updateH (updateH fs h₁) h₂ = updateH fs h₂ := updateFrom_updateFrom h₁ h₂ 0 fs

theorem updateFrom_getElem? (h : ℕ → A) (s : ℕ) (fs : List (Factor A)) (i : ℕ) :
    (updateFrom h s fs)[i]? = (fs[i]?).map (fun F => setEntry F (slot (s + i)) 0 (h (s + i))) := by
  induction fs generalizing s i with
  | nil => simp [updateFrom]
  | cons F Fs ih =>
    cases i with
    | zero => simp [updateFrom, slot]
    | succ i =>
      simp only [updateFrom, List.getElem?_cons_succ, ih]
      have : s + 1 + i = s + (i + 1) := by omega
      rw [this]

/-- `update_H` only overwrites the single-site slots `[0][0,:,:,0]`, `[i][1,:,:,0]`: every other
entry of every factor is unchanged. -/
theorem updateH_only_slots (fs : List (Factor A)) (h : ℕ → A) (i a b : ℕ)
    (hne : ¬(a = slot i ∧ b = 0)) :
    ((updateH fs h)[i]?).map (fun F => entry F a b) = (fs[i]?).map (fun F => entry F a b) := by
  unfold updateH
  rw [updateFrom_getElem?]
  cases fs[i]? with
  | none => rfl
  | some F =>
    simp only [Option.map_some, Nat.zero_add]
    rw [entry_setEntry_ne F _ _ _ _ _ hne]

/-- `update_H` keeps the number of factors and every bond dimension. -/
theorem updateH_shape (fs : List (Factor A)) (h : ℕ → A) :
    (updateH fs h).map (fun F => (F.dl, F.dr)) = fs.map (fun F => (F.dl, F.dr)) := by
  unfold updateH
  generalize 0 = s
  induction fs generalizing s with
  | nil => rfl
  | cons F Fs ih => simp only [updateFrom, List.map_cons, ih]; rfl

end update

/-! ### Non-vacuity: the hypotheses are satisfied by the Kronecker site embeddings into the
`d^N × d^N` matrices (indexed by configurations `Fin N → Fin d`), so the theorems specialise to
the statement about dense matrices. -/
section nonvacuity
variable {α : Type} [CommRing α] [DecidableEq α]

/-- `1 ⊗ … ⊗ M ⊗ … ⊗ 1` with `M` at site `n`. -/
def siteEmb (N d : ℕ) (n : Fin N) :
    Matrix (Fin d) (Fin d) α →ₗ[α] Matrix (Fin N → Fin d) (Fin N → Fin d) α where
  toFun M := Matrix.of fun σ τ => if (∀ m, m ≠ n → σ m = τ m) then M (σ n) (τ n) else 0
  map_add' M M' := by
    ext σ τ
    simp only [Matrix.of_apply, Matrix.add_apply]
    split_ifs <;> simp
  map_smul' a M := by
    ext σ τ
    simp only [Matrix.of_apply, Matrix.smul_apply, RingHom.id_apply]
    split_ifs <;> simp

theorem siteEmb_one (N d : ℕ) (n : Fin N) : siteEmb (α := α) N d n 1 = 1 := by
  ext σ τ
  simp only [siteEmb, LinearMap.coe_mk, AddHom.coe_mk, Matrix.of_apply, Matrix.one_apply]
  by_cases h : σ = τ
  · subst h; simp
  · rw [if_neg h]
    by_cases hn : σ n = τ n
    · have : ¬ ∀ m, m ≠ n → σ m = τ m := by
        intro hall
        apply h
        funext m
        by_cases hm : m = n
        · rw [hm]; exact hn
        · exact hall m hm
      rw [if_neg this]
    · simp [hn]

/-- site embeddings for all `n : ℕ` (sites are taken mod `N`; only `n < N` is ever used). -/
def kronEmb (N d : ℕ) (hN : 0 < N) (n : ℕ) :
    Matrix (Fin d) (Fin d) α →ₗ[α] Matrix (Fin N → Fin d) (Fin N → Fin d) α :=
  siteEmb N d ⟨n % N, Nat.mod_lt _ hN⟩

/-- **C05 in matrix form**: with the Kronecker embeddings the Rydberg MPO of the model contracts to
the dense `d^N × d^N` Hamiltonian, for every `N ≥ 2`, `d`, symmetric `U`, and every `n̂`, `h`. -/
theorem rydberg_mpo_eq_dense_matrix (N d : ℕ) (hN : 2 ≤ N) (U : ℕ → ℕ → α)
    (hU : ∀ i j, U i j = U j i) (nop : Matrix (Fin d) (Fin d) α) (h : ℕ → Matrix (Fin d) (Fin d) α) :
    contractFrom (fun n => ⇑(kronEmb (α := α) N d (by omega) n)) 0 [1] (factors (mkRyd N U nop h))
      = [∑ m ∈ range N, kronEmb N d (by omega) m (h m)
          + ∑ j ∈ range N, ∑ i ∈ range j,
              U i j • (kronEmb N d (by omega) i nop * kronEmb N d (by omega) j nop)] :=
  rydberg_mpo_eq_dense N U nop h (kronEmb N d (by omega)) (fun n => siteEmb_one N d _) hU hN

theorem xy_mpo_eq_dense_matrix (N d : ℕ) (hN : 2 ≤ N) (U : ℕ → ℕ → α)
    (hU : ∀ i j, U i j = U j i) (sx sy : Matrix (Fin d) (Fin d) α)
    (h : ℕ → Matrix (Fin d) (Fin d) α) :
    contractFrom (fun n => ⇑(kronEmb (α := α) N d (by omega) n)) 0 [1] (factors (mkXY N U sx sy h))
      = [∑ m ∈ range N, kronEmb N d (by omega) m (h m)
          + ∑ j ∈ range N, ∑ i ∈ range j,
              (2 * U i j) • (kronEmb N d (by omega) i sx * kronEmb N d (by omega) j sx
                + kronEmb N d (by omega) i sy * kronEmb N d (by omega) j sy)] :=
  xy_mpo_eq_dense N U sx sy h (kronEmb N d (by omega)) (fun n => siteEmb_one N d _) hU hN

/-- Non-vacuity of `mpo_eq_dense` / `mpo_eq_dense_after_updates`: a concrete non-trivial instance
(5 sites, 3-level atoms, a sparse symmetric integer `U` with both signs over ℚ). -/
example :
    let U : ℕ → ℕ → ℚ := fun i j => if i + j = 3 then -2 else if i + 2 = j ∨ j + 2 = i then 3 else 0
    let nop : Matrix (Fin 3) (Fin 3) ℚ := Matrix.of fun p q => if p = 1 ∧ q = 1 then 1 else 0
    let h : ℕ → Matrix (Fin 3) (Fin 3) ℚ := fun m => Matrix.of fun p q => (m : ℚ) + p.val - 2 * q.val
    contractFrom (fun n => ⇑(kronEmb (α := ℚ) 5 3 (by omega) n)) 0 [1]
        (updateH (updateH (factors (mkRyd 5 U nop 0)) (fun m => 7 • h m)) h)
      = [Hdense (withH (mkRyd 5 U nop 0) h) (kronEmb 5 3 (by omega))] := by
  intro U nop h
  exact mpo_eq_dense_after_updates (mkRyd 5 U nop 0) _ h (kronEmb 5 3 (by omega))
    (fun n => siteEmb_one 5 3 _) (by
      intro i j
      show (if i + j = 3 then (-2 : ℚ) else if i + 2 = j ∨ j + 2 = i then 3 else 0)
        = (if j + i = 3 then -2 else if j + 2 = i ∨ i + 2 = j then 3 else 0)
      simp only [Nat.add_comm j i, @or_comm (j + 2 = i)])
    (by simp [mkRyd])

/-- A concrete evaluation (a *test* of the definitions, labelled as such): `N = 4`, scalars
`α = A = R = ℤ`, `emb = id`; couplings `U₀₂ = 5`, `U₁₃ = -3`, `U₂₃ = 2`, `n̂ = 1`, `h m = 10^m`:
the factors contract to `1111 + 5 - 3 + 2`. -/
example :
    contractFrom (fun _ => ⇑(LinearMap.id : ℤ →ₗ[ℤ] ℤ)) 0 [1]
      (factors (mkRyd 4
        (fun i j => if (i = 0 ∧ j = 2) ∨ (i = 2 ∧ j = 0) then 5
          else if (i = 1 ∧ j = 3) ∨ (i = 3 ∧ j = 1) then -3
          else if (i = 2 ∧ j = 3) ∨ (i = 3 ∧ j = 2) then 2 else 0)
        (1 : ℤ) (fun m => 10 ^ m))) = [1115] := by
  decide

end nonvacuity

end EmuVerif.Props.C05
