/-
  C06 — emu-sv operators apply exactly the Hamiltonian and Lindbladian they represent; the CPU
  and the batched (GPU) 2×2 matmul paths agree.

  All theorems are about `Model.SvOps` / `Model.TreeVec` (tied to `emu_sv/hamiltonian.py`,
  `emu_sv/lindblad_operator.py`, `emu_base/math/matmul.py` by the exact correspondence check of
  `harness/props/c06.py`) read over **every** commutative ring `κ` with a star operation, `I² = −1`,
  `½ + ½ = 1` (`LawfulCx`; ℂ and the driver's `Cx ℚ` are instances), for **every** number of
  qubits `n`, all parameters and all input vectors / matrices. Proofs are by induction on the
  tree (= on `n`).

  Proved (full):
    * `apply_local_eq_kron`          `m` applied on the `(2**k,2,-1)` view = `(I⊗…⊗m⊗…⊗I) · x`.
    * `matmul_batched_eq_plain`      `matmul_2x2_with_batched` = the plain broadcast 2×2 matmul.
    * `hamiltonian_mul_eq_dense_entries`  `H * v = denseH · v`, `denseH = Σ_k I⊗…⊗h_k⊗…⊗I + Σ_{i<j} U_ij n_i n_j`,
      `h_k = [[0, conj(cω_k)], [cω_k, −δ_k]]` resp. `[[0, ω_k], [ω_k, −δ_k]]`, no hypothesis at all.
    * `hamiltonian_mul_eq_denseH`    same with `h_k = (Ω_k/2)(cos φ_k σˣ + sin φ_k σʸ) − δ_k n` (the docstring);
      needs real `Ω`, `cos`, `sin` on the complex path (`conj(Ω e^{iφ}) = Ω e^{−iφ}`).
    * `real_path_eq_complex_path`    with all phases zero (`cos = 1`, `sin = 0`) and real `Ω` the two σ loops agree.
    * `lindbladian_matmul_eq_code`   for **every** matrix `L @ R = Heff R − R† Heff† + i Σ L R L†`.
    * `lindbladian_matmul_hermitian` for Hermitian `ρ`: `L @ ρ = Heff ρ − ρ Heff† + i Σ_q Σ_L L_q ρ L_q†`
      (`Heff = H − (i/2) Σ_q Σ_L (L†L)_q`), the dense generator in the code's `i·ℒ` convention.
    * `lindbladian_paths_agree`      CPU and batched paths of the whole Lindbladian agree on every input.
    * `noiseTerm_antihermitian`      `S = −(i/2) Σ L†L` satisfies `S† = −S`, i.e. `Heff† = H† + (i/2) Σ L†L`.
  Remark (not a defect: the property only quantifies Hermitian inputs): `Heff ρ − (Heff ρ)†` is the
  commutator form only for Hermitian `ρ`; `lindbladian_nonhermitian_counterexample` is a kernel-checked
  input on which `L @ R ≠ Heff R − R Heff†`.
-/
import EmuVerif.Proofs.SvOps
import Mathlib.Algebra.Order.Field.Rat

set_option linter.unusedSectionVars false

namespace EmuVerif.Props.C06
open EmuVerif EmuVerif.TreeVec EmuVerif.SvOps

variable {κ β : Type} {n : Nat}

section general
variable [CommRing κ] [AddCommGroup β] [Module κ β]

/-- `local_op @ x.view(2**k, 2, -1)` is `(I⊗…⊗m⊗…⊗I) x` (every `n`, `k`, `m`, `x`; entries of `x`
in any `κ`-module: scalars, or rows of a row-major matrix). -/
theorem apply_local_eq_kron (mm : M2 κ) (k : Nat) (x : Vec β n) :
    applyAt k mm x = Mat.mulVec (Mat.embed n k mm) x := applyAt_eq_mulVec mm k x

/-- `matmul_2x2_with_batched(m, x.view(2**k,2,-1))` = `m @ x.view(2**k,2,-1)`. -/
theorem matmul_batched_eq_plain (mm : M2 κ) (k : Nat) (h : k < n) (x : Vec β n) :
    matmulBatchedAt k mm x = applyAt k mm x := matmulBatchedAt_eq_applyAt mm k h x

variable [CxLike κ]

/-- `RydbergHamiltonian * v = denseH · v` with the single-qubit blocks given entry by entry. -/
theorem hamiltonian_mul_eq_dense_entries (Ω δ : Nat → κ) (ph : Nat → Phase κ) (U : Nat → Nat → κ) (v : Vec β n) :
    hamMul Ω δ ph U v = Mat.mulVec (denseOf (hLocal (isComplex ph n) (halfOmega Ω) δ ph) U n) v :=
  hamMulWith_eq_dense_entries _ Ω δ ph U v

end general

section lawful
variable [CommRing κ] [StarRing κ] [CxLike κ] [LawfulCx κ] [AddCommGroup β] [Module κ β]

/-- On the real path `[[0, ω], [ω, −δ]] = ω σˣ − δ n`. -/
theorem hLocal_real (ω δ : Nat → κ) (ph : Nat → Phase κ) (k : Nat) :
    hLocal false ω δ ph k = localTerms false ω δ ph M2.zero k := by
  unfold hLocal localTerms; ext <;> simp [M2.sigmaX, M2.nOp, M2.zero]

/-- On the complex path `[[0, conj(ω e^{iφ})], [ω e^{iφ}, −δ]] = ω (cos φ σˣ + sin φ σʸ) − δ n` when `ω`,
`cos φ`, `sin φ` are real. -/
theorem hLocal_complex (ω δ : Nat → κ) (ph : Nat → Phase κ) (k : Nat)
    (hω : star (ω k) = ω k) (hc : star (ph k).c = (ph k).c) (hs : star (ph k).s = (ph k).s) :
    hLocal true ω δ ph k = localTerms true ω δ ph M2.zero k := by
  unfold hLocal localTerms cOmega expi
  ext <;> simp [M2.sigmaX, M2.sigmaY, M2.nOp, M2.zero, LawfulCx.conj_eq, hω, hc, hs, LawfulCx.star_I] <;> ring

theorem denseOf_congr (h h' : Nat → M2 κ) (U : Nat → Nat → κ) (hh : ∀ k, k < n → h k = h' k) :
    denseOf h U n = denseOf h' U n := by
  unfold denseOf; congr 2
  exact List.map_congr_left (fun k hk => by rw [hh k (List.mem_range.mp hk)])

theorem star_halfOmega (Ω : Nat → κ) (k : Nat) (h : star (Ω k) = Ω k) : star (halfOmega Ω k) = halfOmega Ω k := by
  unfold halfOmega; rw [star_mul', h, LawfulCx.star_half]

/-- **`H * v = denseH · v`** with `denseH = Σ_k I⊗…⊗[(Ω_k/2)(cos φ_k σˣ + sin φ_k σʸ) − δ_k n]⊗…⊗I + Σ_{i<j} U_ij n_i n_j`.
When some phase is non-zero the drive amplitudes and the (cos, sin) tape must be real. -/
theorem hamiltonian_mul_eq_denseH (Ω δ : Nat → κ) (ph : Nat → Phase κ) (U : Nat → Nat → κ) (v : Vec β n)
    (hreal : isComplex ph n = true → ∀ k, k < n →
      star (Ω k) = Ω k ∧ star (ph k).c = (ph k).c ∧ star (ph k).s = (ph k).s) :
    hamMul Ω δ ph U v = Mat.mulVec (denseH Ω δ ph U n) v := by
  rw [hamiltonian_mul_eq_dense_entries]; unfold denseH
  congr 1
  apply denseOf_congr
  intro k hk
  cases hc : isComplex ph n
  · exact hLocal_real _ _ _ _
  · obtain ⟨h1, h2, h3⟩ := hreal hc k hk
    exact hLocal_complex _ _ _ _ (star_halfOmega Ω k h1) h2 h3

/-- **Real path = complex path when all phases are zero**: had `self.complex` been set although every
`cos φ = 1`, `sin φ = 0` (and the amplitudes are real), `__mul__` would return the same vector. -/
theorem real_path_eq_complex_path (Ω δ : Nat → κ) (ph : Nat → Phase κ) (U : Nat → Nat → κ) (v : Vec β n)
    (hzero : ∀ k, k < n → (ph k).c = 1 ∧ (ph k).s = 0) (hΩ : ∀ k, k < n → star (Ω k) = Ω k) :
    hamMulWith true Ω δ ph U v = hamMulWith false Ω δ ph U v := by
  rw [hamMulWith_eq_dense_entries, hamMulWith_eq_dense_entries]
  congr 1
  apply denseOf_congr
  intro k hk
  obtain ⟨h1, h2⟩ := hzero k hk
  unfold hLocal cOmega expi
  ext <;> simp [h1, h2, LawfulCx.conj_eq, star_halfOmega Ω k (hΩ k hk)]

/-- **`RydbergLindbladian @ R` for every matrix `R`** (row-major): `Heff R − R† Heff† + i Σ_q Σ_L L_q R L_q†`. -/
theorem lindbladian_matmul_eq_code (batched : Bool) (Ω δ : Nat → κ) (ph : Nat → Phase κ) (U : Nat → Nat → κ)
    (Ls : List (M2 κ)) (ρ : RMat κ n) :
    lindMatmul batched Ω δ ph U Ls ρ = (denseLindCode Ω δ ph U Ls (Mat.ofRows ρ)).toRows := by
  rw [← lindMatmul_eq_code, Mat.toRows_ofRows]

/-- **`RydbergLindbladian @ ρ` for Hermitian `ρ`** = the dense generator `Heff ρ − ρ Heff† + i Σ_q Σ_L L_q ρ L_q†`. -/
theorem lindbladian_matmul_hermitian (batched : Bool) (Ω δ : Nat → κ) (ph : Nat → Phase κ) (U : Nat → Nat → κ)
    (Ls : List (M2 κ)) (ρ : RMat κ n) (hρ : conjT ρ = ρ) :
    lindMatmul batched Ω δ ph U Ls ρ = (denseLind Ω δ ph U Ls (Mat.ofRows ρ)).toRows := by
  rw [lindbladian_matmul_eq_code]
  have hR : (Mat.ofRows ρ).dagger = Mat.ofRows ρ := by
    apply Mat.toRows_injective
    rw [← conjT_toRows, Mat.toRows_ofRows, hρ]
  unfold denseLindCode denseLind
  rw [hR]

/-- **CPU path = batched path** for the whole Lindbladian, on every input. -/
theorem lindbladian_paths_agree (Ω δ : Nat → κ) (ph : Nat → Phase κ) (U : Nat → Nat → κ)
    (Ls : List (M2 κ)) (ρ : RMat κ n) :
    lindMatmul true Ω δ ph U Ls ρ = lindMatmul false Ω δ ph U Ls ρ := by
  rw [lindbladian_matmul_eq_code, lindbladian_matmul_eq_code]

end lawful

/-! ### the noise term is anti-Hermitian -/
section noise
variable [CommRing κ] [StarRing κ] [CxLike κ] [LawfulCx κ]

theorem M2.dagger_add (x y : M2 κ) : (x + y).dagger = x.dagger + y.dagger := by
  ext <;> simp [M2.dagger, M2.conj, M2.transpose, M2.map, LawfulCx.conj_eq]

theorem M2.dagger_smul (s : κ) (x : M2 κ) : (s • x).dagger = star s • x.dagger := by
  ext <;> simp [M2.dagger, M2.conj, M2.transpose, M2.map, LawfulCx.conj_eq]

theorem M2.dagger_mul_self_herm (L : M2 κ) : (L.dagger * L).dagger = L.dagger * L := by
  ext <;> simp [M2.dagger, M2.conj, M2.transpose, M2.map, LawfulCx.conj_eq] <;> ring

theorem sumLdagL_herm (Ls : List (M2 κ)) :
    ∀ acc : M2 κ, acc.dagger = acc →
      (Ls.foldl (fun acc L => acc + L.dagger * L) acc).dagger = Ls.foldl (fun acc L => acc + L.dagger * L) acc := by
  induction Ls with
  | nil => intro acc h; exact h
  | cons L Ls ih =>
    intro acc h
    exact ih _ (by rw [M2.dagger_add, h, M2.dagger_mul_self_herm])

/-- `S = −(i/2) Σ_L L†L` satisfies `S† + S = 0`: hence `Heff† = H† + (i/2) Σ_q Σ_L (L†L)_q`, which turns
`Heff ρ − ρ Heff†` into `Hρ − ρH† − (i/2) Σ (L†L ρ + ρ L†L)`. -/
theorem noiseTerm_antihermitian (Ls : List (M2 κ)) : (noiseTerm Ls).dagger + noiseTerm Ls = M2.zero := by
  unfold noiseTerm
  have hK := sumLdagL_herm Ls M2.zero (by
    ext <;> simp [M2.dagger, M2.conj, M2.transpose, M2.map, M2.zero, LawfulCx.conj_eq])
  rw [M2.dagger_smul, hK]
  generalize Ls.foldl (fun acc L => acc + L.dagger * L) M2.zero = K
  ext <;> simp [M2.zero, LawfulCx.star_I, LawfulCx.star_half]

end noise

/-! ### concrete instances: non-vacuity of the hypotheses, and the non-Hermitian remark
(evaluated by the kernel over the Gaussian rationals `Cx ℚ`; these are *tests*, not theorems about all inputs) -/
section examples
abbrev K := Cx ℚ

def exΩ : Nat → K := fun k => ⟨2 + k, 0⟩
def exδ : Nat → K := fun k => ⟨1 / 2 - k, 0⟩
def exU : Nat → Nat → K := fun i j => ⟨(i + 2 * j : ℚ) / 4, 0⟩
/-- a non-zero phase with `(cos, sin) = (3/5, 4/5)` on qubit 0, zero phase on the others -/
def exPh : Nat → Phase K := fun k => if k = 0 then ⟨true, ⟨3 / 5, 0⟩, ⟨4 / 5, 0⟩⟩ else ⟨false, 1, 0⟩
def exV : Vec K 2 := .node (.node (.leaf ⟨1, 2⟩) (.leaf ⟨0, -1⟩)) (.node (.leaf ⟨3, 0⟩) (.leaf ⟨1 / 2, 1⟩))
/-- a Hermitian, non-diagonal, complex 2×2 matrix -/
def exρ : RMat K 1 := .node (.leaf (.node (.leaf ⟨1, 0⟩) (.leaf ⟨0, 1⟩))) (.leaf (.node (.leaf ⟨0, -1⟩) (.leaf ⟨2, 0⟩)))
def exL : M2 K := ⟨0, ⟨1, 1⟩, ⟨0, 0⟩, ⟨1 / 2, 0⟩⟩

/-- the realness hypothesis of `hamiltonian_mul_eq_denseH` is satisfiable on the complex path -/
example : isComplex exPh 2 = true ∧ ∀ k, k < 2 →
    star (exΩ k) = exΩ k ∧ star (exPh k).c = (exPh k).c ∧ star (exPh k).s = (exPh k).s := by decide +kernel

/-- test: the theorem's two sides evaluated on a 2-qubit complex-phase instance -/
example : hamMul exΩ exδ exPh exU exV = Mat.mulVec (denseH exΩ exδ exPh exU 2) exV := by decide +kernel

/-- the Hermiticity hypothesis of `lindbladian_matmul_hermitian` is satisfiable non-trivially -/
example : conjT exρ = exρ := by decide +kernel

/-- test: batched path, one jump operator, Hermitian input -/
example : lindMatmul true exΩ exδ exPh exU [exL] exρ = (denseLind exΩ exδ exPh exU [exL] (Mat.ofRows exρ)).toRows := by
  decide +kernel

/-- **Remark (non-Hermitian input)**: for `R = |g⟩⟨r|`, `Ω = 2`, no noise, the code returns `0` while
`Heff R − R Heff† = diag(−1, 1)`: the `X − X†` shortcut is the commutator only on Hermitian matrices. -/
theorem lindbladian_nonhermitian_counterexample :
    ¬ (∀ (ρ : RMat K 1), lindMatmul false (fun _ => ⟨2, 0⟩) (fun _ => 0) (fun _ => ⟨false, 1, 0⟩) (fun _ _ => 0) [] ρ
        = (denseLind (fun _ => ⟨2, 0⟩) (fun _ => 0) (fun _ => ⟨false, 1, 0⟩) (fun _ _ => 0) [] (Mat.ofRows ρ)).toRows) := by
  intro h
  have := h (.node (.leaf (.node (.leaf 0) (.leaf 1))) (.leaf (.node (.leaf 0) (.leaf 0))))
  revert this
  decide +kernel

end examples

end EmuVerif.Props.C06
