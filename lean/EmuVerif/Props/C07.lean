/-
  C07 — Krylov exponentiation is accurate and honest about convergence.

  Statement (properties.jsonl): whenever the Krylov exponential reports convergence its result
  equals exp(A)v to within ten times the requested tolerance relative to |v| (plus rounding), for
  Hermitian-proportional and general operators alike; when it cannot reach the tolerance within
  the allowed dimension it reports non-convergence, and the public entry point raises instead of
  returning an inaccurate vector.

  All theorems are about `Model.Krylov.expImpl` / `krylovExp` (tied to `krylov_exp.py` by the
  tape-driven and dense correspondence checks of harness/props/c07.py).

  **PARTIAL.** Proved here:
  (i)  *honesty of the flag*, for every tensor algebra `VecOps`, every operator and every
       `matrix_exp` oracle (no contract on it is needed):
       * `flag_honest`            – `converged = true` ⇔ some iteration `j < max_krylov_dim` reached
                                    by the loop has `n2 < norm_tolerance` (happy breakdown) or
                                    `err < exp_tolerance`;
       * `exit_iteration`         – then `iteration_count = j + 1` for the (unique, first) such `j`
                                    and `happy_breakdown` tells which test fired; otherwise
                                    `iteration_count = max_krylov_dim`, `happy_breakdown = false`;
       * `iterations_le_max`, `op_applied_iteration_count_times`, `happy_implies_converged`;
       * `impl_raises_only_unbound` – the only exception is `UnboundLocalError` for
                                    `max_krylov_dim = 0`;
       * `krylov_exp_returns_iff`, `krylov_exp_raises_iff` – the public wrapper returns the
                                    result iff converged, raises `RecursionError` iff not.
  (ii) *exact arithmetic*, any real/complex inner-product space, `v ≠ 0`, `0 < norm_tolerance`:
       * `arnoldi_relation`       – `op q_j = Σ_{k_start ≤ k ≤ j} overlap_k • q_k + n2 • q_{j+1}`, by
                                    construction (no assumption on `op`), both branches;
       * `column_of_T`            – the numbers in that relation are column `j` of `T`
                                    (`T[k_start+i, j] = overlap_i`, `T[j+1, j] = n2`);
       * `vectors_orthonormal`    – every reached `lanczos_vectors` is orthonormal, in the Arnoldi
                                    branch for any `op`, in the Lanczos branch when
                                    `⟪x, op y⟫ = c ⟪op x, y⟫` (`op† = c̄·op`), and
                                    `op q_k ∈ span{q_0,…,q_{k+1}}`.
  FINDING D20-C07 (unchanged code violates the accuracy clause inside the quantifier):
       * `early_accept_witness`, `neglected_second_order_term` – kernel-checked exact run of the
         model on the 1-atom witness: accepted at iteration 1 with the first-order Taylor vector
         while the neglected term is 1500·tol (`err2` uses ‖op v_j‖, Expokit uses ‖op v_{j+1}‖).
  NOT proved (kept as `def … : Prop`):
       * `AccuracyClause` – "converged ⇒ ‖result − exp(A)v‖ ≤ 10·tol·‖v‖": Expokit's a-posteriori
         estimate is a heuristic, not a bound. Validated against `scipy.linalg.expm` by the harness.
       * `BreakdownExact` – residual exactly 0 ⇒ result = exp(A)v (intertwining argument; stretch).
-/
import EmuVerif.Proofs.KrylovIP
import EmuVerif.Proofs.KrylovMat
import Mathlib.Analysis.Normed.Algebra.MatrixExponential
import Mathlib.Analysis.InnerProductSpace.Adjoint

set_option linter.unusedSectionVars false
set_option linter.unusedVariables false

namespace EmuVerif.Props.C07
open EmuVerif EmuVerif.Krylov
open scoped InnerProductSpace

/-! ### (i) honesty of the flag — every `VecOps`, every oracle -/
section Honest
variable {S R V : Type} [OfNat S 0] [OfNat S 1] [Mul S]
variable [LT R] [DecidableLT R] [Sub R] [Mul R] [Div R]
variable (O : VecOps S R V) (mexp : Nat → Mat S → Mat S) (cfg : ExpCfg R) (v : V)

/-- The loop of `krylov_exp_impl` on input `v` arrives at the top of iteration `j` in state `st`. -/
abbrev Reached (j : Nat) (st : ExpSt S R V) : Prop :=
  Reach O mexp cfg (O.norm v) (expInit O cfg v) j st

theorem impl_spec {r : ExpResult S R V} (h : expImpl O mexp cfg v = .ok r) :
    ExpSpec O mexp cfg (O.norm v) (expInit O cfg v) r :=
  (expLoop_spec O mexp cfg (O.norm v) (expInit O cfg v) cfg.maxDim 0 (expInit O cfg v)
    Reach.zero (by omega) rfl (by intro h; omega) (by intro i _ hi; omega)).1 r h

/-- **Honesty of the flag.** -/
theorem flag_honest {r : ExpResult S R V} (h : expImpl O mexp cfg v = .ok r) :
    r.converged = true ↔
      ∃ j st, j < cfg.maxDim ∧ Reached O mexp cfg v j st ∧
        (isBreakdown cfg (iterVals O cfg j st) = true ∨
         errOk cfg.expTol (extVals O mexp j st (iterVals O cfg j st)).err1
           (extVals O mexp j st (iterVals O cfg j st)).err2 = true) := by
  have hs := impl_spec O mexp cfg v h
  constructor
  · intro hc
    obtain ⟨j, st, hj, hr, hex, _, _⟩ := hs.conv hc
    exact ⟨j, st, hj, hr, hex⟩
  · rintro ⟨j, st, hj, hr, hex⟩
    cases hc : r.converged with
    | true => rfl
    | false => exact absurd hex ((hs.nconv hc).2.2 j st hj hr)

/-- Which iteration ended the run, and what the other fields then say. -/
theorem exit_iteration {r : ExpResult S R V} (h : expImpl O mexp cfg v = .ok r) :
    (r.converged = true → ∃ j st, j < cfg.maxDim ∧ Reached O mexp cfg v j st ∧
        Exits O mexp cfg j st ∧ r.iterationCount = j + 1 ∧
        r.happyBreakdown = isBreakdown cfg (iterVals O cfg j st) ∧
        ∀ i sti, i < j → Reached O mexp cfg v i sti → ¬ Exits O mexp cfg i sti) ∧
    (r.converged = false → r.happyBreakdown = false ∧ r.iterationCount = cfg.maxDim) := by
  have hs := impl_spec O mexp cfg v h
  refine ⟨?_, fun hc => ⟨(hs.nconv hc).1, (hs.nconv hc).2.1⟩⟩
  intro hc
  obtain ⟨j, st, hj, hr, hex, hit, hhb⟩ := hs.conv hc
  refine ⟨j, st, hj, hr, hex, hit, hhb, ?_⟩
  -- reaching `j` means every earlier iteration fell through
  have key : ∀ (k : Nat) (stk : ExpSt S R V), Reached O mexp cfg v k stk →
      ∀ i sti, i < k → Reached O mexp cfg v i sti → ¬ Exits O mexp cfg i sti := by
    intro k stk hk
    induction hk with
    | zero => intro i _ hi; omega
    | @step k' stp stn hp hstep ih =>
      intro i sti hi hri
      by_cases hik : i < k'
      · exact ih i sti hik hri
      · have : i = k' := by omega
        subst this
        rw [Reach.unique O mexp cfg (O.norm v) i sti stp hri hp]
        exact (expIter_cont_iff O mexp cfg (O.norm v)).mp ⟨_, hstep⟩
  exact key j st hr

theorem iterations_le_max {r : ExpResult S R V} (h : expImpl O mexp cfg v = .ok r) :
    r.iterationCount ≤ cfg.maxDim := by
  have hs := impl_spec O mexp cfg v h
  cases hc : r.converged with
  | true => obtain ⟨j, _, hj, _, _, hit, _⟩ := hs.conv hc; omega
  | false => exact le_of_eq (hs.nconv hc).2.1

/-- There is no early return on the start vector: with `max_krylov_dim ≥ 1` at least one
iteration is run (and `op` evaluated), whatever `|v|` is relative to the tolerances. -/
theorem at_least_one_iteration {r : ExpResult S R V} (h : expImpl O mexp cfg v = .ok r)
    (hmd : 1 ≤ cfg.maxDim) : 1 ≤ r.iterationCount ∧ 1 ≤ r.ghost.opCalls := by
  have hs := impl_spec O mexp cfg v h
  have h1 : 1 ≤ r.iterationCount := by
    cases hc : r.converged with
    | true => obtain ⟨j, _, _, _, _, hit, _⟩ := hs.conv hc; omega
    | false => rw [(hs.nconv hc).2.1]; exact hmd
  exact ⟨h1, by rw [hs.ops]; exact h1⟩

/-- `op` is evaluated exactly `iteration_count` times (ghost counter at the call site of `op`). -/
theorem op_applied_iteration_count_times {r : ExpResult S R V} (h : expImpl O mexp cfg v = .ok r) :
    r.ghost.opCalls = r.iterationCount :=
  (impl_spec O mexp cfg v h).ops

/-- The `assert (not happy_breakdown) or converged` of `KrylovExpResult` never fires. -/
theorem happy_implies_converged {r : ExpResult S R V} (h : expImpl O mexp cfg v = .ok r)
    (hb : r.happyBreakdown = true) : r.converged = true := by
  cases hc : r.converged with
  | true => rfl
  | false => rw [((impl_spec O mexp cfg v h).nconv hc).1] at hb; exact absurd hb (by simp)

theorem impl_raises_only_unbound {e : Err} (h : expImpl O mexp cfg v = .error e) :
    e = .unboundLocal ∧ cfg.maxDim = 0 :=
  (expLoop_spec O mexp cfg (O.norm v) (expInit O cfg v) cfg.maxDim 0 (expInit O cfg v)
    Reach.zero (by omega) rfl (by intro h; omega) (by intro i _ hi; omega)).2 e h

/-- `krylov_exp` returns exactly the converged results… -/
theorem krylov_exp_returns_iff (x : V) :
    krylovExp O mexp cfg v = .ok x ↔
      ∃ r, expImpl O mexp cfg v = .ok r ∧ r.converged = true ∧ x = r.result := by
  unfold krylovExp
  cases h : expImpl O mexp cfg v with
  | error e => simp
  | ok r =>
    cases hc : r.converged with
    | true => simp [hc]; exact eq_comm
    | false => simp [hc]

/-- …and raises `RecursionError` exactly when the implementation reports non-convergence. -/
theorem krylov_exp_raises_iff :
    krylovExp O mexp cfg v = .error .recursion ↔
      ∃ r, expImpl O mexp cfg v = .ok r ∧ r.converged = false := by
  unfold krylovExp
  cases h : expImpl O mexp cfg v with
  | error e =>
    have := impl_raises_only_unbound O mexp cfg v h
    simp [this.1]
  | ok r =>
    cases hc : r.converged with
    | true => simp [hc]
    | false => simp [hc]

/-- The PUBLIC `krylov_exp(op, v, exp_tolerance, norm_tolerance, is_hermitian, max_krylov_dim)` is the
implementation run with the caller's tolerances *under their own names*: it returns iff the run
with `exp_tolerance` gating `err <` and `norm_tolerance` gating `n2 <` (see `flag_honest`) converged. -/
theorem public_krylov_exp_uses_callers_tolerances (et nt : R) (herm : Bool) (md : Nat) (x : V) :
    krylovExpPublic O mexp v et nt herm md = .ok x ↔
      ∃ r, expImpl O mexp { isHermitian := herm, expTol := et, normTol := nt, maxDim := md } v = .ok r ∧
        r.converged = true ∧ x = r.result :=
  krylov_exp_returns_iff O mexp _ v x

end Honest

/-! ### (ii) exact arithmetic in an inner-product space -/
section Exact
variable {𝕜 E : Type} [RCLike 𝕜] [NormedAddCommGroup E] [InnerProductSpace 𝕜 E]
variable (A : E → E) (mexp : Nat → Mat 𝕜 → Mat 𝕜) (cfg : ExpCfg ℝ) (v : E)

/-- **Arnoldi / Lanczos relation** at every iteration, both branches, any `op`:
`op q_j = Σ_k overlap_k • q_k + w`, and `w = n2 • q_{j+1}` when the loop goes on. -/
theorem arnoldi_relation (j : Nat) (st : ExpSt 𝕜 ℝ E) :
    A st.cur = wsum (iterVals (ipOps (𝕜 := 𝕜) A) cfg j st).ovs (st.qs.drop (kStart cfg.isHermitian j))
        + (iterVals (ipOps (𝕜 := 𝕜) A) cfg j st).w
    ∧ ((iterVals (ipOps (𝕜 := 𝕜) A) cfg j st).n2 ≠ 0 →
        (iterVals (ipOps (𝕜 := 𝕜) A) cfg j st).w
          = ((iterVals (ipOps (𝕜 := 𝕜) A) cfg j st).n2 : 𝕜) •
            (extVals (ipOps (𝕜 := 𝕜) A) mexp j st (iterVals (ipOps (𝕜 := 𝕜) A) cfg j st)).cur) :=
  ⟨arnoldi_relation_w A cfg j st, w_eq_n2_smul A cfg j st⟩

/-- The coefficients of that relation are what iteration `j` writes into column `j` of `T`. -/
theorem column_of_T (j : Nat) (st : ExpSt 𝕜 ℝ E) (hT : Shape (cfg.maxDim + 2) st.T)
    (hj : j < cfg.maxDim) (hlen : st.qs.length = j + 1) :
    let iv := iterVals (ipOps (𝕜 := 𝕜) A) cfg j st
    (∀ i, i < iv.ovs.length → getM iv.T (kStart cfg.isHermitian j + i) j = iv.ovs.getD i 0) ∧
    getM iv.T (j + 1) j = (iv.n2 : 𝕜) ∧
    iv.ovs.length = j + 1 - kStart cfg.isHermitian j := by
  intro iv
  have hk0 : kStart cfg.isHermitian j ≤ j := by
    unfold kStart; split <;> omega
  have hol : iv.ovs.length = j + 1 - kStart cfg.isHermitian j := by
    show (mgs _ _ _).2.length = _
    rw [mgs_length, List.length_drop, hlen]
  have hw := shape_writeCol hT (j := j) (k0 := kStart cfg.isHermitian j) (by omega) iv.ovs (by omega)
  refine ⟨?_, ?_, hol⟩
  · intro i hi
    show getM (setM (writeCol st.T j _ iv.ovs) (j + 1) j _) _ _ = _
    rw [getM_setM hw (by omega) (by omega), if_neg (by omega),
      getM_writeCol hT (by omega) _ (by omega), if_pos ⟨rfl, by omega, by omega⟩]
    congr 1; omega
  · show getM (setM (writeCol st.T j _ iv.ovs) (j + 1) j _) _ _ = _
    rw [getM_setM hw (by omega) (by omega), if_pos ⟨rfl, rfl⟩]
    rfl

/-- **Orthonormality** of every `lanczos_vectors` the loop reaches (and the Krylov relation
`op q_k ∈ span{q_0…q_{k+1}}`). Arnoldi branch: any `op`. Lanczos branch: `op† ∝ op`. -/
theorem vectors_orthonormal (hv : v ≠ 0) (hpos : 0 < cfg.normTol)
    (hadj : cfg.isHermitian = true → ∃ c : 𝕜, ∀ x y, ⟪x, A y⟫_𝕜 = c * ⟪A x, y⟫_𝕜)
    (j : Nat) (st : ExpSt 𝕜 ℝ E)
    (h : Reach (ipOps (𝕜 := 𝕜) A) mexp cfg ‖v‖ (expInit (ipOps (𝕜 := 𝕜) A) cfg v) j st) :
    OrthoN (𝕜 := 𝕜) st.qs ∧ st.qs.length = j + 1 ∧ st.qs.getD j 0 = st.cur ∧
      KrInv (𝕜 := 𝕜) A st.qs := by
  have := expInv_reach A mexp cfg ‖v‖ v hv hpos hadj j st h
  exact ⟨this.ortho, this.len, this.cur, this.kr⟩

/-- `OrthoN` is Mathlib's `Orthonormal` for the indexed family. -/
theorem orthoN_iff_orthonormal (ql : List E) :
    OrthoN (𝕜 := 𝕜) ql ↔ Orthonormal 𝕜 (fun i : Fin ql.length => ql[i]) := by
  constructor
  · intro h
    refine ⟨fun i => h.1 _ (List.getElem_mem _), ?_⟩
    intro i k hik
    exact orthoN_getElem_inner h i.2 k.2 (fun e => hik (Fin.ext e))
  · intro h
    refine ⟨?_, ?_⟩
    · intro q hq
      obtain ⟨i, hi, rfl⟩ := List.mem_iff_getElem.mp hq
      exact h.1 ⟨i, hi⟩
    · rw [List.pairwise_iff_getElem]
      intro a b ha hb hab
      exact h.2 (i := ⟨a, ha⟩) (j := ⟨b, hb⟩) (fun e => by simp at e; omega)

end Exact

/-! ### the clauses that are NOT proved (full-strength statements) -/
section Unproved
open NormedSpace

/-- `Mat` ↔ `Matrix` -/
noncomputable def toMatrix {𝕜 : Type} [RCLike 𝕜] (n : Nat) (M : Mat 𝕜) : Matrix (Fin n) (Fin n) 𝕜 :=
  fun i j => getM M i j
noncomputable def ofMatrix {𝕜 : Type} [RCLike 𝕜] {n : Nat} (M : Matrix (Fin n) (Fin n) 𝕜) : Mat 𝕜 :=
  Array.ofFn (fun i => Array.ofFn (fun j => M i j))

/-- The ideal `torch.linalg.matrix_exp`. -/
noncomputable def exactMexp {𝕜 : Type} [RCLike 𝕜] (_ : Nat) (M : Mat 𝕜) : Mat 𝕜 :=
  ofMatrix (NormedSpace.exp (toMatrix M.size M))

/-- **Accuracy clause of C07 (NOT PROVED — Expokit heuristic).** For the operator classes
`-i·dt·H` and `-i·dt·(H - iG/2)` (dissipative: `re ⟪A x, x⟫ ≤ 0`; the Lindblad class is
contractive in trace norm only and is covered by the harness validation alone): with exact
kernels, a converged run is within `10·tol·‖v‖` of `exp(A) v`. -/
def AccuracyClause : Prop :=
  ∀ (E : Type) [NormedAddCommGroup E] [InnerProductSpace ℂ E] [CompleteSpace E]
    (A : E →L[ℂ] E) (cfg : ExpCfg ℝ) (v : E) (r : ExpResult ℂ ℝ E),
    (∀ x, RCLike.re ⟪A x, x⟫_ℂ ≤ 0) → cfg.normTol = cfg.expTol → 0 < cfg.expTol →
    (cfg.isHermitian = true → ∃ c : ℂ, ∀ x y, ⟪x, A y⟫_ℂ = c * ⟪A x, y⟫_ℂ) →
    expImpl (ipOps (𝕜 := ℂ) A) exactMexp cfg v = .ok r → r.converged = true →
    ‖r.result - (NormedSpace.exp A) v‖ ≤ 10 * cfg.expTol * ‖v‖

/-- **Breakdown exactness (stated, not proved).** If the residual is exactly zero the returned
vector is `exp(A) v`. -/
def BreakdownExact : Prop :=
  ∀ (E : Type) [NormedAddCommGroup E] [InnerProductSpace ℂ E] [CompleteSpace E]
    (A : E →L[ℂ] E) (cfg : ExpCfg ℝ) (v : E) (r : ExpResult ℂ ℝ E) (j : Nat) (st : ExpSt ℂ ℝ E),
    v ≠ 0 → 0 < cfg.normTol →
    (cfg.isHermitian = true → ∃ c : ℂ, ∀ x y, ⟪x, A y⟫_ℂ = c * ⟪A x, y⟫_ℂ) →
    expImpl (ipOps (𝕜 := ℂ) A) exactMexp cfg v = .ok r → r.happyBreakdown = true →
    Reach (ipOps (𝕜 := ℂ) A) exactMexp cfg ‖v‖ (expInit (ipOps (𝕜 := ℂ) A) cfg v) j st →
    r.iterationCount = j + 1 → (iterVals (ipOps (𝕜 := ℂ) A) cfg j st).n2 = 0 →
    r.result = (NormedSpace.exp A) v

end Unproved

/-! ### Finding D20-C07: the estimate accepts a first-order result (kernel-checked model run)

On the unchanged code the accuracy clause FAILS inside the property's quantifier (found by the C01
check, reproduced and classified by harness/props/c07.py): one atom in |g⟩, weak drive, large
detuning, `A = -i·dt·H` with `H = [[0, Ω/2], [Ω/2, -δ]]`. Below the model is run in *exact*
arithmetic over the Gaussian rationals (all norms taken on this input are rational), with the
exact exponential of the nilpotent extended matrix `T` (`T³ = 0`, so `exp T = 1 + T + T²/2`):
it accepts at iteration 1 and returns the first-order Taylor vector `v + A v`, although the
neglected second-order term `A²v/2` is 1500 × the tolerance. (That `‖exp(A)v − v − Av‖` is within
1 % of `‖A²v/2‖` is the analytic step that is *not* kernel-checked here; the harness checks it
against `scipy.linalg.expm` on the real code.) -/
section Finding

structure GQ where
  re : ℚ
  im : ℚ
  deriving DecidableEq

instance : OfNat GQ 0 := ⟨⟨0, 0⟩⟩
instance : OfNat GQ 1 := ⟨⟨1, 0⟩⟩
instance : Mul GQ := ⟨fun a b => ⟨a.re * b.re - a.im * b.im, a.re * b.im + a.im * b.re⟩⟩
instance : Add GQ := ⟨fun a b => ⟨a.re + b.re, a.im + b.im⟩⟩
instance : Sub GQ := ⟨fun a b => ⟨a.re - b.re, a.im - b.im⟩⟩

def GQ.conj (z : GQ) : GQ := ⟨z.re, -z.im⟩
def GQ.nsq (z : GQ) : ℚ := z.re * z.re + z.im * z.im
/-- square root, exact on squares of rationals (the only arguments it gets below) -/
def ratSqrt (q : ℚ) : ℚ := (Nat.sqrt q.num.natAbs : ℚ) / (Nat.sqrt q.den : ℚ)

def gqOps (a b c d : GQ) : VecOps GQ ℚ (GQ × GQ) where
  op x := (a * x.1 + b * x.2, c * x.1 + d * x.2)
  inner x y := x.1.conj * y.1 + x.2.conj * y.2
  norm x := ratSqrt (x.1.nsq + x.2.nsq)
  axpy k q w := (w.1 - k * q.1, w.2 - k * q.2)
  divR x r := (⟨x.1.re / r, x.1.im / r⟩, ⟨x.2.re / r, x.2.im / r⟩)
  zero := (0, 0)
  add x y := (x.1 + y.1, x.2 + y.2)
  smul k x := (k * x.1, k * x.2)
  ofReal r := ⟨r, 0⟩
  re z := z.re
  cabs z := ratSqrt z.nsq

def mmul (X Y : Mat GQ) : Mat GQ :=
  let n := X.size
  (Array.range n).map fun i => (Array.range n).map fun j =>
    (List.range n).foldl (fun acc k => acc + getM X i k * getM Y k j) 0

/-- `1 + T + T²/2` -/
def taylor2 (_ : Nat) (T : Mat GQ) : Mat GQ :=
  let n := T.size
  let T2 := mmul T T
  (Array.range n).map fun i => (Array.range n).map fun j =>
    (if i = j then (1 : GQ) else 0) + getM T i j + (⟨1 / 2, 0⟩ : GQ) * getM T2 i j

def wβ : ℚ := 1 / 100000      -- dt·Ω/2   (Ω = 0.02 rad/µs, dt = 1 ns)
def wd : ℚ := 3 / 100         -- dt·|δ|   (δ = −30 rad/µs)
def wtol : ℚ := 1 / 10000000000
/-- `A = -i·dt·[[0, Ω/2], [Ω/2, -δ]]` -/
def wOps : VecOps GQ ℚ (GQ × GQ) := gqOps 0 ⟨0, -wβ⟩ ⟨0, -wβ⟩ ⟨0, -wd⟩
def wCfg (herm : Bool) : ExpCfg ℚ := { isHermitian := herm, expTol := wtol, normTol := wtol, maxDim := 100 }

/-- the extended `T` of iteration 0 on this input; it is nilpotent, so `taylor2` is its exponential -/
def wT : Mat GQ := #[#[0, 0, 0], #[⟨wβ, 0⟩, 0, 0], #[0, 1, 0]]
example : mmul wT (mmul wT wT) = #[#[0, 0, 0], #[0, 0, 0], #[0, 0, 0]] := by decide +kernel
/-- the square roots taken on this input are exact -/
example : ratSqrt (wβ * wβ) = wβ ∧ ratSqrt 1 = 1 ∧ ratSqrt ((wβ / 2) * (wβ / 2)) = wβ / 2 := by decide +kernel

/-- everything observable about the run, compared with the expected values -/
def wCheck (r : Except Err (ExpResult GQ ℚ (GQ × GQ))) : Bool :=
  match r with
  | .ok r => r.converged && !r.happyBreakdown && r.iterationCount == 1
      && decide (r.result = ((1 : GQ), (⟨0, -wβ⟩ : GQ)))
      && decide (r.ghost.errs = [(wβ, wβ * wβ / 2)])
      && decide (sliceM r.ghost.T 3 = wT)
  | .error _ => false

/-- **Witness (model, exact arithmetic, both branches):** the run is accepted at iteration 1
(`converged`, not `happy_breakdown`, `iteration_count = 1`) — `err1 = β = 1e-5`,
`err2 = β²/2 = 5e-11`, `err = err1·err2/(err1−err2) < 1e-10` — the matrix exponentiated is `wT`,
and the vector returned is `v + A v = (1, −iβ)`. -/
theorem early_accept_witness (herm : Bool) :
    wCheck (expImpl wOps taylor2 (wCfg herm) (1, 0)) = true := by
  cases herm <;> decide +kernel

/-- **…but the neglected second-order term `A²v/2 = (−β²/2, −βd/2)` is 1500 × the tolerance**
(and 150 × the `10·tol` the property allows). -/
theorem neglected_second_order_term :
    let Av := wOps.op (1, 0)
    let AAv := wOps.op Av
    AAv = (⟨-(wβ * wβ), 0⟩, ⟨-(wβ * wd), 0⟩) ∧ ratSqrt ((wβ * wd / 2) * (wβ * wd / 2)) = 1500 * wtol := by
  decide +kernel

end Finding

/-! ### non-vacuity: concrete runs of the model reaching each of the three exits -/
section Examples

/-- A 2-dimensional rational toy algebra (sup-norm, so no square root): enough to run the model
through all three exits; the theorems of part (i) make no assumption on the algebra. -/
def toyOps (a b c d : ℚ) : VecOps ℚ ℚ (ℚ × ℚ) where
  op x := (a * x.1 + b * x.2, c * x.1 + d * x.2)
  inner x y := x.1 * y.1 + x.2 * y.2
  norm x := max (absv x.1) (absv x.2)
  axpy k q w := (w.1 - k * q.1, w.2 - k * q.2)
  divR x r := (x.1 / r, x.2 / r)
  zero := (0, 0)
  add x y := (x.1 + y.1, x.2 + y.2)
  smul k x := (k * x.1, k * x.2)
  ofReal := id
  re := id
  cabs := absv

def toyMexp (e : ℚ) (_ : Nat) (M : Mat ℚ) : Mat ℚ := M.map (fun r => r.map (fun _ => e))

def toyCfg (md : Nat) : ExpCfg ℚ := { isHermitian := false, expTol := 1 / 1000, normTol := 1 / 1000, maxDim := md }

def flags (r : Except Err (ExpResult ℚ ℚ (ℚ × ℚ))) : Option (Bool × Bool × Nat × Nat) :=
  match r with
  | .ok r => some (r.converged, r.happyBreakdown, r.iterationCount, r.ghost.opCalls)
  | .error _ => none

/-- happy breakdown at the first iteration (start vector is an eigenvector) -/
example : flags (expImpl (toyOps 2 0 0 3) (toyMexp 1) (toyCfg 5) (1, 0)) = some (true, true, 1, 1) := by
  decide +kernel
/-- converged through the error estimate at the first iteration (tiny oracle entries) -/
example : flags (expImpl (toyOps 0 1 2 0) (toyMexp (1 / 100000)) (toyCfg 5) (1, 0)) = some (true, false, 1, 1) := by
  decide +kernel
/-- not converged: all `max_krylov_dim` iterations run, the public wrapper raises -/
example : flags (expImpl (toyOps 0 1 1 1) (toyMexp 1) (toyCfg 1) (1, 0)) = some (false, false, 1, 1) := by
  decide +kernel
example : (krylovExp (toyOps 0 1 1 1) (toyMexp 1) (toyCfg 1) (1, 0)).toOption = none := by
  decide +kernel
/-- `max_krylov_dim = 0`: `UnboundLocalError` -/
example : flags (expImpl (toyOps 0 1 1 1) (toyMexp 1) (toyCfg 0) (1, 0)) = none := by decide +kernel

/-- hypotheses of `vectors_orthonormal` are satisfiable in both branches (`E = ℝ`, `op = id`). -/
example (mexp : Nat → Mat ℝ → Mat ℝ) (herm : Bool) :
    ∀ j st, Reach (ipOps (𝕜 := ℝ) (E := ℝ) id) mexp ⟨herm, 1, 1, 3⟩ ‖(1 : ℝ)‖
        (expInit (ipOps (𝕜 := ℝ) (E := ℝ) id) ⟨herm, 1, 1, 3⟩ 1) j st →
      OrthoN (𝕜 := ℝ) st.qs ∧ st.qs.length = j + 1 ∧ st.qs.getD j 0 = st.cur ∧ KrInv (𝕜 := ℝ) id st.qs :=
  fun j st h => vectors_orthonormal id mexp ⟨herm, 1, 1, 3⟩ 1 one_ne_zero one_pos
    (fun _ => ⟨1, fun x y => by simp⟩) j st h

end Examples

end EmuVerif.Props.C07
