/-
  C07 (continued) — the algebraic core of `BreakdownExact`: on an EXACT happy breakdown the Krylov result is `exp(A) v`.

  `Props/C07.lean` keeps `BreakdownExact` as a `def … : Prop` ("intertwining argument; stretch"). Its mathematical content is
  proved here, for every Krylov dimension `m` and every (also infinite-dimensional) complete complex normed space:

    * `pow_intertwine`, `exp_intertwine`   matrices over ℂ, `Q : n × m` ANY rectangular matrix (no orthonormality, no
      independence needed): `A Q = Q T` ⇒ `Aᵏ Q = Q Tᵏ` for all `k` (induction) ⇒ `exp(A) Q = Q exp(T)` (term by term on the
      power series; `matrix_expSeries_hasSum` is the series in the entry-wise topology). No commutation hypothesis.
    * `exp_intertwine_column`               `v = β · (column 0 of Q)` ⇒ `exp(A) v = β · Q (exp(T) e₀)`.
    * `pow_krylov_relation`, `exp_krylov_relation`   operator form, the shape of the code: `A : E →L[ℂ] E`, vectors
      `q_0 … q_{m-1} : E` (`lanczos_vectors`), `T : m × m` with `A q_k = Σ_i T_ik q_i` for EVERY `k < m` (the Arnoldi /
      Lanczos relation with zero last residual) ⇒ `Aᴺ q_k = Σ_i (Tᴺ)_ik q_i` ⇒ `exp(A) q_k = Σ_i exp(T)_ik q_i`.
    * `krylov_breakdown_exact`              **the clause**: if moreover `v = β • q_0` then
      `exp(A) v = β • Σ_i exp(T)_{i0} • q_i`, which is literally
      `initial_norm * sum(a * b for a, b in zip(expd[:, 0], lanczos_vectors))` with `expd = matrix_exp(T[:j+1, :j+1])`,
      `β = initial_norm = ‖v‖`, `q_0 = v / ‖v‖` — the value `krylov_exp_impl` returns on the happy-breakdown exit.
    * `relation_of_arnoldi_steps`           the hypothesis from the per-iteration facts: if for every `k < m`
      `A q_k = Σ_{i ≤ k} h_ik q_i + r_k` and `r_k = h_{k+1,k} q_{k+1}` for `k + 1 < m` while the LAST residual `r_{m-1} = 0`
      (breakdown with `n2 = 0` exactly), then `A q_k = Σ_i T_ik q_i` for the upper-Hessenberg `T` built from `h`
      (`T_ik = h_ik` for `i ≤ k + 1`, `0` below) — what `C07.arnoldi_relation` + `C07.column_of_T` give per iteration.

  Correspondence with `Model.Krylov`: at the happy exit of iteration `j` the model returns
  `combine O ‖v‖ (mexp j (sliceM iv.T (j+1))) st.qs` = `‖v‖ • Σ_{i ≤ j} expd[i,0] • qs[i]` with `expd = exp(T[:j+1,:j+1])` for the exact
  oracle `C07.exactMexp`; `Props/C07BreakdownModel.lean` proves the loop invariant on `T` and the list/array plumbing and derives
  `C07.BreakdownExact` itself (`breakdownExact_holds`) from `krylov_breakdown_exact_normalised` below (`m = j+1`, `q_i = qs[i]`,
  `β = ‖v‖`). Orthonormality (`C07.vectors_orthonormal`) is not needed for this clause.
-/
import Mathlib.Analysis.Normed.Algebra.MatrixExponential
import Mathlib.Analysis.Normed.Operator.NormedSpace
import Mathlib.Analysis.Complex.Basic
import Mathlib.Topology.Instances.Matrix

set_option linter.unusedSectionVars false
set_option linter.unusedVariables false

namespace EmuVerif.Props.C07Breakdown
open Matrix NormedSpace
open scoped Nat

/-! ### matrices: `A Q = Q T ⇒ exp(A) Q = Q exp(T)` -/
section MatrixForm
variable {n m : Type} [Fintype n] [DecidableEq n] [Fintype m] [DecidableEq m]

/-- `A Q = Q T ⇒ Aᵏ Q = Q Tᵏ` -/
theorem pow_intertwine (A : Matrix n n ℂ) (T : Matrix m m ℂ) (Q : Matrix n m ℂ) (h : A * Q = Q * T) (k : ℕ) :
    A ^ k * Q = Q * T ^ k := by
  induction k with
  | zero => simp
  | succ k ih => rw [pow_succ, Matrix.mul_assoc, h, ← Matrix.mul_assoc, ih, Matrix.mul_assoc, ← pow_succ]

set_option backward.isDefEq.respectTransparency false in
/-- the exponential series of a complex matrix converges to `exp` in the (entry-wise) topology of `Matrix` -/
theorem matrix_expSeries_hasSum (T : Matrix m m ℂ) : HasSum (fun k : ℕ => ((k ! : ℂ)⁻¹) • T ^ k) (exp T) :=
  open scoped Matrix.Norms.Operator in exp_series_hasSum_exp' (𝕂 := ℂ) T

/-- **`A Q = Q T ⇒ exp(A) Q = Q exp(T)`**, `Q` any rectangular matrix. -/
theorem exp_intertwine (A : Matrix n n ℂ) (T : Matrix m m ℂ) (Q : Matrix n m ℂ) (h : A * Q = Q * T) :
    exp A * Q = Q * exp T := by
  have h1 : HasSum (fun k : ℕ => (((k ! : ℂ)⁻¹) • A ^ k) * Q) (exp A * Q) :=
    (matrix_expSeries_hasSum A).map (Matrix.addMonoidHomMulRight Q) (continuous_id.matrix_mul continuous_const)
  have h2 : HasSum (fun k : ℕ => Q * (((k ! : ℂ)⁻¹) • T ^ k)) (Q * exp T) :=
    (matrix_expSeries_hasSum T).map (Matrix.addMonoidHomMulLeft Q) (continuous_const.matrix_mul continuous_id)
  have hfun : (fun k : ℕ => (((k ! : ℂ)⁻¹) • A ^ k) * Q) = fun k : ℕ => Q * (((k ! : ℂ)⁻¹) • T ^ k) := by
    funext k
    rw [Matrix.smul_mul, Matrix.mul_smul, pow_intertwine A T Q h k]
  rw [hfun] at h1
  exact h1.unique h2

/-- `v = β · Q e₀ ⇒ exp(A) v = β · Q (exp(T) e₀)` (`e₀ = Pi.single i₀ 1`, `i₀` the index of the first Krylov vector) -/
theorem exp_intertwine_column (A : Matrix n n ℂ) (T : Matrix m m ℂ) (Q : Matrix n m ℂ) (h : A * Q = Q * T)
    (i₀ : m) (β : ℂ) (v : n → ℂ) (hv : v = β • (Q *ᵥ Pi.single i₀ 1)) :
    exp A *ᵥ v = β • (Q *ᵥ (exp T *ᵥ Pi.single i₀ 1)) := by
  rw [hv, mulVec_smul, mulVec_mulVec, exp_intertwine A T Q h, ← mulVec_mulVec]

end MatrixForm

/-! ### operator form: the shape of `krylov_exp_impl` -/
section OperatorForm
variable {E : Type} [NormedAddCommGroup E] [NormedSpace ℂ E] [CompleteSpace E]
variable {m : Type} [Fintype m] [DecidableEq m]

/-- `A q_k = Σ_i T_ik q_i` for all `k` ⇒ `Aᴺ q_k = Σ_i (Tᴺ)_ik q_i` -/
theorem pow_krylov_relation (A : E →L[ℂ] E) (q : m → E) (T : Matrix m m ℂ)
    (h : ∀ k, A (q k) = ∑ i, T i k • q i) (N : ℕ) (k : m) :
    (A ^ N) (q k) = ∑ i, (T ^ N) i k • q i := by
  induction N generalizing k with
  | zero => simp [Matrix.one_apply, ite_smul]
  | succ N ih =>
    rw [pow_succ, mul_apply_eq_comp, h k, map_sum]
    simp_rw [map_smul, ih, Finset.smul_sum, smul_smul]
    rw [Finset.sum_comm]
    refine Finset.sum_congr rfl (fun l _ => ?_)
    rw [← Finset.sum_smul, pow_succ, Matrix.mul_apply]
    congr 1
    exact Finset.sum_congr rfl (fun i _ => mul_comm _ _)

/-- **`A q_k = Σ_i T_ik q_i` for all `k` ⇒ `exp(A) q_k = Σ_i exp(T)_ik q_i`.** -/
theorem exp_krylov_relation (A : E →L[ℂ] E) (q : m → E) (T : Matrix m m ℂ)
    (h : ∀ k, A (q k) = ∑ i, T i k • q i) (k : m) :
    (exp A) (q k) = ∑ i, (exp T) i k • q i := by
  have h1 : HasSum (fun N : ℕ => (((N ! : ℂ)⁻¹) • A ^ N) (q k)) ((exp A) (q k)) :=
    (exp_series_hasSum_exp' (𝕂 := ℂ) A).map (ContinuousLinearMap.apply ℂ E (q k))
      (ContinuousLinearMap.apply ℂ E (q k)).continuous
  let g : Matrix m m ℂ →+ E :=
    { toFun := fun M => ∑ i, M i k • q i
      map_zero' := by simp
      map_add' := fun M M' => by simp [add_smul, Finset.sum_add_distrib] }
  have hg : Continuous g := by
    show Continuous (fun M : Matrix m m ℂ => ∑ i, M i k • q i)
    exact continuous_finsetSum _ (fun i _ => (continuous_id.matrix_elem i k).smul continuous_const)
  have h2 : HasSum (fun N : ℕ => ∑ i, (((N ! : ℂ)⁻¹) • T ^ N) i k • q i) (∑ i, (exp T) i k • q i) :=
    (matrix_expSeries_hasSum T).map g hg
  have hfun : (fun N : ℕ => (((N ! : ℂ)⁻¹) • A ^ N) (q k))
      = fun N : ℕ => ∑ i, (((N ! : ℂ)⁻¹) • T ^ N) i k • q i := by
    funext N
    rw [_root_.smul_apply, pow_krylov_relation A q T h N k, Finset.smul_sum]
    refine Finset.sum_congr rfl (fun i _ => ?_)
    rw [Matrix.smul_apply, smul_eq_mul, smul_smul]
  rw [hfun] at h1
  exact h1.unique h2

/-- **Exactness on happy breakdown**: `v = β • q_0` and the Krylov relation closes (`A q_k = Σ_i T_ik q_i` for every `k`,
i.e. zero last residual) ⇒ `exp(A) v = β • Σ_i exp(T)_{i,0} • q_i` — the vector `krylov_exp_impl` returns there. -/
theorem krylov_breakdown_exact (A : E →L[ℂ] E) (q : m → E) (T : Matrix m m ℂ)
    (h : ∀ k, A (q k) = ∑ i, T i k • q i) (i₀ : m) (β : ℂ) (v : E) (hv : v = β • q i₀) :
    (exp A) v = β • ∑ i, (exp T) i i₀ • q i := by
  rw [hv, map_smul, exp_krylov_relation A q T h i₀]

/-- the start vector of the code: `q_0 = v / ‖v‖`, `β = ‖v‖` -/
theorem krylov_breakdown_exact_normalised (A : E →L[ℂ] E) (q : m → E) (T : Matrix m m ℂ)
    (h : ∀ k, A (q k) = ∑ i, T i k • q i) (i₀ : m) (v : E) (hv0 : v ≠ 0) (hq : q i₀ = ((‖v‖ : ℂ))⁻¹ • v) :
    (exp A) v = (‖v‖ : ℂ) • ∑ i, (exp T) i i₀ • q i := by
  refine krylov_breakdown_exact A q T h i₀ _ v ?_
  rw [hq, smul_smul, mul_inv_cancel₀, one_smul]
  exact_mod_cast norm_ne_zero_iff.mpr hv0

end OperatorForm

/-! ### from the per-iteration Arnoldi facts to the closed relation -/
section Hessenberg
variable {E : Type} [NormedAddCommGroup E] [NormedSpace ℂ E] [CompleteSpace E]

/-- the `m × m` matrix `T[:m, :m]` the code fills: column `k` holds the overlaps `h_ik` (`i ≤ k`) and the norm
`h_{k+1,k}` of the residual; everything below the sub-diagonal is the initial 0 -/
def hessenberg (m : ℕ) (hc : ℕ → ℕ → ℂ) : Matrix (Fin m) (Fin m) ℂ :=
  fun i k => if (i : ℕ) ≤ (k : ℕ) + 1 then hc i k else 0

/-- If every iteration `k < m` satisfies the Arnoldi relation `A q_k = Σ_{i ≤ k} h_ik q_i + r_k`, the residual is
`r_k = h_{k+1,k} q_{k+1}` while the loop goes on (`k + 1 < m`) and the last residual is EXACTLY zero, then the Krylov
relation closes with the Hessenberg matrix. -/
theorem relation_of_arnoldi_steps (A : E →L[ℂ] E) (m : ℕ) (q : Fin m → E) (r : Fin m → E) (hc : ℕ → ℕ → ℂ)
    (harn : ∀ k : Fin m, A (q k) = (∑ i : Fin m, if (i : ℕ) ≤ (k : ℕ) then hc i k • q i else 0) + r k)
    (hres : ∀ (k : Fin m) (hk : (k : ℕ) + 1 < m), r k = hc ((k : ℕ) + 1) k • q ⟨(k : ℕ) + 1, hk⟩)
    (hlast : ∀ k : Fin m, (k : ℕ) + 1 = m → r k = 0) (k : Fin m) :
    A (q k) = ∑ i, hessenberg m hc i k • q i := by
  rw [harn k]
  by_cases hk : (k : ℕ) + 1 < m
  · rw [hres k hk]
    have hsplit : ∀ i : Fin m, hessenberg m hc i k • q i
        = (if (i : ℕ) ≤ (k : ℕ) then hc i k • q i else 0)
          + (if i = ⟨(k : ℕ) + 1, hk⟩ then hc ((k : ℕ) + 1) k • q ⟨(k : ℕ) + 1, hk⟩ else 0) := by
      intro i
      unfold hessenberg
      by_cases h1 : (i : ℕ) ≤ (k : ℕ)
      · have h2 : i ≠ ⟨(k : ℕ) + 1, hk⟩ := fun e => by rw [e] at h1; simp at h1
        rw [if_pos (by omega), if_pos h1, if_neg h2, add_zero]
      · by_cases h3 : (i : ℕ) = (k : ℕ) + 1
        · have h4 : i = ⟨(k : ℕ) + 1, hk⟩ := Fin.ext h3
          rw [if_pos (by omega), if_neg h1, if_pos h4, zero_add, h4]
        · have h4 : i ≠ ⟨(k : ℕ) + 1, hk⟩ := fun e => h3 (by rw [e])
          rw [if_neg (by omega), if_neg h1, if_neg h4, zero_smul, add_zero]
    simp_rw [hsplit]
    rw [Finset.sum_add_distrib, Finset.sum_ite_eq' Finset.univ (⟨(k : ℕ) + 1, hk⟩ : Fin m)]
    simp
  · have hk' : (k : ℕ) + 1 = m := by have := k.2; omega
    rw [hlast k hk', add_zero]
    refine Finset.sum_congr rfl (fun i _ => ?_)
    unfold hessenberg
    have hi := i.2
    by_cases h1 : (i : ℕ) ≤ (k : ℕ)
    · rw [if_pos h1, if_pos (by omega)]
    · omega

/-- the two facts together: Arnoldi steps with an exactly vanishing last residual ⇒ the returned vector is `exp(A) v` -/
theorem breakdown_exact_of_arnoldi_steps (A : E →L[ℂ] E) (m : ℕ) (hm : 0 < m) (q : Fin m → E) (r : Fin m → E)
    (hc : ℕ → ℕ → ℂ)
    (harn : ∀ k : Fin m, A (q k) = (∑ i : Fin m, if (i : ℕ) ≤ (k : ℕ) then hc i k • q i else 0) + r k)
    (hres : ∀ (k : Fin m) (hk : (k : ℕ) + 1 < m), r k = hc ((k : ℕ) + 1) k • q ⟨(k : ℕ) + 1, hk⟩)
    (hlast : ∀ k : Fin m, (k : ℕ) + 1 = m → r k = 0)
    (v : E) (hv0 : v ≠ 0) (hq : q ⟨0, hm⟩ = ((‖v‖ : ℂ))⁻¹ • v) :
    (exp A) v = (‖v‖ : ℂ) • ∑ i, (exp (hessenberg m hc)) i ⟨0, hm⟩ • q i :=
  krylov_breakdown_exact_normalised A q _ (relation_of_arnoldi_steps A m q r hc harn hres hlast) ⟨0, hm⟩ v hv0 hq

end Hessenberg

/-! ### non-vacuity -/
section Examples

/-- matrix form with a genuinely rectangular `Q` (3 × 1): `Q` = an eigenvector of `A`, `T` = its eigenvalue -/
example : exp (!![2, 0, 0; 0, 3, 1; 0, 0, 3] : Matrix (Fin 3) (Fin 3) ℂ) * (!![1; 0; 0] : Matrix (Fin 3) (Fin 1) ℂ)
    = (!![1; 0; 0] : Matrix (Fin 3) (Fin 1) ℂ) * exp (!![2] : Matrix (Fin 1) (Fin 1) ℂ) :=
  exp_intertwine (!![2, 0, 0; 0, 3, 1; 0, 0, 3] : Matrix (Fin 3) (Fin 3) ℂ) (!![2] : Matrix (Fin 1) (Fin 1) ℂ)
    (!![1; 0; 0] : Matrix (Fin 3) (Fin 1) ℂ) (by
    ext i j
    fin_cases i <;> fin_cases j <;> simp [Matrix.mul_apply, Fin.sum_univ_three])

/-- operator form with `E = ℂ`, `m = 1`: `A = 2·`, `q₀ = 1`, `T = [2]`,
start vector `v = 5` (so `β = ‖v‖ = 5`): the hypotheses of `breakdown_exact_of_arnoldi_steps` are satisfiable with a
first-iteration breakdown -/
example : (exp ((2 : ℂ) • ContinuousLinearMap.id ℂ ℂ)) (5 : ℂ)
    = ((‖(5 : ℂ)‖ : ℝ) : ℂ) • ∑ i, (exp (hessenberg 1 (fun _ _ => 2))) i ⟨0, Nat.one_pos⟩ • (fun _ : Fin 1 => (1 : ℂ)) i :=
  breakdown_exact_of_arnoldi_steps _ 1 Nat.one_pos (fun _ => (1 : ℂ)) (fun _ => 0) (fun _ _ => 2)
    (by intro k; simp)
    (by intro k hk; omega)
    (by intro k _; rfl)
    5 (by norm_num) (by simp)

/-- a two-dimensional invariant subspace of a 3-dimensional operator (`Q` 3 × 2, `T` 2 × 2 not diagonal) -/
example : exp (!![0, 1, 5; 1, 0, 7; 0, 0, 4] : Matrix (Fin 3) (Fin 3) ℂ) * (!![1, 0; 0, 1; 0, 0] : Matrix (Fin 3) (Fin 2) ℂ)
    = (!![1, 0; 0, 1; 0, 0] : Matrix (Fin 3) (Fin 2) ℂ) * exp (!![0, 1; 1, 0] : Matrix (Fin 2) (Fin 2) ℂ) :=
  exp_intertwine (!![0, 1, 5; 1, 0, 7; 0, 0, 4] : Matrix (Fin 3) (Fin 3) ℂ) (!![0, 1; 1, 0] : Matrix (Fin 2) (Fin 2) ℂ)
    (!![1, 0; 0, 1; 0, 0] : Matrix (Fin 3) (Fin 2) ℂ) (by
    ext i j
    fin_cases i <;> fin_cases j <;> simp [Matrix.mul_apply, Fin.sum_univ_three, Fin.sum_univ_two])

end Examples

end EmuVerif.Props.C07Breakdown
