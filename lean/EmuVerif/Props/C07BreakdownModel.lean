/-
  C07 — **`BreakdownExact` is proved for the MODEL** of `krylov_exp_impl` (`Model.Krylov.expImpl` read in a complex inner-product
  space with the exact `matrix_exp` oracle `C07.exactMexp`), on top of the algebraic core of `Props/C07Breakdown.lean`.

    * `lincomb_ip`, `col0_ofMatrix`, `wsum_ofFn`   the list/array plumbing of `combine`: with the inner-product-space operations,
      `initial_norm * sum(a * b for a, b in zip(expd[:, 0], lanczos_vectors))` is `‖v‖ • Σ_i expd_{i0} • q_i`.
    * `happy_exit_result`     the happy-breakdown exit of iteration `j` returns `exp(A) v` PROVIDED the Krylov relation
      `A q_k = Σ_i T[i,k] q_i` holds for the slice `T[:j+1,:j+1]` handed to `matrix_exp` and `q_0 = v/‖v‖`.
    * `wsum_eq_sum_range`, `wsum_drop`, `getM_sliceM`, `getM_iterT`   sums over `lanczos_vectors[k_start:]` as sums over all
      vectors; reads of `T[:m,:m]` and of `T` after the writes of iteration `j`.
    * `TInv`, `tInv_init`, `tInv_step`, `tInv_reach`   **the loop invariant on the local `T`** (exact arithmetic, both the
      Arnoldi and the Lanczos branch, ANY `op` — no `op† ∝ op` hypothesis, no orthonormality): at the top of iteration `j`
      the columns `< j` satisfy `A q_k = Σ_{i ≤ j} T[i,k] q_i` and are zero below the sub-diagonal, the columns `≥ j` are still
      zero except the provisional `T[j+1, j] = 1`, `q_0 = v/‖v‖`; preserved by every iteration that continues (`0 < norm_tolerance`,
      `j < max_krylov_dim`), hence true of every reached state.
    * `happy_exit_exact`      invariant + `n2 = 0` ⇒ the breakdown exit returns `exp(A) v`.
    * `expLoop_of_reach`, `result_of_breakdown_exit`   the result of a run whose reached iteration `j` takes the breakdown exit.
    * `breakdownExact_holds`  **`C07.BreakdownExact`** (the `def … : Prop` of `Props/C07.lean`), for every complete complex
      inner-product space, operator, start vector, configuration; its hypotheses `is_hermitian ⇒ op† ∝ op` and
      `happy_breakdown = true` turn out not to be needed.
  In the Lanczos branch with an `op` that is NOT proportional to its adjoint the statement still holds: the relation is by
  construction (`C07.arnoldi_relation`), the residual `w` then simply is not orthogonal to the older vectors, but `w = 0` is assumed.
-/
import EmuVerif.Props.C07
import EmuVerif.Props.C07Breakdown

set_option linter.unusedSectionVars false
set_option linter.unusedVariables false

namespace EmuVerif.Props.C07BreakdownModel
open EmuVerif EmuVerif.Krylov EmuVerif.Props.C07 EmuVerif.Props.C07Breakdown
open scoped InnerProductSpace

variable {E : Type} [NormedAddCommGroup E] [InnerProductSpace ℂ E] [CompleteSpace E]

/-! ### plumbing of `combine` -/

theorem lincomb_foldl (A : E → E) (l : List (ℂ × E)) (acc : E) :
    l.foldl (fun acc cv => (ipOps (𝕜 := ℂ) A).add acc ((ipOps (𝕜 := ℂ) A).smul cv.1 cv.2)) acc
      = acc + (l.map (fun cv => cv.1 • cv.2)).sum := by
  induction l generalizing acc with
  | nil => simp
  | cons x l ih =>
    rw [List.foldl_cons, ih]
    simp only [ipOps, List.map_cons, List.sum_cons]
    abel

/-- Python's `sum(a * b for a, b in zip(cs, vs))` in an inner-product space -/
theorem lincomb_ip (A : E → E) (cs : List ℂ) (vs : List E) : lincomb (ipOps (𝕜 := ℂ) A) cs vs = wsum cs vs := by
  unfold lincomb wsum
  rw [lincomb_foldl, List.map_zip_eq_zipWith]
  show (0 : E) + _ = _
  rw [zero_add]
  rfl

/-- `expd[:, 0]` of a matrix given by its entries -/
theorem col0_ofMatrix {m : ℕ} (hm : 0 < m) (X : Matrix (Fin m) (Fin m) ℂ) :
    col0 (ofMatrix X) = List.ofFn (fun i : Fin m => X i ⟨0, hm⟩) := by
  unfold col0 ofMatrix
  rw [Array.toList_ofFn, List.map_ofFn]
  congr 1
  funext i
  simp [Array.getD_eq_getD_getElem?, hm]

theorem wsum_ofFn : ∀ (m : ℕ) (c : Fin m → ℂ) (qs : List E), qs.length = m →
    wsum (List.ofFn c) qs = ∑ i : Fin m, c i • qs.getD (i : ℕ) 0
  | 0, c, qs, h => by simp [wsum]
  | m + 1, c, [], h => by simp at h
  | m + 1, c, q :: qs, h => by
    rw [List.ofFn_succ, wsum_cons, Fin.sum_univ_succ, wsum_ofFn m _ qs (by simpa using h)]
    simp

theorem size_ofMatrix {m : ℕ} (X : Matrix (Fin m) (Fin m) ℂ) : (ofMatrix X).size = m := by
  unfold ofMatrix; rw [Array.size_ofFn]

/-- **The happy-breakdown exit returns `exp(A) v`**, given the closed Krylov relation on the slice of `T` that is
exponentiated and `q_0 = v / ‖v‖`. (`M = T[:j+1, :j+1]` as the model slices it; `exactMexp` = the ideal `matrix_exp`.) -/
theorem happy_exit_result (A : E →L[ℂ] E) (j : ℕ) (st : ExpSt ℂ ℝ E) (iv : IterVals ℂ ℝ E) (v : E) (hv : v ≠ 0)
    (hsize : (sliceM iv.T (j + 1)).size = st.qs.length) (hpos : 0 < (sliceM iv.T (j + 1)).size)
    (hrel : ∀ k : Fin (sliceM iv.T (j + 1)).size, A (st.qs.getD (k : ℕ) 0)
      = ∑ i : Fin (sliceM iv.T (j + 1)).size, getM (sliceM iv.T (j + 1)) i k • st.qs.getD (i : ℕ) 0)
    (hq0 : st.qs.getD 0 0 = ((‖v‖ : ℂ))⁻¹ • v) :
    (breakdownResult (ipOps (𝕜 := ℂ) A) exactMexp ‖v‖ j st iv).result = (NormedSpace.exp A) v := by
  set M := sliceM iv.T (j + 1) with hM
  show (ipOps (𝕜 := ℂ) A).smul ((ipOps (𝕜 := ℂ) A).ofReal ‖v‖)
    (lincomb (ipOps (𝕜 := ℂ) A) ((col0 (exactMexp j M)).take st.qs.length) st.qs) = _
  rw [lincomb_ip]
  show ((‖v‖ : ℝ) : ℂ) • wsum ((col0 (exactMexp j M)).take st.qs.length) st.qs = _
  unfold exactMexp
  rw [col0_ofMatrix hpos, List.take_of_length_le (by rw [List.length_ofFn, hsize]), wsum_ofFn _ _ _ hsize.symm]
  exact (krylov_breakdown_exact_normalised A (fun i : Fin M.size => st.qs.getD (i : ℕ) 0) (toMatrix M.size M)
    hrel ⟨0, hpos⟩ v hv hq0).symm

/-! ### sums over the Krylov vectors -/

theorem wsum_nil_right (cs : List ℂ) : wsum cs ([] : List E) = 0 := by
  cases cs <;> simp [wsum]

theorem wsum_eq_sum_range (cs : List ℂ) (ql : List E) :
    wsum cs ql = ∑ i ∈ Finset.range ql.length, cs.getD i 0 • ql.getD i 0 := by
  induction ql generalizing cs with
  | nil => simp [wsum_nil_right]
  | cons q ql ih =>
    cases cs with
    | nil => simp
    | cons c cs =>
      rw [wsum_cons, ih, List.length_cons, Finset.sum_range_succ', add_comm]
      simp

/-- the overlaps of `lanczos_vectors[k_start:]` written as a sum over ALL vectors built so far -/
theorem wsum_drop (cs : List ℂ) (qs : List E) (k0 : ℕ) (hk : k0 ≤ qs.length) :
    wsum cs (qs.drop k0)
      = ∑ i ∈ Finset.range qs.length, (if k0 ≤ i then cs.getD (i - k0) 0 else 0) • qs.getD i 0 := by
  rw [wsum_eq_sum_range, List.length_drop]
  conv_rhs => rw [show qs.length = k0 + (qs.length - k0) by omega]
  rw [Finset.sum_range_add]
  have h0 : ∑ i ∈ Finset.range k0, (if k0 ≤ i then cs.getD (i - k0) 0 else 0) • qs.getD i 0 = 0 := by
    refine Finset.sum_eq_zero (fun i hi => ?_)
    rw [if_neg (by have := Finset.mem_range.mp hi; omega), zero_smul]
  rw [h0, zero_add]
  refine Finset.sum_congr rfl (fun x _ => ?_)
  rw [if_pos (by omega), show k0 + x - k0 = x by omega]
  congr 1
  simp [List.getD_eq_getElem?_getD, List.getElem?_drop]

/-! ### reads of the local `T` -/

theorem shape_sliceM_size {N : ℕ} {T : Mat ℂ} (hT : Shape N T) {m : ℕ} (hm : m ≤ N) : (sliceM T m).size = m := by
  unfold sliceM
  rw [Array.size_map, Array.size_extract, hT.1]
  omega

theorem getM_sliceM {N : ℕ} {T : Mat ℂ} (hT : Shape N T) {m : ℕ} (hm : m ≤ N) {i k : ℕ} (hi : i < m) (hk : k < m) :
    getM (sliceM T m) i k = getM T i k := by
  have hiT : i < T.size := by rw [hT.1]; omega
  have hrow : T[i].size = N := hT.2 i hiT
  unfold getM sliceM
  simp only [Array.getD_eq_getD_getElem?, Array.getElem?_map, Array.getElem?_extract, hT.1]
  rw [if_pos (by omega)]
  simp only [Nat.zero_add, Array.getElem?_eq_getElem hiT, Option.map_some, Option.getD_some, Array.getElem?_extract, hrow]
  rw [if_pos (by omega)]

section Invariant
variable (A : E →L[ℂ] E) (mexp : Nat → Mat ℂ → Mat ℂ) (cfg : ExpCfg ℝ) (n0 : ℝ) (v : E)

theorem kStart_le (herm : Bool) (j : ℕ) : kStart herm j ≤ j := by
  unfold kStart; split <;> omega

theorem ovs_length (j : ℕ) (st : ExpSt ℂ ℝ E) (hlen : st.qs.length = j + 1) :
    (iterVals (ipOps (𝕜 := ℂ) A) cfg j st).ovs.length = j + 1 - kStart cfg.isHermitian j := by
  show (mgs _ _ _).2.length = _
  rw [mgs_length, List.length_drop, hlen]

/-- the matrix after the writes of iteration `j` (before the branch): column `j` holds the overlaps and the residual norm,
everything else is untouched -/
theorem getM_iterT (j : ℕ) (st : ExpSt ℂ ℝ E) (hT : Shape (cfg.maxDim + 2) st.T) (hj : j < cfg.maxDim)
    (hlen : st.qs.length = j + 1) (i k : ℕ) :
    getM (iterVals (ipOps (𝕜 := ℂ) A) cfg j st).T i k
      = if j + 1 = i ∧ j = k then (ipOps (𝕜 := ℂ) A).ofReal (iterVals (ipOps (𝕜 := ℂ) A) cfg j st).n2
        else if k = j ∧ kStart cfg.isHermitian j ≤ i ∧ i < j + 1 then
          (iterVals (ipOps (𝕜 := ℂ) A) cfg j st).ovs.getD (i - kStart cfg.isHermitian j) 0
        else getM st.T i k := by
  have hk0 := kStart_le cfg.isHermitian j
  have hol := ovs_length A cfg j st hlen
  have hw := shape_writeCol hT (j := j) (k0 := kStart cfg.isHermitian j) (by omega)
    (iterVals (ipOps (𝕜 := ℂ) A) cfg j st).ovs (by omega)
  show getM (setM (writeCol st.T j _ (iterVals (ipOps (𝕜 := ℂ) A) cfg j st).ovs) (j + 1) j _) i k = _
  rw [getM_setM hw (by omega) (by omega), getM_writeCol hT (by omega) _ (by omega)]
  have : kStart cfg.isHermitian j + (iterVals (ipOps (𝕜 := ℂ) A) cfg j st).ovs.length = j + 1 := by omega
  rw [this]
  rfl

theorem shape_iterT (j : ℕ) (st : ExpSt ℂ ℝ E) (hT : Shape (cfg.maxDim + 2) st.T) (hj : j < cfg.maxDim)
    (hlen : st.qs.length = j + 1) : Shape (cfg.maxDim + 2) (iterVals (ipOps (𝕜 := ℂ) A) cfg j st).T := by
  have hk0 := kStart_le cfg.isHermitian j
  have hol := ovs_length A cfg j st hlen
  show Shape _ (setM (writeCol st.T j (kStart cfg.isHermitian j) (iterVals (ipOps (𝕜 := ℂ) A) cfg j st).ovs) (j + 1) j _)
  exact shape_setM (shape_writeCol hT (j := j) (k0 := kStart cfg.isHermitian j) (by omega)
    (iterVals (ipOps (𝕜 := ℂ) A) cfg j st).ovs (by omega)) _ _ _

/-- Loop invariant on the local `T` (exact arithmetic): the columns `< j` are final, satisfy the Krylov relation with the
vectors built so far, are zero below the sub-diagonal; the columns `≥ j` are still zero except the provisional `T[j+1, j] = 1`. -/
structure TInv (j : ℕ) (st : ExpSt ℂ ℝ E) : Prop where
  shape : Shape (cfg.maxDim + 2) st.T
  len : st.qs.length = j + 1
  cur : st.qs.getD j 0 = st.cur
  q0 : st.qs.getD 0 0 = ((‖v‖ : ℂ))⁻¹ • v
  rel : ∀ k, k < j → A (st.qs.getD k 0) = ∑ i ∈ Finset.range (j + 1), getM st.T i k • st.qs.getD i 0
  zlow : ∀ i k, k < j → j < i → getM st.T i k = 0
  zcol : ∀ i k, j ≤ k → ¬ (i = j + 1 ∧ k = j) → getM st.T i k = 0

theorem tInv_init : TInv A cfg v 0 (expInit (ipOps (𝕜 := ℂ) A) cfg v) where
  shape := shape_zerosM _
  len := rfl
  cur := rfl
  q0 := rfl
  rel := fun k hk => by omega
  zlow := fun i k hk _ => by omega
  zcol := fun i k _ _ => getM_zerosM _ i k

/-- column `j` of the matrix after iteration `j`'s writes, against the vectors `q_0 … q_j`: the overlap part of the Arnoldi
relation -/
theorem col_j_sum (j : ℕ) (st : ExpSt ℂ ℝ E) (hinv : TInv A cfg v j st) (hj : j < cfg.maxDim) :
    ∑ i ∈ Finset.range (j + 1), getM (iterVals (ipOps (𝕜 := ℂ) A) cfg j st).T i j • st.qs.getD i 0
      = wsum (iterVals (ipOps (𝕜 := ℂ) A) cfg j st).ovs (st.qs.drop (kStart cfg.isHermitian j)) := by
  have hk0 := kStart_le cfg.isHermitian j
  rw [wsum_drop _ _ _ (by rw [hinv.len]; omega), hinv.len]
  refine Finset.sum_congr rfl (fun i hi => ?_)
  have hi' : i < j + 1 := Finset.mem_range.mp hi
  rw [getM_iterT A cfg j st hinv.shape hj hinv.len, if_neg (by omega)]
  by_cases hki : kStart cfg.isHermitian j ≤ i
  · rw [if_pos ⟨rfl, hki, hi'⟩, if_pos hki]
  · rw [if_neg (by omega), if_neg hki, hinv.zcol i j (le_refl j) (by omega)]

/-- the invariant survives an iteration that continues -/
theorem tInv_step (j : ℕ) (st st' : ExpSt ℂ ℝ E) (hinv : TInv A cfg v j st) (hj : j < cfg.maxDim)
    (hpos : 0 < cfg.normTol)
    (hstep : expIter (ipOps (𝕜 := ℂ) A) mexp cfg n0 j st = .cont st') : TInv A cfg v (j + 1) st' := by
  have hne := (expIter_cont_iff (ipOps (𝕜 := ℂ) A) mexp cfg n0).mp ⟨st', hstep⟩
  have hb : isBreakdown cfg (iterVals (ipOps (𝕜 := ℂ) A) cfg j st) = false := by
    cases h : isBreakdown cfg (iterVals (ipOps (𝕜 := ℂ) A) cfg j st) with
    | false => rfl
    | true => exact absurd (Or.inl h) hne
  have he : errOk cfg.expTol (extVals (ipOps (𝕜 := ℂ) A) mexp j st (iterVals (ipOps (𝕜 := ℂ) A) cfg j st)).err1
      (extVals (ipOps (𝕜 := ℂ) A) mexp j st (iterVals (ipOps (𝕜 := ℂ) A) cfg j st)).err2 = false := by
    cases h : errOk cfg.expTol (extVals (ipOps (𝕜 := ℂ) A) mexp j st (iterVals (ipOps (𝕜 := ℂ) A) cfg j st)).err1
      (extVals (ipOps (𝕜 := ℂ) A) mexp j st (iterVals (ipOps (𝕜 := ℂ) A) cfg j st)).err2 with
    | false => rfl
    | true => exact absurd (Or.inr h) hne
  rw [expIter_cont _ mexp cfg n0 hb he] at hstep
  have hst' := (StepOut.cont.inj hstep).symm
  set iv := iterVals (ipOps (𝕜 := ℂ) A) cfg j st with hiv
  have hn2 : iv.n2 ≠ 0 := by
    have : ¬ iv.n2 < cfg.normTol := by simpa [isBreakdown] using hb
    intro h0
    rw [h0] at this
    exact this hpos
  set q' := (ipOps (𝕜 := ℂ) A).divR iv.w iv.n2 with hq'
  have hqs : st'.qs = st.qs ++ [q'] := by rw [hst']; rfl
  have hcur' : st'.cur = q' := by rw [hst']; rfl
  have hTeq : st'.T = setM iv.T (j + 2) (j + 1) 1 := by rw [hst']; rfl
  have hshIv := shape_iterT A cfg j st hinv.shape hj hinv.len
  have hk0 := kStart_le cfg.isHermitian j
  -- reads of the new matrix
  have hT' : ∀ i k, getM st'.T i k = if j + 2 = i ∧ j + 1 = k then 1 else getM iv.T i k := by
    intro i k; rw [hTeq, getM_setM hshIv (by omega) (by omega)]
  have hIv : ∀ i k, getM iv.T i k
      = if j + 1 = i ∧ j = k then (ipOps (𝕜 := ℂ) A).ofReal iv.n2
        else if k = j ∧ kStart cfg.isHermitian j ≤ i ∧ i < j + 1 then iv.ovs.getD (i - kStart cfg.isHermitian j) 0
        else getM st.T i k := fun i k => getM_iterT A cfg j st hinv.shape hj hinv.len i k
  -- reads of the new vector list
  have hqold : ∀ i, i < j + 1 → (st.qs ++ [q']).getD i 0 = st.qs.getD i 0 := by
    intro i hi
    simp [List.getD_eq_getElem?_getD, List.getElem?_append_left (show i < st.qs.length by rw [hinv.len]; exact hi)]
  have hqnew : (st.qs ++ [q']).getD (j + 1) 0 = q' := by
    simp [List.getD_eq_getElem?_getD, hinv.len]
  refine ⟨?_, ?_, ?_, ?_, ?_, ?_, ?_⟩
  · rw [hTeq]; exact shape_setM hshIv _ _ _
  · rw [hqs, List.length_append, hinv.len]; rfl
  · rw [hqs, hcur', hqnew]
  · rw [hqs, hqold 0 (by omega)]; exact hinv.q0
  · -- the Krylov relation for the columns `≤ j`
    intro k hk
    rw [hqs, Finset.sum_range_succ, hqnew]
    by_cases hkj : k < j
    · rw [hqold k (by omega), hinv.rel k hkj]
      have hlast : getM st'.T (j + 1) k = 0 := by
        rw [hT', if_neg (by omega), hIv, if_neg (by omega), if_neg (by omega)]
        exact hinv.zlow (j + 1) k hkj (by omega)
      rw [hlast, zero_smul, add_zero]
      refine Finset.sum_congr rfl (fun i hi => ?_)
      have hi' : i < j + 1 := Finset.mem_range.mp hi
      rw [hqold i hi', hT', if_neg (by omega), hIv, if_neg (by omega), if_neg (by omega)]
    · have hkj' : k = j := by omega
      subst hkj'
      rw [hqold k (by omega), hinv.cur, arnoldi_relation_w (𝕜 := ℂ) A cfg k st, w_eq_n2_smul (𝕜 := ℂ) A cfg k st hn2]
      have hlast : getM st'.T (k + 1) k = (ipOps (𝕜 := ℂ) A).ofReal iv.n2 := by
        rw [hT', if_neg (by omega), hIv, if_pos ⟨rfl, rfl⟩]
      rw [hlast]
      congr 1
      rw [← col_j_sum A cfg v k st hinv hj]
      refine Finset.sum_congr rfl (fun i hi => ?_)
      have hi' : i < k + 1 := Finset.mem_range.mp hi
      rw [hqold i hi', hT', if_neg (by omega)]
  · -- zeros below the sub-diagonal in the finished columns
    intro i k hk hi
    rw [hT', if_neg (by omega), hIv, if_neg (by omega), if_neg (by omega)]
    by_cases hkj : k < j
    · exact hinv.zlow i k hkj (by omega)
    · exact hinv.zcol i k (by omega) (by omega)
  · -- the columns not yet written
    intro i k hk hne
    rw [hT', if_neg (by omega), hIv, if_neg (by omega), if_neg (by omega)]
    exact hinv.zcol i k (by omega) (by omega)

/-- every state the loop reaches within `max_krylov_dim` iterations satisfies the invariant -/
theorem tInv_reach (hpos : 0 < cfg.normTol) :
    ∀ j st, Reach (ipOps (𝕜 := ℂ) A) mexp cfg n0 (expInit (ipOps (𝕜 := ℂ) A) cfg v) j st → j ≤ cfg.maxDim →
      TInv A cfg v j st := by
  intro j st h
  induction h with
  | zero => intro _; exact tInv_init A cfg v
  | @step j st st' _ hs ih =>
    intro hj
    exact tInv_step A mexp cfg n0 v j st st' (ih (by omega)) (by omega) hpos hs

/-- **Happy breakdown with an exactly vanishing residual returns `exp(A) v`** — for a reached state, via the invariant. -/
theorem happy_exit_exact (j : ℕ) (st : ExpSt ℂ ℝ E) (hinv : TInv A cfg v j st) (hj : j < cfg.maxDim) (hv : v ≠ 0)
    (hn2 : (iterVals (ipOps (𝕜 := ℂ) A) cfg j st).n2 = 0) :
    (breakdownResult (ipOps (𝕜 := ℂ) A) exactMexp ‖v‖ j st (iterVals (ipOps (𝕜 := ℂ) A) cfg j st)).result
      = (NormedSpace.exp A) v := by
  have hshIv := shape_iterT A cfg j st hinv.shape hj hinv.len
  have hsz : (sliceM (iterVals (ipOps (𝕜 := ℂ) A) cfg j st).T (j + 1)).size = j + 1 :=
    shape_sliceM_size hshIv (by omega)
  have hw : (iterVals (ipOps (𝕜 := ℂ) A) cfg j st).w = 0 := by
    have : ‖(iterVals (ipOps (𝕜 := ℂ) A) cfg j st).w‖ = 0 := hn2
    exact norm_eq_zero.mp this
  refine happy_exit_result A j st _ v hv (hsz.trans hinv.len.symm) (by rw [hsz]; omega) ?_ hinv.q0
  intro k
  have hk : (k : ℕ) < j + 1 := lt_of_lt_of_eq k.2 hsz
  generalize (k : ℕ) = kv at hk ⊢
  have hfin := Finset.sum_range (n := (sliceM (iterVals (ipOps (𝕜 := ℂ) A) cfg j st).T (j + 1)).size)
    (fun i => getM (sliceM (iterVals (ipOps (𝕜 := ℂ) A) cfg j st).T (j + 1)) i kv • st.qs.getD i 0)
  rw [← hfin, hsz]
  have hsum : ∑ i ∈ Finset.range (j + 1),
        getM (sliceM (iterVals (ipOps (𝕜 := ℂ) A) cfg j st).T (j + 1)) i kv • st.qs.getD i 0
      = ∑ i ∈ Finset.range (j + 1), getM (iterVals (ipOps (𝕜 := ℂ) A) cfg j st).T i kv • st.qs.getD i 0 := by
    refine Finset.sum_congr rfl (fun i hi => ?_)
    rw [getM_sliceM hshIv (by omega) (Finset.mem_range.mp hi) hk]
  rw [hsum]
  by_cases hkj : kv < j
  · rw [hinv.rel kv hkj]
    refine Finset.sum_congr rfl (fun i hi => ?_)
    rw [getM_iterT A cfg j st hinv.shape hj hinv.len, if_neg (by omega), if_neg (by omega)]
  · have hkj' : kv = j := by omega
    rw [hkj', col_j_sum A cfg v j st hinv hj, hinv.cur, arnoldi_relation_w (𝕜 := ℂ) A cfg j st, hw, add_zero]

end Invariant

/-! ### `C07.BreakdownExact` -/

/-- the loop started at iteration 0 continues from any reached state -/
theorem expLoop_of_reach (A : E → E) (mexp : Nat → Mat ℂ → Mat ℂ) (cfg : ExpCfg ℝ) (n0 : ℝ) (s0 : ExpSt ℂ ℝ E) :
    ∀ j st, Reach (ipOps (𝕜 := ℂ) A) mexp cfg n0 s0 j st → j ≤ cfg.maxDim →
      expLoop (ipOps (𝕜 := ℂ) A) mexp cfg n0 cfg.maxDim 0 s0
        = expLoop (ipOps (𝕜 := ℂ) A) mexp cfg n0 (cfg.maxDim - j) j st := by
  intro j st h
  induction h with
  | zero => intro _; rfl
  | @step j st st' _ hs ih =>
    intro hj
    rw [ih (by omega), show cfg.maxDim - j = (cfg.maxDim - (j + 1)) + 1 by omega, expLoop, hs]

/-- a run whose reached iteration `j < max_krylov_dim` takes the breakdown exit returns that exit's result -/
theorem result_of_breakdown_exit (A : E → E) (mexp : Nat → Mat ℂ → Mat ℂ) (cfg : ExpCfg ℝ) (v : E)
    (r : ExpResult ℂ ℝ E) (himpl : expImpl (ipOps (𝕜 := ℂ) A) mexp cfg v = .ok r) (j : ℕ) (st : ExpSt ℂ ℝ E)
    (hreach : Reach (ipOps (𝕜 := ℂ) A) mexp cfg ‖v‖ (expInit (ipOps (𝕜 := ℂ) A) cfg v) j st) (hj : j < cfg.maxDim)
    (hbd : isBreakdown cfg (iterVals (ipOps (𝕜 := ℂ) A) cfg j st) = true) :
    r = breakdownResult (ipOps (𝕜 := ℂ) A) mexp ‖v‖ j st (iterVals (ipOps (𝕜 := ℂ) A) cfg j st) := by
  have hloop := expLoop_of_reach A mexp cfg ‖v‖ _ j st hreach (by omega)
  have hrun : expImpl (ipOps (𝕜 := ℂ) A) mexp cfg v
      = .ok (breakdownResult (ipOps (𝕜 := ℂ) A) mexp ‖v‖ j st (iterVals (ipOps (𝕜 := ℂ) A) cfg j st)) := by
    show expLoop (ipOps (𝕜 := ℂ) A) mexp cfg ‖v‖ cfg.maxDim 0 (expInit (ipOps (𝕜 := ℂ) A) cfg v) = _
    rw [hloop, show cfg.maxDim - j = (cfg.maxDim - (j + 1)) + 1 by omega, expLoop,
      expIter_breakdown (ipOps (𝕜 := ℂ) A) mexp cfg ‖v‖ hbd]
  rw [hrun] at himpl
  exact (Except.ok.inj himpl).symm

/-- **The clause kept as a `Prop` in `Props/C07.lean` holds.** (The hypotheses `is_hermitian ⇒ op† ∝ op` and
`happy_breakdown = true` of the statement are not needed: only the reached state, the iteration count and `n2 = 0`.) -/
theorem breakdownExact_holds : BreakdownExact := by
  intro E _ _ _ A cfg v r j st hv hpos _ himpl _ hreach hcount hn2
  have hjmax : j < cfg.maxDim := by
    have := iterations_le_max (ipOps (𝕜 := ℂ) A) exactMexp cfg v himpl
    omega
  have hinv := tInv_reach A exactMexp cfg ‖v‖ v hpos j st hreach (by omega)
  -- the run ends at iteration `j` through the breakdown exit
  have hbd : isBreakdown cfg (iterVals (ipOps (𝕜 := ℂ) A) cfg j st) = true := by
    simp [isBreakdown, hn2, hpos]
  rw [result_of_breakdown_exit A exactMexp cfg v r himpl j st hreach hjmax hbd]
  exact happy_exit_exact A cfg v j st hinv hjmax hv hn2

/-! ### non-vacuity -/

/-- a first-iteration happy breakdown with an exactly vanishing residual: `E = ℂ`, `A = 2·`, `v = 5` (`q₀ = 1`, overlap `2`,
`w = 2 − 2 = 0`): the hypotheses of `happy_exit_exact` hold, so the model returns `exp(2)·5` -/
example :
    (breakdownResult (ipOps (𝕜 := ℂ) ((2 : ℂ) • ContinuousLinearMap.id ℂ ℂ)) exactMexp ‖(5 : ℂ)‖ 0
      (expInit (ipOps (𝕜 := ℂ) ((2 : ℂ) • ContinuousLinearMap.id ℂ ℂ)) ⟨false, 1, 1, 3⟩ (5 : ℂ))
      (iterVals (ipOps (𝕜 := ℂ) ((2 : ℂ) • ContinuousLinearMap.id ℂ ℂ)) ⟨false, 1, 1, 3⟩ 0
        (expInit (ipOps (𝕜 := ℂ) ((2 : ℂ) • ContinuousLinearMap.id ℂ ℂ)) ⟨false, 1, 1, 3⟩ (5 : ℂ)))).result
      = (NormedSpace.exp ((2 : ℂ) • ContinuousLinearMap.id ℂ ℂ)) (5 : ℂ) := by
  refine happy_exit_exact ((2 : ℂ) • ContinuousLinearMap.id ℂ ℂ) ⟨false, 1, 1, 3⟩ (5 : ℂ) 0 _
    (tInv_init _ _ _) (by norm_num) (by norm_num) ?_
  show ‖(mgs _ _ _).1‖ = 0
  simp [expInit, kStart, mgs, mgsStep, ipOps]

end EmuVerif.Props.C07BreakdownModel
