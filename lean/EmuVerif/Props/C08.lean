/-
  C08 — Lanczos ground-state search is variational and meets its residual.

  Statement (properties.jsonl): for any Hermitian operator and non-zero start vector the
  ground-state search returns a unit vector and an energy equal to that vector's Rayleigh
  quotient; the energy is never below the true lowest eigenvalue (beyond rounding); when it
  reports convergence without breakdown, the residual |Hψ − Eψ| is below the requested tolerance.

  All theorems are about `Model.Krylov.energyImpl` / `energyMin` (tied to `krylov_energy_min.py`
  by the tape-driven, dense and single-step correspondence checks of harness/props/c08.py).

  (a) *decision logic* — every tensor algebra `VecOps`, every operator, every `eigh` oracle
      (no contract needed):
      * `restarts_le_max`            – `restart_count ≤ max_restarts`;
      * `happy_implies_converged`;
      * `converged_residual_lt`      – converged ∧ ¬happy_breakdown ⇒ `residual_norm < residual_tolerance`
                                       (needs only that `<` is a linear order on the reals used);
      * `op_applied_iteration_count_times` – `iteration_count` = number of `op` evaluations;
      * `impl_raises_only`           – the impl raises only `ValueError`/`IndexError`;
      * `energy_min_returns_iff`, `energy_min_raises_iff` – the public wrapper raises
        `RecursionError` iff neither converged nor happy_breakdown, else returns state and energy.
  (b) *exact arithmetic* — any real/complex inner-product space, `ψ₀ ≠ 0`:
      * `returned_state_unit`        – ‖ground_state‖ = 1, for every `eigh` oracle;
      * `lanczos_vectors_orthonormal_three_term` – for a symmetric (Hermitian) `op` the Lanczos
        vectors of every cycle are orthonormal and satisfy the three-term recurrence
        (the cycle invariant `LanInv`), given `0 < norm_tolerance`;
      * `ritz_pair_of_iteration`     – with the `eigh` contract (`T y = θ y`, `‖y‖ = 1`): the
        iteration's `(ritz_vec, ritz_value, resid)` has `⟪ψ,Hψ⟫ = θ` and
        `‖Hψ − θψ‖ = |β_j y_j| = resid` (Saad 6.8), and `_ritz_vector` does not raise;
      * `energy_is_rayleigh_and_residual` – hence what the search returns (if at least one
        iteration ran: `0 < max_krylov_dim`) is a unit vector `ψ` with
        `ground_energy = ⟪ψ,Hψ⟫` and `residual_norm = ‖Hψ − Eψ‖`;
      * `variational_bound`          – in finite dimension `op` has a smallest eigenvalue `λ_min`
        and `λ_min ≤ ground_energy`;
      * `C08_exact`                  – the property, assembled.
  Assumed (named hypotheses): the `eigh` contract `EighContract` (validated numerically on every
  recorded call); exact arithmetic (binary64 loss of orthogonality is measured by the harness).
-/
import EmuVerif.Proofs.KrylovEnergy

set_option linter.unusedSectionVars false
set_option linter.unusedVariables false

namespace EmuVerif.Props.C08
open EmuVerif EmuVerif.Krylov
open scoped InnerProductSpace

/-! ### (a) decision logic — every `VecOps`, every oracle -/
section Logic
variable {S R V : Type} [LT R] [DecidableLT R] [LE R] [DecidableLE R] [Mul R] [Neg R] [OfNat R 0]
variable (O : VecOps S R V) (eigh : Nat → Nat → List R → List R → R × List R) (cfg : EnergyCfg R)

/-- What every result of one cycle satisfies. -/
def CycQ (horder : Prop) (ops : Nat) (r : EnergyResult R V) : Prop :=
  (r.happyBreakdown = true → r.converged = true) ∧
  (horder → r.converged = true → r.happyBreakdown = false →
    ∃ ρ, r.residualNorm = some ρ ∧ ρ < cfg.residTol) ∧
  r.ghost.opCalls = ops + r.iterationCount

theorem cycle_logic (c ops : Nat) (v : V) {r : EnergyResult R V}
    (h : cycle O eigh cfg c ops v = .ok r) :
    CycQ cfg (∀ a b c : R, ¬ a < b → a < c → b < c) ops r := by
  unfold cycle at h
  simp only at h
  split at h
  · simp at h
  · refine cycLoop_rule O eigh cfg (c := c) (ops := ops) (I := fun _ _ => True)
      (Q := CycQ cfg (∀ a b c : R, ¬ a < b → a < c → b < c) ops) ?_ ?_ ?_ cfg.maxDim 0 _ (by omega) trivial r h
    · intros; trivial
    · intro j st st' cv hb _ _ hstep
      obtain ⟨rv, yj, _, _, hout⟩ := cycIter_spec O eigh cfg hstep
      by_cases h1 : cycBeta O st < cfg.normTol
      · rw [if_pos h1] at hout
        simp only [CycOut.done.injEq] at hout
        obtain ⟨rfl, rfl, rfl⟩ := hout
        exact ⟨fun _ => rfl, fun _ _ hh => by simp [cycResult] at hh, rfl⟩
      · rw [if_neg h1] at hout
        by_cases h2 : cycResid O st yj < cfg.residTol
        · rw [if_pos h2] at hout
          simp only [CycOut.done.injEq] at hout
          obtain ⟨rfl, rfl, rfl⟩ := hout
          refine ⟨fun hh => by simp [cycResult] at hh, fun horder _ _ => ?_, rfl⟩
          show ∃ ρ, (cycUpd O eigh c j st rv yj).bestR = some ρ ∧ ρ < cfg.residTol
          unfold cycUpd
          simp only
          cases hb : st.bestR with
          | none => simp [ltInf]; exact h2
          | some b =>
            by_cases hlt : cycResid O st yj < b
            · simp [ltInf, hlt]; exact h2
            · simp [ltInf, hlt]; exact horder _ _ _ hlt h2
        · rw [if_neg h2] at hout
          simp at hout
    · intro st _
      exact ⟨fun hh => by simp [cycResult] at hh, fun _ hh => by simp [cycResult] at hh, rfl⟩

/-- What `krylov_energy_minimization_impl` guarantees about its flags and counters. -/
structure ImplQ (horder : Prop) (r : EnergyResult R V) : Prop where
  restarts : r.restartCount ≤ cfg.maxRestarts
  happy : r.happyBreakdown = true → r.converged = true
  resid : horder → r.converged = true → r.happyBreakdown = false →
    ∃ ρ, r.residualNorm = some ρ ∧ ρ < cfg.residTol
  ops : r.ghost.opCalls = r.iterationCount

theorem impl_logic (psi : V) {r : EnergyResult R V} (h : energyImpl O eigh cfg psi = .ok r) :
    ImplQ cfg (∀ a b c : R, ¬ a < b → a < c → b < c) r := by
  unfold energyImpl at h
  refine restartLoop_rule O eigh cfg (I := fun _ res => res.ghost.opCalls = res.iterationCount)
    (Q := ImplQ cfg (∀ a b c : R, ¬ a < b → a < c → b < c)) ?_ (cfg.maxRestarts + 1) 0 _ (by omega) rfl
    (by omega) r h
  intro r res cyc hr hI hc
  have hq := cycle_logic O eigh cfg r res.ghost.opCalls res.groundState hc
  have hops : cyc.ghost.opCalls = res.iterationCount + cyc.iterationCount := by rw [hq.2.2, hI]
  exact ⟨fun _ => ⟨hr, hq.1, hq.2.1, hops⟩, fun _ => hops⟩

theorem restarts_le_max (psi : V) {r : EnergyResult R V} (h : energyImpl O eigh cfg psi = .ok r) :
    r.restartCount ≤ cfg.maxRestarts := (impl_logic O eigh cfg psi h).restarts

theorem happy_implies_converged (psi : V) {r : EnergyResult R V}
    (h : energyImpl O eigh cfg psi = .ok r) (hb : r.happyBreakdown = true) : r.converged = true :=
  (impl_logic O eigh cfg psi h).happy hb

/-- **converged ∧ ¬breakdown ⇒ residual_norm < residual_tolerance** (the code's decision logic).
`horder` holds in every linear order (`b ≤ a < c`). -/
theorem converged_residual_lt (horder : ∀ a b c : R, ¬ a < b → a < c → b < c) (psi : V)
    {r : EnergyResult R V} (h : energyImpl O eigh cfg psi = .ok r)
    (hc : r.converged = true) (hb : r.happyBreakdown = false) :
    ∃ ρ, r.residualNorm = some ρ ∧ ρ < cfg.residTol :=
  (impl_logic O eigh cfg psi h).resid horder hc hb

theorem op_applied_iteration_count_times (psi : V) {r : EnergyResult R V}
    (h : energyImpl O eigh cfg psi = .ok r) : r.ghost.opCalls = r.iterationCount :=
  (impl_logic O eigh cfg psi h).ops

/-- `krylov_energy_minimization` returns iff converged or happy breakdown … -/
theorem energy_min_returns_iff (psi : V) (x : V × Option R) :
    energyMin O eigh cfg psi = .ok x ↔
      ∃ r, energyImpl O eigh cfg psi = .ok r ∧ (r.converged = true ∨ r.happyBreakdown = true) ∧
        x = (r.groundState, r.groundEnergy) := by
  unfold energyMin
  cases h : energyImpl O eigh cfg psi with
  | error e => simp
  | ok r =>
    cases hc : r.converged <;> cases hb : r.happyBreakdown <;> simp [hc, hb] <;> exact eq_comm

/-- `krylov_energy_minimization_impl` itself only raises `ValueError` (zero start vector, zero
Ritz vector) or `IndexError` (an `eigh` answer that is too short) — never `RecursionError`. -/
theorem impl_raises_only (psi : V) {e : Err} (h : energyImpl O eigh cfg psi = .error e) :
    e = .valueError ∨ e = .indexError :=
  restartLoop_error O eigh cfg _ _ _ _ h

/-- … and raises `RecursionError` iff neither. -/
theorem energy_min_raises_iff (psi : V) :
    energyMin O eigh cfg psi = .error .recursion ↔
      ∃ r, energyImpl O eigh cfg psi = .ok r ∧ r.converged = false ∧ r.happyBreakdown = false := by
  unfold energyMin
  cases h : energyImpl O eigh cfg psi with
  | error e =>
    rcases impl_raises_only O eigh cfg psi h with rfl | rfl <;> simp
  | ok r =>
    cases hc : r.converged <;> cases hb : r.happyBreakdown <;> simp [hc, hb]

/-- The PUBLIC `krylov_energy_minimization(op, psi, norm_tolerance, residual_tolerance, max_krylov_dim)`
is the implementation run with the caller's tolerances *under their own names* (and the default
`max_restarts = 100`): whatever it returns without happy breakdown has
`residual_norm < residual_tolerance` — the caller's `residual_tolerance`. -/
theorem public_wrapper_uses_callers_tolerances (horder : ∀ a b c : R, ¬ a < b → a < c → b < c)
    (numTol : R) (psi : V) (nt rt : R) (md : Nat) (x : V × Option R)
    (h : energyMinPublic O eigh numTol psi nt rt md = .ok x) :
    ∃ r, energyImpl O eigh { residTol := rt, normTol := nt, maxDim := md, maxRestarts := 100,
                             numTol := numTol } psi = .ok r ∧
      x = (r.groundState, r.groundEnergy) ∧
      (r.happyBreakdown = false → ∃ ρ, r.residualNorm = some ρ ∧ ρ < rt) := by
  obtain ⟨r, hr, hflag, hx⟩ := (energy_min_returns_iff O eigh _ psi x).mp h
  refine ⟨r, hr, hx, fun hb => ?_⟩
  have hc : r.converged = true := by
    rcases hflag with hc | hh
    · exact hc
    · rw [hb] at hh; exact absurd hh (by simp)
  exact converged_residual_lt O eigh _ horder psi hr hc hb

end Logic

/-! ### (b) exact arithmetic -/
section Exact
variable {𝕜 E : Type} [RCLike 𝕜] [NormedAddCommGroup E] [InnerProductSpace 𝕜 E]
variable (eigh : Nat → Nat → List ℝ → List ℝ → ℝ × List ℝ) (cfg : EnergyCfg ℝ)

/-- The returned vector has norm 1 — any `op`, any `eigh` oracle. -/
theorem returned_state_unit (A : E → E) (hnum : 0 ≤ cfg.numTol) (psi : E) (hpsi : psi ≠ 0)
    {r : EnergyResult ℝ E} (h : energyImpl (ipOps (𝕜 := 𝕜) A) eigh cfg psi = .ok r) :
    ‖r.groundState‖ = 1 :=
  energyImpl_norm A eigh cfg hnum psi hpsi h

variable (A : E →ₗ[𝕜] E)

/-- Lanczos vectors of a cycle are orthonormal and satisfy the three-term recurrence: the
invariant holds initially and is preserved by every iteration that appends a vector. -/
theorem lanczos_vectors_orthonormal_three_term (hA : A.IsSymmetric) (hpos : 0 < cfg.normTol) :
    (∀ v : E, v ≠ 0 → LanInv (𝕜 := 𝕜) A 0
      { qs := [(ipOps (𝕜 := 𝕜) A).divR v ‖v‖], cur := (ipOps (𝕜 := 𝕜) A).divR v ‖v‖, prev := none,
        alphas := [], betas := [], best := (ipOps (𝕜 := 𝕜) A).divR v ‖v‖, bestE := none,
        bestR := none, nIter := 0 }) ∧
    (∀ c j st st', LanInv (𝕜 := 𝕜) A j st →
      cycIter (ipOps (𝕜 := 𝕜) A) eigh cfg c j st = .ok (.cont st') → LanInv (𝕜 := 𝕜) A (j + 1) st') :=
  ⟨fun v hv => lanInv_init A v hv, fun c j st st' h hs => lanInv_step A eigh cfg hA hpos h hs⟩

/-- The Ritz triple of one iteration (Saad, Prop. 6.8 and the Rayleigh identity). -/
theorem ritz_pair_of_iteration (hA : A.IsSymmetric) (hc : EighContract eigh) (hnum : cfg.numTol < 1)
    {c j : ℕ} {st : CycSt ℝ E} (h : LanInv (𝕜 := 𝕜) A j st) :
    ∃ ψ yj, ritzVector (ipOps (𝕜 := 𝕜) A) cfg.numTol (cycTy (ipOps (𝕜 := 𝕜) A) eigh c j st).2 st.qs = .ok ψ ∧
      (cycTy (ipOps (𝕜 := 𝕜) A) eigh c j st).2[j]? = some yj ∧ ‖ψ‖ = 1 ∧
      ⟪ψ, A ψ⟫_𝕜 = ((cycTy (ipOps (𝕜 := 𝕜) A) eigh c j st).1 : 𝕜) ∧
      ‖A ψ - ((cycTy (ipOps (𝕜 := 𝕜) A) eigh c j st).1 : 𝕜) • ψ‖
        = |cycBeta (ipOps (𝕜 := 𝕜) A) st * yj| := by
  obtain ⟨ψ, yj, h1, h2, h3, h4, h5⟩ := ritz_facts A eigh cfg hA hc hnum (c := c) h
  refine ⟨ψ, yj, h1, h2, h3, h4, ?_⟩
  rw [h5]; unfold cycResid; exact absv_eq_abs _

/-- What is returned is a unit vector with `ground_energy` its Rayleigh quotient and
`residual_norm` its residual. -/
theorem energy_is_rayleigh_and_residual (hA : A.IsSymmetric) (hc : EighContract eigh)
    (hnum0 : 0 ≤ cfg.numTol) (hnum : cfg.numTol < 1) (hpos : 0 < cfg.normTol) (hdim : 0 < cfg.maxDim)
    (psi : E) (hpsi : psi ≠ 0) {r : EnergyResult ℝ E}
    (h : energyImpl (ipOps (𝕜 := 𝕜) A) eigh cfg psi = .ok r) :
    ∃ e ρ, r.groundEnergy = some e ∧ r.residualNorm = some ρ ∧ ‖r.groundState‖ = 1 ∧
      ⟪r.groundState, A r.groundState⟫_𝕜 = (e : 𝕜) ∧
      ‖A r.groundState - (e : 𝕜) • r.groundState‖ = ρ := by
  obtain ⟨hinv, hne⟩ := energyImpl_ritz A eigh cfg hA hc hnum0 hnum hpos psi hpsi h
  rcases hinv with h0 | ⟨e, ρ, he, hr, hok⟩
  · exact absurd h0 (hne hdim)
  · exact ⟨e, ρ, he, hr, hok.1, hok.2.1, hok.2.2⟩

/-- The variational bound for any unit vector. -/
theorem variational_bound [FiniteDimensional 𝕜 E] [Nontrivial E] (hA : A.IsSymmetric) :
    ∃ lam : ℝ, Module.End.HasEigenvalue A (lam : 𝕜) ∧
      (∀ ν : ℝ, Module.End.HasEigenvalue A (ν : 𝕜) → lam ≤ ν) ∧
      ∀ x : E, ‖x‖ = 1 → lam ≤ RCLike.re ⟪x, A x⟫_𝕜 :=
  exists_min_eigenvalue hA

/-- **C08 in exact arithmetic**, given the `eigh` contract: unit vector, energy = Rayleigh
quotient ≥ smallest eigenvalue, `residual_norm` = the true residual, and it is below the
tolerance whenever convergence without breakdown is reported. -/
theorem C08_exact [FiniteDimensional 𝕜 E] (hA : A.IsSymmetric) (hc : EighContract eigh)
    (hnum0 : 0 ≤ cfg.numTol) (hnum : cfg.numTol < 1) (hpos : 0 < cfg.normTol) (hdim : 0 < cfg.maxDim)
    (psi : E) (hpsi : psi ≠ 0) {r : EnergyResult ℝ E}
    (h : energyImpl (ipOps (𝕜 := 𝕜) A) eigh cfg psi = .ok r) :
    ‖r.groundState‖ = 1 ∧ r.restartCount ≤ cfg.maxRestarts ∧
    ∃ e ρ lam : ℝ, r.groundEnergy = some e ∧ r.residualNorm = some ρ ∧
      ⟪r.groundState, A r.groundState⟫_𝕜 = (e : 𝕜) ∧
      ‖A r.groundState - (e : 𝕜) • r.groundState‖ = ρ ∧
      Module.End.HasEigenvalue A (lam : 𝕜) ∧
      (∀ ν : ℝ, Module.End.HasEigenvalue A (ν : 𝕜) → lam ≤ ν) ∧ lam ≤ e ∧
      (r.converged = true → r.happyBreakdown = false → ρ < cfg.residTol) := by
  have : Nontrivial E := nontrivial_of_ne psi 0 hpsi
  obtain ⟨e, ρ, he, hr, hn, hray, hres⟩ :=
    energy_is_rayleigh_and_residual eigh cfg A hA hc hnum0 hnum hpos hdim psi hpsi h
  obtain ⟨lam, hl1, hl2, hl3⟩ := exists_min_eigenvalue hA
  refine ⟨hn, restarts_le_max _ eigh cfg psi h, e, ρ, lam, he, hr, hray, hres, hl1, hl2, ?_, ?_⟩
  · have := hl3 _ hn
    rw [hray, RCLike.ofReal_re] at this
    exact this
  · intro hcv hhb
    obtain ⟨ρ', hr', hlt⟩ := converged_residual_lt _ eigh cfg
      (fun a b c hab hac => lt_of_le_of_lt (not_lt.mp hab) hac) psi h hcv hhb
    rw [hr] at hr'
    rw [Option.some.inj hr']
    exact hlt

end Exact

/-! ### non-vacuity -/
section Examples

/-- 2-dimensional rational toy algebra (sup-norm): runs the model through its exits. -/
def toyOps (a b c d : ℚ) : VecOps ℚ ℚ (ℚ × ℚ) where
  op x := (a * x.1 + b * x.2, c * x.1 + d * x.2)
  inner x y := x.1 * y.1 + x.2 * y.2
  norm x := max (absv x.1) (absv x.2)
  axpy k q w := (w.1 - k * q.1, w.2 - k * q.2)
  divR x r := (x.1 / r, x.2 / r)
  zero := (0, 0)
  add x y := (x.1 + y.1, x.2 + y.2)
  smul k x := (k * x.1, k * x.2)
  ofReal := id
  re := id
  cabs := absv

/-- an `eigh` oracle that always answers `(θ, e_last)` -/
def toyEigh (θ : ℚ) (_ j : Nat) (_ _ : List ℚ) : ℚ × List ℚ :=
  (θ, (List.replicate j 0) ++ [1])

def toyCfg (md mr : Nat) : EnergyCfg ℚ :=
  { residTol := 1 / 100, normTol := 1 / 1000, maxDim := md, maxRestarts := mr, numTol := 1 / 1000000 }

def flags (r : Except Err (EnergyResult ℚ (ℚ × ℚ))) : Option (Bool × Bool × Nat × Nat × Nat) :=
  match r with
  | .ok r => some (r.converged, r.happyBreakdown, r.iterationCount, r.restartCount, r.ghost.opCalls)
  | .error _ => none

/-- happy breakdown in the first iteration (start vector is an eigenvector) -/
example : flags (energyImpl (toyOps 2 0 0 3) (toyEigh 2) (toyCfg 5 3) (1, 0)) = some (true, true, 1, 0, 1) := by
  decide +kernel
/-- never converges: `max_restarts + 1` cycles of `max_krylov_dim` iterations, wrapper raises -/
example : flags (energyImpl (toyOps 0 1 1 0) (toyEigh 0) (toyCfg 1 2) (1, 0)) = some (false, false, 3, 2, 3) := by
  decide +kernel
example : (energyMin (toyOps 0 1 1 0) (toyEigh 0) (toyCfg 1 2) (1, 0)).toOption = none := by
  decide +kernel
/-- zero start vector: `ValueError` -/
example : flags (energyImpl (toyOps 0 1 1 0) (toyEigh 0) (toyCfg 1 2) (0, 0)) = none := by decide +kernel

/-- the hypotheses of `C08_exact` are satisfiable: `E = ℝ`, `op = 3·`, the exact `eigh` of the
1×1 and larger tridiagonals replaced by the (contract-satisfying on 1×1 inputs) map below is not
needed — the contract is a hypothesis; here we show the remaining ones hold together. -/
example : (3 • LinearMap.id : ℝ →ₗ[ℝ] ℝ).IsSymmetric ∧ (0 : ℝ) ≤ 1e-12 ∧ (1e-12 : ℝ) < 1 ∧ (1 : ℝ) ≠ 0 := by
  refine ⟨fun x y => by simp [mul_comm, mul_left_comm], by norm_num, by norm_num, one_ne_zero⟩

/-- `EighContract` is satisfiable: on a 1×1 tridiagonal the oracle `(a₀, [1])` meets it; an
oracle meeting it on all sizes exists by the spectral theorem (not needed for the proofs). -/
example : ∀ a0 : ℝ, TriEig (fun i => [a0].getD i 0) (fun i => ([] : List ℝ).getD i 0)
    (fun i => [(1 : ℝ)].getD i 0) 0 a0 := by
  intro a0 i hi
  have : i = 0 := by omega
  subst this
  simp

end Examples

end EmuVerif.Props.C08
