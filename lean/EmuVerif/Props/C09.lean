/-
  C09 — The DMRG solver finds the ground state of the final Hamiltonian.

  Statement (properties.jsonl): for every noiseless sequence run with the DMRG solver, the energy
  reported at each evaluation time is never below the exact ground energy of that step's
  Hamiltonian (beyond rounding). For small gapped systems it matches that ground energy to within
  the solver's energy tolerance. The state returned is normalised and in canonical form.

  What is proved here. The model carries the variant switch `Cfg.resetPrev`; the CURRENT tree
  (/repo ≥ 3bcd9a6: `sweep_count = 0` and `previous_energy = None` when a step converges) is the
  repaired variant `resetPrev = true`, for which `repaired_every_step_compares_its_own_sweeps`
  applies; `resetPrev = false` is the code as found before that commit:

  (i) Variational bound, abstractly (`variational_bound`, `variational_bound_unit`): for a
      symmetric operator `H` on a finite-dimensional complex inner-product space the Rayleigh
      quotient of ANY non-zero vector is ≥ the least eigenvalue `groundEnergy H`, which is an
      eigenvalue and below every eigenvalue. The energy observable is *defined* as
      `⟨ψ|H|ψ⟩` of the normalised returned state (C13; `fill_results` normalises before calling
      the callbacks); that the number reported is this Rayleigh quotient w.r.t. the dense
      Hamiltonian of the step's drive row is validated numerically by the harness, not proved.

  (ii) The sweep machine `Model.Dmrg`, for EVERY sequence of energies returned by the local
      minimisations and every `n ≥ 2`:
      * `sweep_positions` – a sweep calls `minimize_energy_pair` exactly at `sweepPositions n`
        = (0,→),(1,→),…,(n-3,→),(n-2,←),…,(1,←) (two atoms: (0,→),(0,←)), then `sweep_complete`
        runs on an object that is back at position 0, centre 0 (`orthogonalize(0)`), stacks of
        sizes 1 and n-1, with one more sweep counted;
      * `call_safe` – before every call the stack sizes are `idx+1` and `n-1-idx`, the centre
        is on one of the two sites minimised, and the only exception that can escape is the
        `RuntimeError` of `sweep_complete` (no `IndexError`, none of the three asserts);
      * `whole_run` – the call-level machine is the sweep-level machine with that pattern
        inserted (refinement), so the statements below transfer;
      * `sweep_converged`, `sweep_not_converged`, `sweep_raises` – the three outcomes of
        `sweep_complete`, exactly: converged ⇔ |e − previous_energy| < tol ⇒ step completes,
        time := target, count := 0, `previous_energy` untouched; otherwise count+1 > max ⇒ raise;
        otherwise `previous_energy := e`;
      * `steps_complete_once_in_order` – the completed steps are k, k+1, …, each exactly once;
      * `stepDone_iff_converged` – a step completes in a sweep iff that sweep converged;
      * `sweeps_per_step_bounded` – a step never runs more than `max(max_sweeps,1)` sweeps, and
        the raise happens only when the step has run at least `max_sweeps` sweeps none of which
        converged; `count_ok` – the count is per step (it is 0 after every completed step);
      * `completed_step_canonical` – when a step completes the object handed to
        `timestep_complete`/`fill_results` has centre 0, position 0, direction →.
      Canonical form / norm 1 of the *tensors* then rest on C10's `qr`/`eigh` contracts
      (`orthogonalize`, `split_matrix`); they are validated numerically by the harness.

  (iii) "matches the ground energy within the tolerance for small gapped systems" is NOT a
      theorem and is false for the code: `MatchesGroundEnergy` is kept as a `def … : Prop`.
      Two-site DMRG can converge to an excited eigenstate (KNOWN-FINDING D23), and in the as-found
      variant, because `previous_energy` survives a completed step, the first sweep of a later step is
      compared with an energy of the *previous* step (`first_sweep_compared_with_previous_step`,
      `stale_previous_energy_counterexample`; finding D19b, fixed in 3bcd9a6, showed the real
      solver accepting an energy 0.4 rad/µs above the ground energy that way). The model carries the variant switch
      `Cfg.resetPrev`: for the repaired variant `repaired_every_step_compares_its_own_sweeps`
      holds; the harness decides on every run which variant the code matches. PARTIAL.
-/
import EmuVerif.Proofs.Dmrg
import EmuVerif.Proofs.DmrgVariational

set_option linter.unusedSectionVars false

namespace EmuVerif.Props.C09
open EmuVerif EmuVerif.Dmrg

/-! ## (i) Variational bound -/

section Variational
variable {E : Type*} [NormedAddCommGroup E] [InnerProductSpace ℂ E] [FiniteDimensional ℂ E]

/-- **Variational principle.** For a Hermitian `H` on a non-trivial finite-dimensional space:
`groundEnergy H` is an eigenvalue, no eigenvalue is smaller, and the Rayleigh quotient
`Re⟨Hψ,ψ⟩/‖ψ‖²` of any non-zero `ψ` — in particular of whatever state the solver returns — is at
least `groundEnergy H`. -/
theorem variational_bound [Nontrivial E] (H : E →ₗ[ℂ] E) (hH : H.IsSymmetric) :
    Module.End.HasEigenvalue H ((groundEnergy H : ℝ) : ℂ)
    ∧ (∀ ν : ℝ, Module.End.HasEigenvalue H (ν : ℂ) → groundEnergy H ≤ ν)
    ∧ ∀ ψ : E, ψ ≠ 0 → groundEnergy H ≤ rayleigh H ψ :=
  ⟨groundEnergy_hasEigenvalue hH, fun _ h => groundEnergy_le_eigenvalue H h,
   fun _ h => groundEnergy_le_rayleigh H h⟩

/-- For a normalised state the reported quantity `Re⟨Hψ,ψ⟩` itself is ≥ the ground energy. -/
theorem variational_bound_unit (H : E →ₗ[ℂ] E) (ψ : E) (hψ : ‖ψ‖ = 1) :
    groundEnergy H ≤ RCLike.re (inner ℂ (H ψ) ψ) := by
  have hne : ψ ≠ 0 := by intro h; simp [h] at hψ
  have := groundEnergy_le_rayleigh H hne
  simpa [rayleigh, hψ] using this

/-- The clause that is *not* a theorem (DMRG can stall, and see the stale-`previous_energy`
finding): the energy of the returned state is within `bound` of the ground energy. -/
def MatchesGroundEnergy (H : E →ₗ[ℂ] E) (ψ : E) (bound : ℝ) : Prop :=
  |rayleigh H ψ - groundEnergy H| ≤ bound

/-- non-vacuity: the identity on `ℂ` is symmetric, `ψ = 1` is a unit vector, `ℂ` is non-trivial -/
example : (LinearMap.id : ℂ →ₗ[ℂ] ℂ).IsSymmetric ∧ ‖(1 : ℂ)‖ = 1 ∧ Nontrivial ℂ :=
  ⟨fun _ _ => rfl, by simp, inferInstance⟩

end Variational

/-! ## (ii) The sweep machine -/

variable {α : Type} [Field α] [LinearOrder α] [IsStrictOrderedRing α]

/-- **Positions of a sweep** (see `Proofs.Dmrg.sweep_run`). -/
theorem sweep_positions (cfg : Cfg α) (s : St α) (es : List α) (hn : 2 ≤ cfg.n)
    (hs : SweepStart cfg s) (hu : Unfinished cfg s)
    (hlen : es.length = (sweepPositions cfg.n).length) :
    runTape cfg es s =
      ⟨(sweepComplete cfg (afterSweep s es.getLast?)).st,
       (sweepPositions cfg.n).map (fun p => Event.min p.1 p.2)
         ++ (sweepComplete cfg (afterSweep s es.getLast?)).evs,
       (sweepComplete cfg (afterSweep s es.getLast?)).halt⟩ :=
  sweep_run cfg s es hn hs hu hlen

/-- The explicit list: `0 … n-3` heading right, `n-2 … 1` heading left. -/
theorem sweep_positions_explicit (m : Nat) :
    sweepPositions (m + 3) =
      (List.range' 0 (m + 1)).map (fun i => (i, true))
        ++ (List.range' 1 (m + 1)).reverse.map (fun i => (i, false)) := by
  simp [sweepPositions]

/-- **Every call is safe** and keeps the invariant (see `Proofs.Dmrg.progress_inv`). -/
theorem call_safe (cfg : Cfg α) (s : St α) (e : α) (h : Inv cfg s) (ht : TimesOk cfg) :
    s.left = s.idx + 1 ∧ s.right + s.idx + 1 = cfg.n
    ∧ (s.centre = s.idx ∨ s.centre = s.idx + 1)
    ∧ (progress cfg s e).evs.head? = some (.min s.idx (decide (s.dir = .l2r)))
    ∧ ((progress cfg s e).halt = none ∨ (progress cfg s e).halt = some .notConverged)
    ∧ ((progress cfg s e).halt = none → Inv cfg (progress cfg s e).st) :=
  ⟨h.left, h.right, progress_inv cfg s e h ht⟩

/-- … hence along any tape from `__init__`: the object after any number of calls satisfies `Inv`
and the only possible exception is the `RuntimeError`. -/
theorem run_safe (cfg : Cfg α) (ht : TimesOk cfg) : ∀ (es : List α) (s : St α), Inv cfg s →
    ((runTape cfg es s).halt = none ∨ (runTape cfg es s).halt = some .notConverged)
    ∧ ((runTape cfg es s).halt = none → Inv cfg (runTape cfg es s).st)
  | [], s, h => by simp [runTape_nil, h]
  | e :: es, s, h => by
    by_cases hu : Unfinished cfg s
    · rw [runTape_cons cfg e es s hu]
      obtain ⟨_, _, hh, hi⟩ := progress_inv cfg s e h ht
      cases hp : (progress cfg s e).halt with
      | some x =>
        rw [andThen_some _ hp]
        rcases hh with h1 | h1
        · rw [hp] at h1; cases h1
        · rw [hp] at h1; simp [h1]
      | none =>
        rw [andThen_none _ hp]
        exact run_safe cfg ht es _ (hi hp)
    · rw [runTape_finished cfg _ s hu]; simp [h]

theorem init_inv {cfg : Cfg α} {s : St α} (h : init cfg = some s) : Inv cfg s :=
  (init_sweepStart h).1.inv (init_sweepStart h).2.1

/-- **Refinement**: whole run, call level = sweep level with the position pattern inserted. -/
theorem whole_run (cfg : Cfg α) (hn : 2 ≤ cfg.n) (ht : TimesOk cfg) (ess : List (List α × α))
    (s : St α) (hs : SweepStart cfg s)
    (hl : ∀ p ∈ ess, p.1.length + 1 = (sweepPositions cfg.n).length) :
    runTape cfg (ess.flatMap (fun p => p.1 ++ [p.2])) s =
      ⟨(runSweeps cfg (ess.map Prod.snd) s).st,
       expandEvs cfg.n (runSweeps cfg (ess.map Prod.snd) s).evs,
       (runSweeps cfg (ess.map Prod.snd) s).halt⟩ :=
  runTape_eq_runSweeps cfg hn ht ess s hs hl

/-- **Converged sweep.** -/
theorem sweep_converged (cfg : Cfg α) (s : St α) (e : α) (hs : SweepStart cfg s)
    (ht : TimesOk cfg) (p : α) (hp : s.prevE = some p) (hc : |e - p| < cfg.tol) :
    sweepStep cfg s e =
      ⟨{ s with curT := s.tgtT, sweepCount := 0, tsIndex := s.tsIndex + 1,
                tgtT := nextTarget cfg s, curE := none, prevE := keptPrev cfg s },
       [.sweepDone true, .stepDone s.tsIndex], none⟩ :=
  sweepStep_converged cfg s e hs ht ⟨p, hp, hc⟩

/-- **Not converged, budget left ⇒ `previous_energy` updated** (and nothing else happens). -/
theorem sweep_not_converged (cfg : Cfg α) (s : St α) (e : α) (hs : SweepStart cfg s)
    (hc : ∀ p, s.prevE = some p → ¬ |e - p| < cfg.tol) (hm : s.sweepCount + 2 ≤ cfg.maxSweeps) :
    sweepStep cfg s e =
      ⟨{ s with prevE := some e, sweepCount := s.sweepCount + 1, curE := none },
       [.sweepDone false], none⟩ :=
  sweepStep_continue cfg s e hs (fun ⟨p, hp, h⟩ => hc p hp h) hm

/-- **Not converged and `sweep_count + 1 > max_sweeps` (after the increment) ⇒ raise.** -/
theorem sweep_raises (cfg : Cfg α) (s : St α) (e : α)
    (hc : ∀ p, s.prevE = some p → ¬ |e - p| < cfg.tol) (hm : cfg.maxSweeps < s.sweepCount + 2) :
    (sweepStep cfg s e).evs = [.sweepDone false, .raise]
      ∧ (sweepStep cfg s e).halt = some .notConverged :=
  sweepStep_raise cfg s e (fun ⟨p, hp, h⟩ => hc p hp h) hm

/-- **A step completes in a sweep iff that sweep converged** — and then it is the current step. -/
theorem stepDone_iff_converged (cfg : Cfg α) (s : St α) (e : α) (hs : SweepStart cfg s)
    (ht : TimesOk cfg) (k : Nat) :
    Event.stepDone k ∈ (sweepStep cfg s e).evs ↔
      (k = s.tsIndex ∧ ∃ p, s.prevE = some p ∧ |e - p| < cfg.tol) := by
  rcases sweepStep_cases cfg s e hs ht with ⟨hc, h⟩ | ⟨hc, _, h⟩ | ⟨hc, _, h, _⟩
  · rw [h]; simp only [List.mem_cons, List.mem_nil_iff, or_false]
    constructor
    · rintro (h | h)
      · cases h
      · exact ⟨by injection h, hc⟩
    · rintro ⟨rfl, _⟩; right; rfl
  · rw [h]; simp only [List.mem_cons, List.mem_nil_iff, or_false]
    constructor
    · intro h; cases h
    · rintro ⟨_, hc'⟩; exact absurd hc' hc
  · rw [h]; simp only [List.mem_cons, List.mem_nil_iff, or_false]
    constructor
    · rintro (h | h) <;> cases h
    · rintro ⟨_, hc'⟩; exact absurd hc' hc

/-- The time steps completed during a run, in order. -/
def stepDones : List Event → List Nat
  | [] => []
  | .stepDone k :: r => k :: stepDones r
  | _ :: r => stepDones r

theorem stepDones_append (a b : List Event) : stepDones (a ++ b) = stepDones a ++ stepDones b := by
  induction a with
  | nil => rfl
  | cons ev a ih => cases ev <;> simp [stepDones, ih]

/-- **Every step completes exactly once, in order**: the completed steps of any run from a
sweep start are `k, k+1, …, k+m-1` (`k` the current step), and `_timestep_index` ends at `k+m`. -/
theorem steps_complete_once_in_order (cfg : Cfg α) (ht : TimesOk cfg) :
    ∀ (es : List α) (s : St α), SweepStart cfg s →
      ∃ m, stepDones (runSweeps cfg es s).evs = List.range' s.tsIndex m
        ∧ ((runSweeps cfg es s).halt = none → (runSweeps cfg es s).st.tsIndex = s.tsIndex + m)
  | [], s, _ => ⟨0, by simp [runSweeps, stepDones]⟩
  | e :: es, s, hs => by
    by_cases hu : Unfinished cfg s
    · rw [runSweeps_cons cfg e es s hu]
      rcases sweepStep_cases cfg s e hs ht with ⟨_, h⟩ | ⟨_, _, h⟩ | ⟨_, _, h, hh⟩
      · have hs' := sweepStart_after cfg s e hs ht (by rw [h])
        obtain ⟨m, hm, hm'⟩ := steps_complete_once_in_order cfg ht es _ hs'
        rw [h] at hs' hm hm'
        refine ⟨m + 1, ?_, ?_⟩
        · rw [h, andThen_none _ rfl]
          simp only [stepDones_append, stepDones, hm, List.range'_succ]
          simp
        · rw [h, andThen_none _ rfl]
          intro hn; have := hm' hn; simp only at this ⊢; omega
      · have hs' := sweepStart_after cfg s e hs ht (by rw [h])
        obtain ⟨m, hm, hm'⟩ := steps_complete_once_in_order cfg ht es _ hs'
        rw [h] at hs' hm hm'
        refine ⟨m, ?_, ?_⟩
        · rw [h, andThen_none _ rfl]
          simp only [stepDones_append, stepDones, hm]
          simp
        · rw [h, andThen_none _ rfl]
          intro hn; exact hm' hn
      · refine ⟨0, ?_, ?_⟩
        · rw [andThen_some _ hh, h]; simp [stepDones]
        · rw [andThen_some _ hh]; intro hn; cases hn
    · rw [runSweeps_finished cfg _ s hu]
      exact ⟨0, by simp [stepDones]⟩

/-- Number of sweeps (entries of `sweep_complete`) in an event stream. -/
def sweepsIn : List Event → Nat
  | [] => 0
  | .sweepDone _ :: r => sweepsIn r + 1
  | _ :: r => sweepsIn r

theorem sweepsIn_append (a b : List Event) : sweepsIn (a ++ b) = sweepsIn a + sweepsIn b := by
  induction a with
  | nil => simp [sweepsIn]
  | cons ev a ih => cases ev <;> simp [sweepsIn, ih] <;> omega

/-- `sweep_count` is per step: at a sweep start it is 0 or leaves room for the next sweep. -/
def CountOk (cfg : Cfg α) (s : St α) : Prop := s.sweepCount = 0 ∨ s.sweepCount + 1 ≤ cfg.maxSweeps

/-- **`max_sweeps` bounds the sweeps of ONE step.** Take any stretch of a run that starts at a
sweep start with `c = sweep_count` sweeps of the current step already done and in which the
step does not complete. Then the step has run `c + #sweeps ≤ max(max_sweeps, 1)` sweeps in
total; if the stretch ended with the `RuntimeError`, the step has run at least `max_sweeps`
sweeps and none of them converged; if it did not, `sweep_count` is exactly `c + #sweeps` and
still leaves room. -/
theorem sweeps_per_step_bounded (cfg : Cfg α) (ht : TimesOk cfg) :
    ∀ (es : List α) (s : St α), SweepStart cfg s → CountOk cfg s →
      (∀ k, Event.stepDone k ∉ (runSweeps cfg es s).evs) →
      s.sweepCount + sweepsIn (runSweeps cfg es s).evs ≤ max cfg.maxSweeps 1
      ∧ Event.sweepDone true ∉ (runSweeps cfg es s).evs
      ∧ ((runSweeps cfg es s).halt = some .notConverged →
          cfg.maxSweeps ≤ s.sweepCount + sweepsIn (runSweeps cfg es s).evs)
      ∧ ((runSweeps cfg es s).halt = none →
          (runSweeps cfg es s).st.sweepCount = s.sweepCount + sweepsIn (runSweeps cfg es s).evs
          ∧ CountOk cfg (runSweeps cfg es s).st)
  | [], s, _, hc, _ => by
    refine ⟨?_, by simp [runSweeps], (fun h => by simp [runSweeps] at h),
      (fun _ => ⟨by simp [runSweeps, sweepsIn], hc⟩)⟩
    simp only [runSweeps, sweepsIn]
    rcases hc with h | h <;> omega
  | e :: es, s, hs, hc, hno => by
    by_cases hu : Unfinished cfg s
    · rw [runSweeps_cons cfg e es s hu] at hno ⊢
      rcases sweepStep_cases cfg s e hs ht with ⟨_, h⟩ | ⟨_, hm, h⟩ | ⟨_, hm, h, hh⟩
      · exfalso
        rw [h, andThen_none _ rfl] at hno
        exact hno s.tsIndex (by simp)
      · have hs' := sweepStart_after cfg s e hs ht (by rw [h])
        rw [h] at hs'
        rw [h, andThen_none _ rfl] at hno ⊢
        have hc' : CountOk cfg ({ s with prevE := some e, sweepCount := s.sweepCount + 1, curE := none } : St α) :=
          Or.inr (by simp only; omega)
        obtain ⟨h1, h2, h3, h4⟩ := sweeps_per_step_bounded cfg ht es _ hs' hc'
          (fun k hk => hno k (by simp only [List.mem_append]; exact Or.inr hk))
        simp only [sweepsIn_append, sweepsIn] at h1 h3 h4 ⊢
        refine ⟨by omega, ?_, (fun hh => by have := h3 hh; omega), (fun hh => ?_)⟩
        · simp only [List.mem_append, List.mem_cons, List.mem_nil_iff, or_false, not_or]
          exact ⟨(fun h => by cases h), h2⟩
        · obtain ⟨h5, h6⟩ := h4 hh
          exact ⟨by omega, h6⟩
      · rw [andThen_some _ hh, h]
        simp only [sweepsIn]
        refine ⟨?_, ?_, (fun _ => by omega), (fun h => by cases h)⟩
        · rcases hc with h | h <;> omega
        · simp
    · rw [runSweeps_finished cfg _ s hu]
      refine ⟨?_, by simp, (fun h => by cases h), (fun _ => ⟨by simp [sweepsIn], hc⟩)⟩
      simp only [sweepsIn]
      rcases hc with h | h <;> omega

/-- **The count is per step**: after a completed step it is 0, so every step starts with the
hypotheses of `sweeps_per_step_bounded` (`c = 0`: at most `max(max_sweeps,1)` sweeps). -/
theorem count_ok (cfg : Cfg α) (ht : TimesOk cfg) :
    ∀ (es : List α) (s : St α), SweepStart cfg s → CountOk cfg s →
      (runSweeps cfg es s).halt = none →
      SweepStart cfg (runSweeps cfg es s).st ∧ CountOk cfg (runSweeps cfg es s).st
  | [], s, hs, hc, _ => ⟨hs, hc⟩
  | e :: es, s, hs, hc, hh => by
    by_cases hu : Unfinished cfg s
    · rw [runSweeps_cons cfg e es s hu] at hh ⊢
      rcases sweepStep_cases cfg s e hs ht with ⟨_, h⟩ | ⟨_, hm, h⟩ | ⟨_, hm, h, hx⟩
      · have hs' := sweepStart_after cfg s e hs ht (by rw [h])
        rw [h] at hs'
        rw [h, andThen_none _ rfl] at hh ⊢
        exact count_ok cfg ht es _ hs' (Or.inl rfl) hh
      · have hs' := sweepStart_after cfg s e hs ht (by rw [h])
        rw [h] at hs'
        rw [h, andThen_none _ rfl] at hh ⊢
        exact count_ok cfg ht es _ hs' (Or.inr (by simp only; omega)) hh
      · rw [andThen_some _ hx] at hh; cases hh
    · rw [runSweeps_finished cfg _ s hu]; exact ⟨hs, hc⟩

/-- **The state handed over when a step completes is canonical as far as the machine goes**:
position 0, centre 0 (`orthogonalize(0)` ran), heading right, stacks rebuilt. -/
theorem completed_step_canonical (cfg : Cfg α) (s : St α) (e : α) (hs : SweepStart cfg s)
    (ht : TimesOk cfg) (k : Nat) (h : Event.stepDone k ∈ (sweepStep cfg s e).evs) :
    (sweepStep cfg s e).halt = none ∧ (sweepStep cfg s e).st.centre = 0
      ∧ (sweepStep cfg s e).st.idx = 0 ∧ (sweepStep cfg s e).st.dir = .l2r
      ∧ (sweepStep cfg s e).st.sweepCount = 0 ∧ (sweepStep cfg s e).st.tsIndex = k + 1
      ∧ (sweepStep cfg s e).st.curT = s.tgtT := by
  obtain ⟨hk, hc⟩ := (stepDone_iff_converged cfg s e hs ht k).mp h
  rw [sweepStep_converged cfg s e hs ht hc]
  exact ⟨rfl, hs.centre, hs.idx, hs.dir, rfl, by simp [hk], rfl⟩

/-! ## (iii) `previous_energy` survives a completed step -/

/-- After a converged sweep `previous_energy` is what it was before that sweep — an energy of
the step that just completed — so **the first sweep of the next step is accepted iff its energy
is within the tolerance of that old energy**, whatever the new Hamiltonian is. -/
theorem first_sweep_compared_with_previous_step (cfg : Cfg α) (s : St α) (e e' : α)
    (hv : cfg.resetPrev = false)
    (hs : SweepStart cfg s) (ht : TimesOk cfg) (hc : Conv cfg s e) :
    (sweepStep cfg s e).st.prevE = s.prevE
    ∧ (Conv cfg (sweepStep cfg s e).st e' ↔ ∃ p, s.prevE = some p ∧ |e' - p| < cfg.tol) := by
  rw [sweepStep_converged cfg s e hs ht hc]
  simp [keptPrev, hv, Conv]

/-- Number of sweeps of each completed step, in order. -/
def sweepsPerStep : List Event → Nat → List Nat
  | [], _ => []
  | .sweepDone _ :: r, c => sweepsPerStep r (c + 1)
  | .stepDone _ :: r, c => c :: sweepsPerStep r 0
  | _ :: r, c => sweepsPerStep r c

/-- What one would want for "converged" to mean something about the *current* Hamiltonian:
every completed step has compared two sweeps of its own. NOT true of the code. -/
def EveryStepComparesItsOwnSweeps (cfg : Cfg α) : Prop :=
  ∀ (es : List α) (s₀ : St α), init cfg = some s₀ →
    ∀ c ∈ sweepsPerStep (runSweeps cfg es s₀).evs 0, 2 ≤ c

/-- two atoms, two steps, tolerance 1, generous budget -/
def cexCfg : Cfg ℚ := { n := 2, steps := 2, tol := 1, maxSweeps := 5, times := [0, 1, 2] }

/-- the object after `__init__` for `cexCfg` -/
def cexInit : St ℚ :=
  { dir := .l2r, idx := 0, left := 1, right := 1, centre := 0, prevE := none, curE := none,
    sweepCount := 0, tsIndex := 0, curT := 0, tgtT := 1 }

/-- **Counterexample** (kernel-evaluated over ℚ): with sweep energies `0, 0, 7/10` step 0 needs
two sweeps, step 1 is accepted after a single sweep because `|7/10 − 0| < 1` — its energy was
never compared with another sweep of step 1. -/
theorem stale_previous_energy_counterexample : ¬ EveryStepComparesItsOwnSweeps cexCfg := by
  intro h
  have h0 : init cexCfg = some cexInit := rfl
  have := h [0, 0, 7 / 10] _ h0 1 (by decide +kernel)
  omega

/-- the same run, spelled out -/
example : (runSweeps cexCfg [0, 0, 7 / 10] cexInit).evs
    = [.sweepDone false, .sweepDone true, .stepDone 0, .sweepDone true, .stepDone 1] := by
  decide +kernel

/-- In the **repaired** variant (`previous_energy = None` when a step converges) every step is
accepted only after comparing two sweeps of its own — stated for any sweep start in which
`previous_energy` is set only if the current step has already run a sweep. -/
theorem repaired_steps_compare_their_own_sweeps (cfg : Cfg α) (hv : cfg.resetPrev = true)
    (ht : TimesOk cfg) :
    ∀ (es : List α) (s : St α), SweepStart cfg s → (s.prevE ≠ none → 1 ≤ s.sweepCount) →
      ∀ c ∈ sweepsPerStep (runSweeps cfg es s).evs s.sweepCount, 2 ≤ c
  | [], s, _, _ => by simp [runSweeps, sweepsPerStep]
  | e :: es, s, hs, hj => by
    by_cases hu : Unfinished cfg s
    · rw [runSweeps_cons cfg e es s hu]
      rcases sweepStep_cases cfg s e hs ht with ⟨hc, h⟩ | ⟨_, _, h⟩ | ⟨_, _, h, hh⟩
      · have hs' := sweepStart_after cfg s e hs ht (by rw [h])
        rw [h] at hs'
        rw [h, andThen_none _ rfl]
        have ih := repaired_steps_compare_their_own_sweeps cfg hv ht es _ hs'
          (by simp [keptPrev, hv])
        obtain ⟨p, hp, _⟩ := hc
        have h1 : 1 ≤ s.sweepCount := hj (by rw [hp]; simp)
        intro c hcm
        simp only [List.cons_append, List.nil_append, sweepsPerStep, List.mem_cons] at hcm
        rcases hcm with rfl | hcm
        · omega
        · exact ih c hcm
      · have hs' := sweepStart_after cfg s e hs ht (by rw [h])
        rw [h] at hs'
        rw [h, andThen_none _ rfl]
        have ih := repaired_steps_compare_their_own_sweeps cfg hv ht es _ hs'
          (fun _ => by simp only; omega)
        intro c hcm
        simp only [List.cons_append, List.nil_append, sweepsPerStep] at hcm
        exact ih c hcm
      · rw [andThen_some _ hh, h]
        simp [sweepsPerStep]
    · rw [runSweeps_finished cfg _ s hu]; simp [sweepsPerStep]

/-- … in particular from `__init__`: the repaired code satisfies `EveryStepComparesItsOwnSweeps`. -/
theorem repaired_every_step_compares_its_own_sweeps (cfg : Cfg α) (hv : cfg.resetPrev = true)
    (ht : TimesOk cfg) : EveryStepComparesItsOwnSweeps cfg := by
  intro es s₀ h0 c hc
  obtain ⟨hs, _, hp, hcnt, _⟩ := init_sweepStart h0
  have := repaired_steps_compare_their_own_sweeps cfg hv ht es s₀ hs (fun h => absurd hp h)
  rw [hcnt] at this
  exact this c hc

/-! ### Non-vacuity of the machine theorems -/

/-- `__init__` succeeds and gives a sweep start satisfying every hypothesis used above -/
example : ∃ s, init cexCfg = some s ∧ SweepStart cexCfg s ∧ Inv cexCfg s ∧ CountOk cexCfg s
    ∧ Unfinished cexCfg s ∧ TimesOk cexCfg := by
  obtain ⟨s, hs⟩ : ∃ s, init cexCfg = some s := by
    refine Option.isSome_iff_exists.mp ?_; decide +kernel
  have h := init_sweepStart hs
  refine ⟨s, hs, h.1, init_inv hs, Or.inl h.2.2.2.1, ?_, ?_⟩
  · unfold Unfinished; rw [h.2.2.2.2]; decide
  · unfold TimesOk; decide

/-- a five-atom sweep visits 0,1,2 → then 3,2,1 ← -/
example : sweepPositions 5 = [(0, true), (1, true), (2, true), (3, false), (2, false), (1, false)] := by
  decide

/-- `__init__` rejects a single atom -/
example : init ({ cexCfg with n := 1 } : Cfg ℚ) = none := by decide +kernel

end EmuVerif.Props.C09
