/-
  C10 — MPS truncation and canonical form honour their contract.

  Statement (properties.jsonl): after any operation that truncates or re-centres an MPS, no bond
  exceeds the maximum bond dimension; unless that cap binds, the discarded weight at each bond is at
  most precision²; tensors left of the declared orthogonality centre are left-orthonormal and those
  to its right are right-orthonormal, so the norm equals the norm of the centre tensor.

  Models: `Model.Cutoff` (`_determine_cutoff_index` statement by statement, rank logic of
  `split_matrix`, the bond list of `truncate_impl`) and `Model.Canon` (orthogonality-flag machine, one
  transition per public operation), tied to `emu_mps` by the correspondence check of every run.

  Proved here (every list length, every spectrum, every operation history):
   A. cutoff index, over any linear ordered field, **no sign hypothesis**:
      `cutoff_rejects_nonpositive`, `cutoff_prefixes_within` (every prefix up to and including the
      discarded one weighs ≤ ε²), `cutoff_first_exceeding` (either the next prefix exceeds ε², or *no*
      prefix does and the answer is 0), and for non-negative spectra `cutoff_longest_prefix`
      (the discarded prefix is the longest one within ε²) and `cutoff_all_below_keeps_everything`
      (whole spectrum ≤ ε² ⇒ index 0 ⇒ nothing is discarded — the code does *not* take the longest
      prefix in that case).
   B. ranks: `kept_rank_bounds` (1 ≤ kept ≤ max_rank, kept = min(len − cut, max_rank),
      max_bond + kept = len), `discarded_within_precision_unless_cap_binds`, `cap_binds_kept_eq`,
      `preserve_norm_restores_weight`, `sweep_bonds_within_cap` (every bond written by `truncate_impl`
      is in [1, max_bond_dim], for every number of sites).
   C. with the `eigh` contract as hypothesis (Mathlib matrices over any commutative *-ring):
      `kept_factor_isometry`, `split_error_eq_discarded_weight` (both `orth_center_right` branches):
      the squared Frobenius error of `left @ right` is exactly `Σ d[:max_bond]`, and
      `discarded_prefix_as_list` ties that sum to the list prefix of part A.
   D. history invariant of the flag machine: `step_preserves_invariant`, `history_invariant`
      (induction over the operation list; the DMRG step writes the centre without an assert and needs
      the guard `Guarded`), `history_invariant_public` (no guard needed for histories made of the
      public MPS operations and the asserting `_evolve` steps, from `MPS.make` or a fresh MPS),
      `declared_centre_backed`; `dmrg_unguarded_counterexample` shows the guard is necessary
      (a statement about the model's unasserted write, not a defect of a real DMRG schedule).
   E. `norm_eq_centre_norm`: for chains of left- or right-orthonormal tensors of any length,
      ‖ψ‖_F = ‖centre‖_F.

  PARTIAL — not theorems: (i) the meaning of the flags on real tensors (that `torch.linalg.qr` /
  `eigh` return isometries, i.e. flag `L` ⇒ `Aᴴ A = 1`) is the QR/eigh *contract*: an assumption,
  validated numerically on every run for every flag the model claims; D and E are joined through
  that reading. (ii) binary64 rounding: A–B are about the same definitions over an ordered field.
-/
import EmuVerif.Proofs.Cutoff
import EmuVerif.Proofs.Canon
import EmuVerif.Proofs.CutoffMatrix
import EmuVerif.Proofs.Isometry
import Mathlib.Data.List.OfFn
import Mathlib.Tactic.NormNum

set_option linter.unusedSectionVars false

namespace EmuVerif.Props.C10
open EmuVerif EmuVerif.Cutoff

/-! ## A. `_determine_cutoff_index` -/
section cutoff
variable {α : Type} [Field α] [LinearOrder α] [IsStrictOrderedRing α]

theorem cutoff_rejects_nonpositive (d : List α) {ε : α} (h : ¬ 0 < ε) : cutoffIndex d ε = none := by
  simp [cutoffIndex, h]

theorem cutoff_accepts_positive (d : List α) {ε : α} (h : 0 < ε) : ∃ c, cutoffIndex d ε = some c := by
  simp [cutoffIndex, h]

private theorem cutoff_spec {d : List α} {ε : α} {c : Nat} (h : cutoffIndex d ε = some c) :
    0 < ε ∧ ((c = 0 ∧ ∀ k, (d.take k).sum ≤ ε * ε) ∨
      (c < d.length ∧ ε * ε < (d.take (c + 1)).sum ∧ ∀ k, k ≤ c → (d.take k).sum ≤ ε * ε)) := by
  unfold cutoffIndex at h
  split at h
  · rename_i hpos
    refine ⟨hpos, ?_⟩
    simp only [Option.some.injEq] at h
    have h0 : (0 : α) ≤ ε * ε := le_of_lt (mul_pos hpos hpos)
    rcases scan_spec (ε * ε) d 0 0 h0 with ⟨hc, hall⟩ | ⟨j, hj, hc, hex, hall⟩
    · left
      exact ⟨by rw [← h, hc], fun k => by simpa using hall k⟩
    · right
      have : c = j := by rw [← h, hc]; omega
      subst this
      exact ⟨hj, by simpa using hex, fun k hk => by simpa using hall k hk⟩
  · exact absurd h (by simp)

/-- **Discarded weight ≤ ε²** — and so is every shorter prefix. No hypothesis on the signs of `d`
(tiny negative eigenvalues from rounding are covered). -/
theorem cutoff_prefixes_within {d : List α} {ε : α} {c : Nat} (h : cutoffIndex d ε = some c) :
    ∀ k, k ≤ c → (d.take k).sum ≤ ε * ε := by
  obtain ⟨_, ⟨hc, hall⟩ | ⟨_, _, hall⟩⟩ := cutoff_spec h
  · exact fun k _ => hall k
  · exact hall

theorem discarded_weight_le {d : List α} {ε : α} {c : Nat} (h : cutoffIndex d ε = some c) :
    discardedWeight d c ≤ ε * ε := by
  unfold discardedWeight
  rw [total_eq_sum]
  exact cutoff_prefixes_within h c (Nat.le_refl c)

/-- **Maximality, exactly as the code has it**: either the prefix one longer is strictly above ε²
(the loop returned at the first inclusive prefix sum `> ε²`), or no prefix at all is above ε² and
the function falls through to `return 0`. -/
theorem cutoff_first_exceeding {d : List α} {ε : α} {c : Nat} (h : cutoffIndex d ε = some c) :
    (c < d.length ∧ ε * ε < (d.take (c + 1)).sum) ∨ (c = 0 ∧ ∀ k, (d.take k).sum ≤ ε * ε) := by
  obtain ⟨_, ⟨hc, hall⟩ | ⟨hl, hex, _⟩⟩ := cutoff_spec h
  · exact Or.inr ⟨hc, hall⟩
  · exact Or.inl ⟨hl, hex⟩

/-- For a non-negative spectrum whose total weight exceeds ε², the discarded prefix is the
**longest** prefix of weight ≤ ε². -/
theorem cutoff_longest_prefix {d : List α} {ε : α} {c : Nat} (hd : ∀ x ∈ d, 0 ≤ x)
    (h : cutoffIndex d ε = some c) (hbig : ε * ε < d.sum) :
    c < d.length ∧ ∀ k, k ≤ d.length → ((d.take k).sum ≤ ε * ε ↔ k ≤ c) := by
  rcases cutoff_first_exceeding h with ⟨hl, hex⟩ | ⟨_, hall⟩
  · refine ⟨hl, fun k _ => ⟨fun hk => ?_, cutoff_prefixes_within h k⟩⟩
    by_contra hkc
    have : (d.take (c + 1)).sum ≤ (d.take k).sum := take_sum_mono hd (by omega)
    exact absurd (lt_of_lt_of_le hex (le_trans this hk)) (lt_irrefl _)
  · have := hall d.length
    rw [List.take_length] at this
    exact absurd (lt_of_lt_of_le hbig this) (lt_irrefl _)

/-- **Everything below threshold**: if the whole (non-negative) spectrum weighs ≤ ε² the answer is 0,
i.e. `q[:, 0:]` — nothing is discarded, although discarding all but one column would be allowed. -/
theorem cutoff_all_below_keeps_everything {d : List α} {ε : α} (hd : ∀ x ∈ d, 0 ≤ x) (hε : 0 < ε)
    (hsmall : d.sum ≤ ε * ε) : cutoffIndex d ε = some 0 := by
  obtain ⟨c, hc⟩ := cutoff_accepts_positive d hε
  rcases cutoff_first_exceeding hc with ⟨_, hex⟩ | ⟨h0, _⟩
  · exact absurd (lt_of_lt_of_le hex (le_trans (take_sum_le_total hd _) hsmall)) (lt_irrefl _)
  · rw [hc, h0]

theorem cutoff_lt_length {d : List α} {ε : α} {c : Nat} (h : cutoffIndex d ε = some c) (hne : d ≠ []) :
    c < d.length := by
  rcases cutoff_first_exceeding h with ⟨hl, _⟩ | ⟨h0, _⟩
  · exact hl
  · rw [h0]; exact List.length_pos_of_ne_nil hne

/-! ## B. rank logic of `split_matrix` / bonds of `truncate_impl` -/

/-- **1 ≤ kept ≤ max_rank**, `kept = min(len − cut, max_rank)`, and `q[:, max_bond:]` has `kept` columns. -/
theorem kept_rank_bounds {d : List α} {ε : α} {maxRank : Int} {ocr pn : Bool} {p : Plan}
    (h : splitPlan d ε maxRank ocr pn = some p) (hne : d ≠ []) (hr : 1 ≤ maxRank) :
    1 ≤ p.kept ∧ (p.kept : Int) ≤ maxRank ∧ p.kept = min (d.length - p.cut) maxRank.toNat
      ∧ p.maxBond + p.kept = d.length ∧ p.cut ≤ p.maxBond := by
  unfold splitPlan at h
  cases hc : cutoffIndex d ε with
  | none => rw [hc] at h; exact absurd h (by simp)
  | some c =>
    rw [hc] at h
    simp only [Option.some.injEq] at h
    subst h
    have hlt := cutoff_lt_length hc hne
    simp only
    rw [keptRank_eq_min _ _ _ (by omega) (by omega), maxBond_eq]
    omega

/-- **Unless the cap binds, the discarded weight is ≤ precision²** (then `max_bond = cut`). -/
theorem discarded_within_precision_unless_cap_binds {d : List α} {ε : α} {maxRank : Int} {ocr pn : Bool}
    {p : Plan} (h : splitPlan d ε maxRank ocr pn = some p)
    (hcap : capBinds p.cut d.length maxRank = false) :
    p.maxBond = p.cut ∧ discardedWeight d p.maxBond ≤ ε * ε := by
  unfold splitPlan at h
  cases hc : cutoffIndex d ε with
  | none => rw [hc] at h; exact absurd h (by simp)
  | some c =>
    rw [hc] at h
    simp only [Option.some.injEq] at h
    subst h
    simp only at hcap ⊢
    have hnb : ¬ ((c : Int) < (d.length : Int) - maxRank) := by
      intro hlt
      rw [(capBinds_iff _ _ _).mpr hlt] at hcap
      exact absurd hcap (by simp)
    have hmb : (maxBond c d.length maxRank).toNat = c := by
      rw [maxBond_eq]; omega
    rw [hmb]
    exact ⟨rfl, discarded_weight_le hc⟩

/-- When the cap binds, exactly `max_rank` columns are kept (more is discarded than ε² asks for). -/
theorem cap_binds_kept_eq {d : List α} {ε : α} {maxRank : Int} {ocr pn : Bool} {p : Plan}
    (h : splitPlan d ε maxRank ocr pn = some p) (hr : 0 ≤ maxRank)
    (hcap : capBinds p.cut d.length maxRank = true) : (p.kept : Int) = maxRank ∧ p.cut < p.maxBond := by
  unfold splitPlan at h
  cases hc : cutoffIndex d ε with
  | none => rw [hc] at h; exact absurd h (by simp)
  | some c =>
    rw [hc] at h
    simp only [Option.some.injEq] at h
    subst h
    simp only at hcap ⊢
    have := (capBinds_iff _ _ _).mp hcap
    unfold keptRank
    rw [maxBond_eq]
    omega

/-- `preserve_norm`: the rescaled kept weight is the old total weight (whenever the division is defined). -/
theorem preserve_norm_restores_weight (d : List α) (mb : Nat) (h : keptWeight d mb ≠ 0) :
    normFactorSq d mb * keptWeight d mb = total d := by
  unfold normFactorSq
  field_simp

/-- **No bond exceeds the cap after `truncate_impl`** (and none collapses to 0), for every number of
sites and every recorded spectrum. -/
theorem sweep_bonds_within_cap {ε : α} {cap : Int} (hcap : 1 ≤ cap) :
    ∀ (ds : List (List α)) (bs : List Nat), (∀ d ∈ ds, d ≠ []) → sweepBonds ε cap ds = some bs →
      bs.length = ds.length ∧ ∀ b ∈ bs, 1 ≤ b ∧ (b : Int) ≤ cap
  | [], bs, _, h => by
    simp only [sweepBonds, Option.some.injEq] at h
    subst h
    simp
  | d :: ds, bs, hne, h => by
    unfold sweepBonds at h
    cases hc : cutoffIndex d ε with
    | none => rw [hc] at h; exact absurd h (by simp)
    | some c =>
      cases hr : sweepBonds ε cap ds with
      | none => rw [hc, hr] at h; exact absurd h (by simp)
      | some rest =>
        rw [hc, hr] at h
        simp only [Option.some.injEq] at h
        subst h
        obtain ⟨hl, hb⟩ := sweep_bonds_within_cap hcap ds rest (fun x hx => hne x (List.mem_cons_of_mem _ hx)) hr
        have hlt := cutoff_lt_length hc (hne d List.mem_cons_self)
        refine ⟨by simp [hl], ?_⟩
        intro b hbm
        rcases List.mem_cons.mp hbm with hb0 | hb1
        · subst hb0
          rw [keptRank_eq_min _ _ _ (by omega) (by omega)]
          omega
        · exact hb b hb1

end cutoff

/-! ## C. what the split does to the matrix, given the `eigh` contract -/
section matrix
open Matrix EmuVerif.CutoffMatrix
variable {R : Type} [CommRing R] [StarRing R]
variable {m : Type} [Fintype m] [DecidableEq m]

/-- The kept factor (`left` for `orth_center_right=True`, `right†` otherwise) is an isometry. -/
theorem kept_factor_isometry {mb k : Nat} {G : Matrix (Fin (mb + k)) (Fin (mb + k)) R}
    {d : Fin (mb + k) → R} {Q : Matrix (Fin (mb + k)) (Fin (mb + k)) R} (h : EighContract G d Q) :
    (Q.submatrix id (Fin.natAdd mb : Fin k → Fin (mb + k)))ᴴ * Q.submatrix id (Fin.natAdd mb) = 1 :=
  kept_isometry h.unitary _ (natAdd_injective mb k)

/-- **Discarded weight = squared Frobenius error**, both branches of `split_matrix`:
`‖M − left·right‖_F² = Σ_{i < max_bond} d_i` where `left·right = M Q_k Q_k†` (`orth_center_right =
False`, `G = M†M`) or `Q_k Q_k† M` (`True`, `G = M M†`) and `Q_k = q[:, max_bond:]`. -/
theorem split_error_eq_discarded_weight {mb k : Nat} (d : Fin (mb + k) → R)
    (Q : Matrix (Fin (mb + k)) (Fin (mb + k)) R) :
    (∀ (M : Matrix m (Fin (mb + k)) R), EighContract (Mᴴ * M) d Q →
      ((M - M * Q.submatrix id (Fin.natAdd mb) * (Q.submatrix id (Fin.natAdd mb : Fin k → _))ᴴ)ᴴ *
        (M - M * Q.submatrix id (Fin.natAdd mb) * (Q.submatrix id (Fin.natAdd mb : Fin k → _))ᴴ)).trace
        = ∑ i : Fin mb, d (Fin.castAdd k i)) ∧
    (∀ (M : Matrix (Fin (mb + k)) m R), EighContract (M * Mᴴ) d Q →
      ((M - Q.submatrix id (Fin.natAdd mb) * ((Q.submatrix id (Fin.natAdd mb : Fin k → _))ᴴ * M)) *
        (M - Q.submatrix id (Fin.natAdd mb) * ((Q.submatrix id (Fin.natAdd mb : Fin k → _))ᴴ * M))ᴴ).trace
        = ∑ i : Fin mb, d (Fin.castAdd k i)) := by
  constructor
  · intro M h
    rw [frob_error_right M d Q h _ (natAdd_injective mb k), discarded_is_prefix]
  · intro M h
    rw [frob_error_left M d Q h _ (natAdd_injective mb k), discarded_is_prefix]

/-- The sum over the discarded indices is the list prefix sum that `_determine_cutoff_index` bounds. -/
theorem discarded_prefix_as_list {mb k : Nat} (d : Fin (mb + k) → R) :
    ((List.ofFn d).take mb).sum = ∑ i : Fin mb, d (Fin.castAdd k i) := by
  rw [List.ofFn_add, List.take_left' (by simp), List.sum_ofFn]
  rfl

end matrix

/-! ## D. history invariant of the orthogonality-flag machine -/
section canon
open EmuVerif.Canon

/-- The DMRG step writes `orthogonality_center` without asserting where it was; every other
transition either asserts or re-orthogonalises. -/
def guardOK (s : St) : Op → Prop
  | .dmrgPair l _ => s.centre = some l ∨ s.centre = some (l + 1)
  | _ => True

/-- Every DMRG step of the history meets its guard in the state it is executed in. -/
def Guarded : St → List Op → Prop
  | _, [] => True
  | s, op :: ops => guardOK s op ∧ ∀ s', step s op = some s' → Guarded s' ops

def noDmrg : Op → Bool
  | .dmrgPair _ _ => false
  | _ => true

/-- **One step** from *any* state satisfying the invariant (reachable or not). -/
theorem step_preserves_invariant {s s' : St} (op : Op) (hi : Inv s) (hg : guardOK s op)
    (h : step s op = some s') : Inv s' ∧ s'.n = s.n := by
  cases op with
  | orthogonalize k => obtain ⟨a, b, _⟩ := orthogonalize_inv hi h; exact ⟨a, b⟩
  | truncate => obtain ⟨a, b, _⟩ := truncate_inv hi h; exact ⟨a, b⟩
  | add => obtain ⟨a, b, _⟩ := truncate_inv (fresh_inv hi.pos) h; exact ⟨a, b⟩
  | scale =>
    simp only [step, Option.some.injEq] at h
    subst h
    exact ⟨(scale_inv hi).1, rfl⟩
  | apply k => obtain ⟨a, b, _⟩ := applyOp_inv hi h; exact ⟨a, b⟩
  | applyTo =>
    simp only [step, Option.some.injEq] at h
    subst h
    exact ⟨applyTo_inv hi, rfl⟩
  | expectBatch => exact ensureCentre_inv hi h
  | norm => exact ensureCentre_inv hi h
  | inner =>
    simp only [step, Option.some.injEq] at h
    subst h
    exact ⟨hi, rfl⟩
  | correlation => exact corrLoop_inv _ _ hi h
  | sample => obtain ⟨a, b, _⟩ := orthogonalize_inv hi h; exact ⟨a, b⟩
  | entropy k =>
    simp only [step] at h
    cases ho : orthogonalize s k with
    | none => rw [ho] at h; exact absurd h (by simp)
    | some s1 =>
      rw [ho] at h
      obtain ⟨a1, b1, _⟩ := orthogonalize_inv hi ho
      obtain ⟨a, b, _⟩ := orthogonalize_inv a1 h
      exact ⟨a, by rw [b, b1]⟩
  | evolveSingle i =>
    simp only [step] at h
    split at h
    · rename_i hc
      simp only [Option.some.injEq] at h
      subst h
      exact ⟨upd_centre_inv _ hi hc.1, rfl⟩
    · exact absurd h (by simp)
  | evolvePair l ocr =>
    simp only [step] at h
    split at h
    · rename_i hc
      simp only [Option.some.injEq] at h
      subst h
      exact pairWrite_inv ocr hi hc.1 hc.2
    · exact absurd h (by simp)
  | dmrgPair l ocr =>
    simp only [step] at h
    split at h
    · rename_i hc
      simp only [Option.some.injEq] at h
      subst h
      exact pairWrite_inv ocr hi hg hc
    · exact absurd h (by simp)
  | jump k =>
    simp only [step] at h
    cases ha : applyOp s k with
    | none => rw [ha] at h; exact absurd h (by simp)
    | some s1 =>
      rw [ha] at h
      dsimp only at h
      obtain ⟨a1, b1, _⟩ := applyOp_inv hi ha
      cases ho : orthogonalize s1 0 with
      | none => rw [ho] at h; exact absurd h (by simp)
      | some s2 =>
        rw [ho] at h
        simp only [Option.some.injEq] at h
        subst h
        obtain ⟨a2, b2, _⟩ := orthogonalize_inv a1 ho
        exact ⟨(scale_inv a2).1, by show s2.n = s.n; rw [b2, b1]⟩

/-- **History invariant**: for every operation list, by induction. -/
theorem history_invariant : ∀ (ops : List Op) (s s' : St), Inv s → Guarded s ops →
    run s ops = some s' → Inv s' ∧ s'.n = s.n
  | [], s, s', hi, _, h => by
    simp only [run, Option.some.injEq] at h
    subst h
    exact ⟨hi, rfl⟩
  | op :: ops, s, s', hi, hg, h => by
    unfold run at h
    cases hs : step s op with
    | none => rw [hs] at h; exact absurd h (by simp)
    | some s1 =>
      rw [hs] at h
      obtain ⟨hi1, hn1⟩ := step_preserves_invariant op hi hg.1 hs
      obtain ⟨a, b⟩ := history_invariant ops s1 s' hi1 (hg.2 s1 hs) h
      exact ⟨a, by rw [b, hn1]⟩

theorem guarded_of_noDmrg : ∀ (ops : List Op) (s : St), (∀ op ∈ ops, noDmrg op = true) → Guarded s ops
  | [], _, _ => trivial
  | op :: ops, s, h => by
    refine ⟨?_, fun s' _ => guarded_of_noDmrg ops s' (fun o ho => h o (List.mem_cons_of_mem _ ho))⟩
    have := h op List.mem_cons_self
    cases op <;> trivial

/-- Histories of public `MPS` operations and asserting `_evolve` steps need no guard, from
`MPS.make(n)` or from a fresh `MPS(factors, orthogonality_center=None)`. -/
theorem history_invariant_public {n : Nat} (hn : 0 < n) (ops : List Op) (hops : ∀ op ∈ ops, noDmrg op = true)
    (s' : St) : (run (make n) ops = some s' → Inv s') ∧ (run (fresh n) ops = some s' → Inv s') :=
  ⟨fun h => (history_invariant ops _ _ (make_inv hn) (guarded_of_noDmrg ops _ hops) h).1,
   fun h => (history_invariant ops _ _ (fresh_inv hn) (guarded_of_noDmrg ops _ hops) h).1⟩

/-- The invariant, spelled out on the final state of a history from a fresh MPS. -/
theorem declared_centre_backed {n : Nat} (hn : 0 < n) (ops : List Op) (hops : ∀ op ∈ ops, noDmrg op = true)
    {s' : St} (h : run (fresh n) ops = some s') {c : Nat} (hc : s'.centre = some c) :
    c < n ∧ (∀ j, j < c → (s'.flags j).isL = true) ∧ (∀ j, c < j → j < n → (s'.flags j).isR = true) := by
  obtain ⟨hi, hn'⟩ := history_invariant ops _ _ (fresh_inv hn) (guarded_of_noDmrg ops _ hops) h
  have := hi.ctr c hc
  rw [hn'] at this
  exact this

/-- The state `0:URRR` (what `orthogonalize(0)` leaves of a fresh 4-site MPS). -/
def cexState : St := { n := 4, flags := fun j => if j = 0 then Flag.U else Flag.R, centre := some 0 }

/-- Without its guard the DMRG write breaks the invariant: from centre 0, `dmrgPair 2 true` declares
centre 3 while factor 0 is still unflagged. (The real DMRG schedule never does this; the point is
that nothing in `DMRGBackendImpl.progress` checks it.) -/
theorem dmrg_unguarded_counterexample :
    Inv cexState ∧ ∃ s', step cexState (.dmrgPair 2 true) = some s' ∧ ¬ Inv s' := by
  refine ⟨⟨by decide, ?_⟩, ?_⟩
  · intro c hc
    simp only [cexState, Option.some.injEq] at hc
    subst hc
    refine ⟨by decide, fun j hj => absurd hj (by omega), ?_⟩
    intro j hj _
    simp only [cexState]
    rw [if_neg (by omega)]
    rfl
  · refine ⟨pairWrite cexState 2 true, by simp [step, cexState], ?_⟩
    intro hi
    have := (hi.ctr 3 rfl).2.1 0 (by omega)
    revert this
    decide

end canon

/-! ## E. norm = norm of the centre tensor -/
section norm
open Matrix EmuVerif.Isometry
variable {R : Type} [CommRing R] [StarRing R] {D : Type} [Fintype D] [DecidableEq D]

/-- In mixed-canonical form (sites left of the centre left-orthonormal, right of it right-orthonormal —
any number of them) the squared norm of the state is the squared Frobenius norm of the centre tensor. -/
theorem norm_eq_centre_norm {P B B' P' : Type} [Fintype P] [DecidableEq P] [Fintype B] [DecidableEq B]
    [Fintype B'] [DecidableEq B'] [Fintype P'] [DecidableEq P']
    {U : Matrix P B R} {V : Matrix B' P' R} (hU : LeftChain R D P B U) (hV : RightChain R D B' P' V)
    (C : Matrix (B × D) B' R) :
    frob2 (kronOne D U * C * V) = frob2 C :=
  norm_eq_centre hU hV C

end norm

/-! ## Non-vacuity: concrete instances of the hypotheses -/
section examples
open EmuVerif.Canon Matrix EmuVerif.Isometry

/-- a tie exactly at ε²: prefix sums 1/8, 1/4 (= ε², not above), 3/8 → index 2 -/
example : cutoffIndex [(1 : ℚ) / 8, 1 / 8, 1 / 8] (1 / 2) = some 2 := by decide +kernel
/-- a tiny negative eigenvalue first -/
example : cutoffIndex [(-1 : ℚ) / 1000, 1 / 8, 1 / 4] (1 / 2) = some 2 := by decide +kernel
/-- everything below threshold → 0 (nothing discarded) -/
example : cutoffIndex [(1 : ℚ) / 100, 1 / 100] (1 / 2) = some 0 := by decide +kernel
example : cutoffIndex [(1 : ℚ)] 0 = none := by decide +kernel
/-- hypotheses of `cutoff_longest_prefix` -/
example : (∀ x ∈ [(1 : ℚ) / 8, 1 / 8, 1 / 8], 0 ≤ x) ∧ (1 / 2 : ℚ) * (1 / 2) < [(1 : ℚ) / 8, 1 / 8, 1 / 8].sum := by
  constructor
  · intro x hx; simp at hx; subst hx; norm_num
  · norm_num
/-- a plan where the cap binds (kept = 2 = max_rank, cut = 0 < max_bond = 1) and one where it does not -/
example : splitPlan [(1 : ℚ), 1, 1] (1 / 2) 2 true false
    = some { cut := 0, maxBond := 1, kept := 2, iso := Side.left, rescaled := false } := by decide +kernel
example : splitPlan [(1 : ℚ) / 100, 1, 1] (1 / 2) 8 false true
    = some { cut := 1, maxBond := 1, kept := 2, iso := Side.right, rescaled := true } := by decide +kernel
example : sweepBonds (1 / 2 : ℚ) 2 [[1, 1, 1], [1 / 100, 1]] = some [2, 1] := by decide +kernel
/-- the eigh contract is satisfiable: `G = diag d`, `Q = 1` -/
example : EmuVerif.CutoffMatrix.EighContract (Matrix.diagonal ![(1 : ℚ), 2]) ![1, 2] (1 : Matrix (Fin 2) (Fin 2) ℚ) :=
  ⟨by simp, by simp⟩
/-- a two-site left chain exists -/
example : LeftChain ℚ (Fin 2) ((Unit × Fin 2)) (Unit × Fin 2)
    (kronOne (Fin 2) (1 : Matrix Unit Unit ℚ) * (1 : Matrix (Unit × Fin 2) (Unit × Fin 2) ℚ)) :=
  LeftChain.snoc _ _ LeftChain.nil (by simp)
/-- a history that succeeds and one on which Python raises -/
example : (run (fresh 5) [.orthogonalize 2, .truncate, .add, .scale, .apply 3, .correlation, .entropy 1,
    .evolvePair 0 true, .evolveSingle 1, .jump 4]).isSome = true := by decide
example : (run (fresh 5) [.orthogonalize 5]).isSome = false := by decide
example : (run (make 3) [.evolveSingle 1]).isSome = false := by decide
example : Guarded cexState [.dmrgPair 0 true, .dmrgPair 1 true] := by
  refine ⟨Or.inl rfl, fun s' h => ⟨?_, fun _ _ => trivial⟩⟩
  rw [show step cexState (.dmrgPair 0 true) = some (pairWrite cexState 0 true) from rfl] at h
  injection h with h
  subst h
  exact Or.inl rfl

end examples

end EmuVerif.Props.C10
