/-
  C10, the bridge — "a factor flagged `L` really is a left isometry".

  `Props/C10.lean` proves (D) the history invariant of the orthogonality-*flag* machine `Model/Canon.lean` and
  (E) `norm_eq_centre_norm` for abstract chains of isometries; what joined them was an assumption.  This file
  proves the junction, for the actual factor tensors of `Model/Tensor.lean` / `Model/CanonOps.lean` (every number
  of sites, every bond-dimension sequence, every physical dimension; scalars: any commutative *-ring), given
  only the two kernel contracts the harness validates on every recorded call:

    QR    `qᴴ q = 1` (`LrIso` / `RlIso`)  and  `q · r = m` (`LrOk` / `RlOk` of C11);
    eigh  `EighContract G d Q` of `Proofs/CutoffMatrix.lean` (used through `kept_factor_isometry`: `SplitIso`).

  1. one step:  `lr_step_bridge`, `rl_step_bridge` (QR step of `orthogonalize`: the processed factor is a
     left/right isometry, every amplitude is unchanged, every other factor is literally untouched),
     `trunc_step_bridge` (one `split_matrix` step of `truncate_impl`), `left_iso_is_leftchain_hypothesis` /
     `right_iso_is_rightchain_hypothesis` (`LeftIso`/`RightIso` are exactly `Aᴴ A = 1` / `A Aᴴ = 1` of
     `Isometry.LeftChain.snoc` / `RightChain.cons`), `split_iso_of_eigh_contract` (+ `split_of_eigh_contract` with the
     rank decision of `Model/Cutoff.splitPlan`).
  2. sweeps:  `orthogonalize_canonical` (from ANY chain whose declared centre — if any — is true: after
     `orthogonalize(k)` factors `0..k−1` are left isometries, `k+1..n−1` right isometries), `orthogonalize_amp_norm`
     (the state is unchanged and ‖ψ‖² = ‖factor k‖_F²), `canonical_norm` (mixed-canonical ⇒ `inner(self,self)` =
     Σ_s |amp s|² = ‖centre‖_F²: the concrete counterpart of `norm_eq_centre_norm`), `canonical_is_isometry_chain`
     (the prefix / tail of a canonical factor list ARE a `LeftChain` / `RightChain`, so `norm_eq_centre_norm`
     itself applies and gives the same `frobSite`), `truncate_canonical`
     (`truncate()` leaves the chain canonical around the centre it declares, 0), `truncate_bonds_within_cap`
     (kept ranks from `Cutoff.sweepBonds` ⇒ every new bond is in `[1, max_bond_dim]`).
  3. histories:  `step_bridge`, `history_bridge` (the tensor machine refines the flag machine: along every
     history, every flag is true of its factor and the invariant holds), `declared_centre_true`,
     `declared_centre_norm` (whenever the declared centre is `some c`: actual factors left of `c` are left
     isometries, right of `c` right isometries, and norm² = ‖factor c‖_F²), `regauging_step_amp`.

  Covered at tensor level: `orthogonalize`, `truncate`, `+`, scalar `*`, `apply`, `MPO.apply_to`, `norm`,
  `expect_batch`, `inner`/`overlap`/`get_max_bond_dim`, `get_correlation_matrix` (centre walk), `sample` (centre
  move), `entanglement_entropy` (centre moves), and the composite `do_random_quantum_jump`.
  NOT covered at tensor level (flag-level statement of `Props/C10.lean` only): the back-end writes
  `_evolve` (TDVP, `evolveSingle`/`evolvePair`) and `DMRGBackendImpl.progress` (`dmrgPair`) — their two-site
  update is a Krylov/eigensolver result followed by `split_matrix`, not modelled here.
  Still assumed: the kernel contracts themselves (validated numerically on every run), binary64 rounding,
  and the correspondence model ↔ code (checked, exact on Gaussian integers / 1e-10 on recorded tapes).
-/
import EmuVerif.Props.C10
import EmuVerif.Props.C11
import EmuVerif.Proofs.CanonBridgeHist
import EmuVerif.Proofs.CanonBridgeMatrix
import EmuVerif.Proofs.CanonBridgeChain

set_option linter.unusedSectionVars false
set_option linter.unusedVariables false

namespace EmuVerif.Props.C10Bridge
open EmuVerif EmuVerif.Tensor EmuVerif.CanonOps EmuVerif.CanonBridge EmuVerif.Canon Finset

variable {K : Type} [CommRing K] [StarRing K]

/-! ## 1. one step -/

/-- **Left-to-right QR step of `orthogonalize`** (`factor ← q`, `next ← r·next`) under the QR contract
`q·r = m`, `qᴴq = 1`: the processed factor is a left isometry, every amplitude of the chain is unchanged, and
no other factor is touched (so isometries already established elsewhere survive). -/
theorem lr_step_bridge (fs : List (Site K)) (i : Nat) (f : QRl K) (A B : Site K) (hA : fs[i]? = some A)
    (hB : fs[i + 1]? = some B) (hqr : LrOk f A B) (hiso : LrIso f A) :
    (∃ A', (setPair fs i (lrStep f A B))[i]? = some A' ∧ LeftIso A') ∧
      (∀ s, amp (setPair fs i (lrStep f A B)) s = amp fs s) ∧
      (∀ j, j ≠ i → j ≠ i + 1 → (setPair fs i (lrStep f A B))[j]? = fs[j]?) :=
  ⟨⟨_, setPair_fst fs i _ (lt_length_of_getElem? hA), leftIso_lrStep f A B hiso⟩,
   fun s => Props.C11.regauge_amp fs i A B _ _ hA hB (pairEq_lrStep f A B hqr) s,
   fun j h1 h2 => setPair_other fs i j _ h1 h2⟩

/-- **Right-to-left QR step** (`factor ← qᵀ`, `previous ← previous·rᵀ`): mirror image. -/
theorem rl_step_bridge (fs : List (Site K)) (i : Nat) (f : QRr K) (A B : Site K) (hA : fs[i]? = some A)
    (hB : fs[i + 1]? = some B) (hqr : RlOk f A B) (hiso : RlIso f B) :
    (∃ B', (setPair fs i (rlStep f A B))[i + 1]? = some B' ∧ RightIso B') ∧
      (∀ s, amp (setPair fs i (rlStep f A B)) s = amp fs s) ∧
      (∀ j, j ≠ i → j ≠ i + 1 → (setPair fs i (rlStep f A B))[j]? = fs[j]?) :=
  ⟨⟨_, setPair_snd fs i _ (lt_length_of_getElem? hB), rightIso_rlStep f A B hiso⟩,
   fun s => Props.C11.regauge_amp fs i A B _ _ hA hB (pairEq_rlStep f A B hqr) s,
   fun j h1 h2 => setPair_other fs i j _ h1 h2⟩

/-- **One `split_matrix` step of `truncate_impl`**: the new factor `q_kᴴ` is a right isometry (given that the
kept eigenvector block is an isometry), and no other factor but its left neighbour is touched. -/
theorem trunc_step_bridge (fs : List (Site K)) (i : Nat) (g : Split K) (A B : Site K) (hA : fs[i]? = some A)
    (hB : fs[i + 1]? = some B) (hiso : SplitIso g B) :
    (∃ B', (setPair fs i (truncStep g A B))[i + 1]? = some B' ∧ RightIso B' ∧ B'.dl = g.k) ∧
      (∀ j, j ≠ i → j ≠ i + 1 → (setPair fs i (truncStep g A B))[j]? = fs[j]?) :=
  ⟨⟨_, setPair_snd fs i _ (lt_length_of_getElem? hB), rightIso_truncStep g A B hiso, by simp [truncStep]⟩,
   fun j h1 h2 => setPair_other fs i j _ h1 h2⟩

/-- `LeftIso A` is literally the hypothesis `Aᴴ * A = 1` of `Isometry.LeftChain.snoc` for the matrix
`A.view(χl·d, χr)`. -/
theorem left_iso_is_leftchain_hypothesis (A : Site K) :
    LeftIso A ↔ (leftMat A).conjTranspose * leftMat A = 1 := leftIso_iff_matrix A

/-- `RightIso A` is literally the hypothesis `A * Aᴴ = 1` of `Isometry.RightChain.cons`. -/
theorem right_iso_is_rightchain_hypothesis (A : Site K) :
    RightIso A ↔ rightMat A * (rightMat A).conjTranspose = 1 := rightIso_iff_matrix A

/-- **The eigh contract gives the split contract**: if `(d, Q)` satisfies `EighContract` for the Gram matrix of
the flattened factor (`mb + k = d·χr` rows), the kept block `q[:, mb:]` satisfies `SplitIso`
(through `Props.C10.kept_factor_isometry`). -/
theorem split_iso_of_eigh_contract {mb k : Nat} (B : Site K) (hlen : mb + k = B.d * B.dr)
    (q : Nat → Nat → Nat → K) (G : Matrix (Fin (mb + k)) (Fin (mb + k)) K) (dv : Fin (mb + k) → K)
    (h : CutoffMatrix.EighContract G dv (flatQ (mb + k) B.dr q)) : SplitIso (keptBlock mb k q) B :=
  splitIso_of_kept_isometry B hlen q (Props.C10.kept_factor_isometry h)

/-- The same with the rank decision of `split_matrix` (`Model/Cutoff.splitPlan` on the recorded spectrum):
whatever `max_bond` the cutoff logic chooses, the block it keeps is an isometry. -/
theorem split_of_eigh_contract {β : Type} [Field β] [LinearOrder β] [IsStrictOrderedRing β]
    (B : Site K) (ε : β) (cap : Int) (ds : List β) (q : Nat → Nat → Nat → K) (g : Split K)
    (hg : splitOf ε cap ds q = some g) (hlen : ds.length = B.d * B.dr) (hne : ds ≠ []) (hcap : 1 ≤ cap)
    (G : Matrix (Fin ds.length) (Fin ds.length) K) (dv : Fin ds.length → K)
    (h : CutoffMatrix.EighContract G dv (flatQ ds.length B.dr q)) :
    SplitIso g B ∧ 1 ≤ g.k ∧ (g.k : Int) ≤ cap := by
  unfold splitOf at hg
  split at hg
  · exact absurd hg (by simp)
  · rename_i p hp
    simp only [Option.some.injEq] at hg
    subst hg
    obtain ⟨k1, k2, _, k4, _⟩ := Props.C10.kept_rank_bounds hp hne hcap
    refine ⟨?_, k1, k2⟩
    have hsum : p.maxBond + p.kept = B.d * B.dr := by rw [k4, hlen]
    -- transport the contract along `ds.length = maxBond + kept`
    have key : ∀ (n : Nat) (e : n = p.maxBond + p.kept) (G' : Matrix (Fin n) (Fin n) K) (dv' : Fin n → K),
        CutoffMatrix.EighContract G' dv' (flatQ n B.dr q) → SplitIso (keptBlock p.maxBond p.kept q) B := by
      intro n e
      subst e
      intro G' dv' h'
      exact split_iso_of_eigh_contract B hsum q G' dv' h'
    exact key ds.length k4.symm G dv h

/-! ## 2. sweeps -/

/-- **`orthogonalize(k)` establishes the canonical form it declares**, from any starting chain: if the old
declared centre (when there is one) was true, then after the two loops factors `0..k−1` are left isometries and
`k+1..n−1` right isometries.  With `center = none` there is no hypothesis on the chain at all. -/
theorem orthogonalize_canonical (fs fs' : List (Site K)) (center : Option Nat) (k : Nat) (o : OTape K)
    (h : Tensor.orthogonalize fs center k o.lt o.rt = some fs') (hiso : OrthIso fs center k o)
    (hstart : ∀ c, center = some c → Canonical fs c) : Canonical fs' k := by
  have hne : 0 < fs.length := by
    unfold Tensor.orthogonalize at h
    split at h
    · exact absurd h (by simp)
    · omega
  obtain ⟨hs, hi⟩ := sem_of_canonical fs center hne hstart
  have ho : orth ({ fs := fs, centre := center } : TSt K) k o = some { fs := fs', centre := some k } := by
    simp only [orth, h]
  obtain ⟨s', e, hs'⟩ := orth_sem hs hiso ho
  obtain ⟨hi', _, _⟩ := Canon.orthogonalize_inv hi e
  exact canonical_of_sem hs' hi' rfl

/-- **Mixed-canonical form ⇒ norm² = ‖centre tensor‖_F²** for an actual factor list: what `MPS.inner(self,
self)` computes, and the dense `Σ_s |amp s|²`, both equal `frobSite` of the centre factor (the square of
`factors[c].norm()`, what `MPS.norm` returns).  Concrete counterpart of `Props.C10.norm_eq_centre_norm`. -/
theorem canonical_norm (d : Nat) (fs : List (Site K)) (c : Nat) (C : Site K) (hv : validChain d fs = true)
    (hcan : Canonical fs c) (hC : fs[c]? = some C) :
    inner fs fs = some (frobSite C) ∧
      sumStrings d fs.length (fun s => star (amp fs s) * amp fs s) = frobSite C := by
  have h1 := inner_canonical d fs c C hv hcan hC
  refine ⟨h1, ?_⟩
  have h2 := Props.C11.inner_eq_dense d fs fs hv hv rfl
  rw [h1] at h2
  exact (Option.some.inj h2).symm

/-- **`Props.C10.norm_eq_centre_norm` applies to an actual factor list in canonical form.**  The factors left of
the centre form an `Isometry.LeftChain` `U`, those right of it an `Isometry.RightChain` `V` (bundled, with the
enumerations that tie their bond index types to the `Nat`-indexed factors, in `LChain` / `RChain`); with the
centre factor as the matrix `centreMat`, theorem E of `Props/C10.lean` gives `‖(U ⊗ 1)·C·V‖_F² = ‖C‖_F²`, and
`‖C‖_F²` is `frobSite` of the centre factor. -/
theorem canonical_is_isometry_chain (d : Nat) (fs : List (Site K)) (c : Nat) (C : Site K)
    (hv : validChain d fs = true) (hcan : Canonical fs c) (hC : fs[c]? = some C) :
    ∃ (lc : LChain K d C.dl) (rc : RChain K d C.dr),
      Isometry.frob2 (Isometry.kronOne (Fin d) lc.U * centreMat lc.e rc.e C d * rc.V)
          = Isometry.frob2 (centreMat lc.e rc.e C d) ∧
        Isometry.frob2 (centreMat lc.e rc.e C d) = frobSite C := by
  obtain ⟨_, _, hw, h1, hd⟩ := validChain_spec d fs hv
  obtain ⟨hsplit, hL, hR⟩ := canonical_split fs c C hcan hC
  obtain ⟨lc, rc, _⟩ := canonical_chains d (fs.take c) C (fs.drop (c + 1)) hL hR (by rw [← hsplit]; exact hw)
    (by rw [← hsplit]; exact h1) (by rw [← hsplit]; exact hd)
  refine ⟨lc, rc, Props.C10.norm_eq_centre_norm lc.chain rc.chain _, ?_⟩
  rw [frobSite_eq]
  exact frob2_centreMat lc.e rc.e C d lc.enum rc.enum (hd C (List.mem_of_getElem? hC))

/-- **`orthogonalize(k)` from any valid chain**: the represented state is unchanged and its squared norm is the
squared Frobenius norm of factor `k`. -/
theorem orthogonalize_amp_norm (d : Nat) (fs fs' : List (Site K)) (center : Option Nat) (k : Nat) (o : OTape K)
    (h : Tensor.orthogonalize fs center k o.lt o.rt = some fs') (hiso : OrthIso fs center k o)
    (hqr : Props.C11.OrthOk fs center k o.lt o.rt) (hstart : ∀ c, center = some c → Canonical fs c)
    (hv : validChain d fs = true) :
    (∀ s, amp fs' s = amp fs s) ∧ validChain d fs' = true ∧
      ∃ C, fs'[k]? = some C ∧ inner fs' fs' = some (frobSite C) ∧
        sumStrings d fs.length (fun s => star (amp fs s) * amp fs s) = frobSite C := by
  have hamp := Props.C11.orthogonalize_amp fs fs' center k o.lt o.rt h hqr
  have hv' : validChain d fs' = true :=
    valid_of_shape d fs' (shape_orthogonalize d fs fs' center k o.lt o.rt h (shape_of_valid d fs hv))
  have hcan := orthogonalize_canonical fs fs' center k o h hiso hstart
  have hlen : fs'.length = fs.length := by
    have a := (shape_of_valid d fs' hv')
    obtain ⟨hs, _⟩ := sem_of_canonical fs center (by have := (shape_of_valid d fs hv).1; omega) hstart
    have ho : orth ({ fs := fs, centre := center } : TSt K) k o = some { fs := fs', centre := some k } := by
      simp only [orth, h]
    obtain ⟨s', e, hs'⟩ := orth_sem hs hiso ho
    obtain ⟨_, hn, _, _⟩ := Canon.orthogonalize_some e
    rw [hs'.len, hn]
  obtain ⟨C, hC⟩ : ∃ C, fs'[k]? = some C := ⟨fs'[k]'hcan.1, List.getElem?_eq_getElem hcan.1⟩
  obtain ⟨n1, n2⟩ := canonical_norm d fs' k C hv' hcan hC
  refine ⟨hamp, hv', C, hC, n1, ?_⟩
  rw [← n2, hlen]
  exact sumStrings_congr _ _ _ _ (fun s _ => by rw [hamp s])

/-- **`truncate()` leaves the chain in canonical form around the centre it declares (0)**, given the QR
contract for its `orthogonalize(n−1)` and the eigh contract (through `SplitIso`) for every `split_matrix` of the
sweep — from any chain whose declared centre, if any, was true. -/
theorem truncate_canonical (t t' : TSt K) (o : OTape K) (st : List (Split K)) (h : trunc t o st = some t')
    (hok : TruncOk t o st) (hstart : ∀ c, t.centre = some c → Canonical t.fs c) :
    t'.centre = some 0 ∧ Canonical t'.fs 0 := by
  have hne : 0 < t.fs.length := by
    by_contra hc
    have : t.fs = [] := List.eq_nil_of_length_eq_zero (by omega)
    simp [trunc, orth, Tensor.orthogonalize, this] at h
  obtain ⟨hs, hi⟩ := sem_of_canonical t.fs t.centre hne hstart
  obtain ⟨s', e, hs'⟩ := trunc_sem (t := t) hs hok h
  obtain ⟨hi', _, hc'⟩ := Canon.truncate_inv hi e
  have hc : t'.centre = some 0 := by rw [hs'.ctr]; exact hc'
  exact ⟨hc, canonical_of_sem hs' hi' hc⟩

/-- `truncate()` on a valid chain: valid chain, canonical around 0, norm² = ‖factor 0‖_F². -/
theorem truncate_norm (d : Nat) (t t' : TSt K) (o : OTape K) (st : List (Split K)) (h : trunc t o st = some t')
    (hok : TruncOk t o st) (hstart : ∀ c, t.centre = some c → Canonical t.fs c) (hv : validChain d t.fs = true) :
    validChain d t'.fs = true ∧ ∃ C, t'.fs[0]? = some C ∧ inner t'.fs t'.fs = some (frobSite C) := by
  obtain ⟨_, hcan⟩ := truncate_canonical t t' o st h hok hstart
  have hv' := valid_of_shape d t'.fs (trunc_shape d h (shape_of_valid d t.fs hv))
  obtain ⟨C, hC⟩ : ∃ C, t'.fs[0]? = some C := ⟨t'.fs[0]'hcan.1, List.getElem?_eq_getElem hcan.1⟩
  exact ⟨hv', C, hC, (canonical_norm d t'.fs 0 C hv' hcan hC).1⟩

/-- **No bond exceeds the cap after the tensor-level sweep**: if the ranks kept by the recorded splits are the
ones `Model/Cutoff.sweepBonds` computes from the recorded spectra, every bond written by `truncate_impl` is in
`[1, max_bond_dim]` (joins `Props.C10.sweep_bonds_within_cap` to the factor shapes). -/
theorem truncate_bonds_within_cap {β : Type} [Field β] [LinearOrder β] [IsStrictOrderedRing β]
    (fs fs' : List (Site K)) (st : List (Split K)) (ε : β) (cap : Int) (ds : List (List β))
    (h : CanonOps.truncateImpl fs st = some fs') (hks : Cutoff.sweepBonds ε cap ds = some (st.map (·.k)))
    (hne : ∀ d ∈ ds, d ≠ []) (hcap : 1 ≤ cap) :
    ∀ j, 0 < j → j < fs.length → ∃ X, fs'[j]? = some X ∧ 1 ≤ X.dl ∧ (X.dl : Int) ≤ cap := by
  intro j h0 hj
  obtain ⟨_, hb⟩ := Props.C10.sweep_bonds_within_cap hcap ds _ hne hks
  unfold CanonOps.truncateImpl at h
  obtain ⟨X, g, e1, e2, e3⟩ := truncSweep_bonds _ _ fs fs' st h (fs.length - 1 - j) (by omega)
  have hidx : fs.length - 1 - (fs.length - 1 - j) = j := by omega
  rw [hidx] at e1
  have hmem : g.k ∈ st.map (·.k) := List.mem_map.mpr ⟨g, List.mem_of_getElem? e2, rfl⟩
  obtain ⟨b1, b2⟩ := hb _ hmem
  exact ⟨X, e1, by rw [e3]; exact b1, by rw [e3]; exact b2⟩

/-! ## 3. histories -/

/-- every recorded kernel answer of the history satisfies its isometry contract, each in the state it was
recorded in -/
def HistIso : TSt K → List (TOp K) → Prop
  | _, [] => True
  | t, op :: ops => OpIso t op ∧ ∀ t', tstep t op = some t' → HistIso t' ops

theorem shadow_guard (s : St) (op : TOp K) : Props.C10.guardOK s (shadow op) := by
  cases op <;> trivial

/-- **One operation**: from `Sem`-related states satisfying the invariant, a tensor-level step that succeeds is
shadowed by a successful flag-level step; the new flags are true of the new factors and the invariant holds. -/
theorem step_bridge {s : St} {t t' : TSt K} (op : TOp K) (hs : Sem s t) (hi : Inv s) (hok : OpIso t op)
    (h : tstep t op = some t') : ∃ s', step s (shadow op) = some s' ∧ Sem s' t' ∧ Inv s' := by
  obtain ⟨s', e, hs'⟩ := tstep_sem op hs hok h
  exact ⟨s', e, hs', (Props.C10.step_preserves_invariant (shadow op) hi (shadow_guard s op) e).1⟩

/-- **Every history** (induction over the operation list): the tensor machine refines the flag machine. -/
theorem history_bridge : ∀ (ops : List (TOp K)) (s : St) (t t' : TSt K), Sem s t → Inv s → HistIso t ops →
    trun t ops = some t' → ∃ s', run s (ops.map shadow) = some s' ∧ Sem s' t' ∧ Inv s'
  | [], s, t, t', hs, hi, _, h => by
    simp only [trun, Option.some.injEq] at h
    subst h
    exact ⟨s, rfl, hs, hi⟩
  | op :: ops, s, t, t', hs, hi, hok, h => by
    simp only [trun] at h
    split at h
    · exact absurd h (by simp)
    · rename_i t1 h1
      obtain ⟨s1, e1, hs1, hi1⟩ := step_bridge op hs hi hok.1 h1
      obtain ⟨s', e', hs', hi'⟩ := history_bridge ops s1 t1 t' hs1 hi1 (hok.2 t1 h1) h
      exact ⟨s', by simp only [List.map_cons, run, e1]; exact e', hs', hi'⟩

/-- **The combined theorem.**  Take ANY non-empty factor list as a fresh `MPS(factors, orthogonality_center=None)`
and run ANY history of the modelled operations whose recorded kernel answers satisfy the contracts.  Whenever the
final declared centre is `some c`, the ACTUAL factors left of `c` are left isometries and the actual factors
right of `c` are right isometries. -/
theorem declared_centre_true (fs : List (Site K)) (hne : 0 < fs.length) (ops : List (TOp K)) (t' : TSt K)
    (hok : HistIso { fs := fs, centre := none } ops) (h : trun { fs := fs, centre := none } ops = some t')
    {c : Nat} (hc : t'.centre = some c) : Canonical t'.fs c := by
  obtain ⟨s', _, hs', hi'⟩ := history_bridge ops _ _ t' (sem_fresh fs) (fresh_inv hne) hok h
  exact canonical_of_sem hs' hi' hc

/-- … and the norm is the norm of the centre tensor: for a valid start chain (operands of `+` / `apply_to` valid
as well) the final chain is valid and `inner(self, self)` = `Σ_s |amp s|²` = ‖factor c‖_F². -/
theorem declared_centre_norm (d : Nat) (fs : List (Site K)) (hv : validChain d fs = true) (ops : List (TOp K))
    (hops : HistShape d ops) (t' : TSt K) (hok : HistIso { fs := fs, centre := none } ops)
    (h : trun { fs := fs, centre := none } ops = some t') {c : Nat} (hc : t'.centre = some c) :
    validChain d t'.fs = true ∧ ∃ C, t'.fs[c]? = some C ∧ inner t'.fs t'.fs = some (frobSite C) ∧
      sumStrings d t'.fs.length (fun s => star (amp t'.fs s) * amp t'.fs s) = frobSite C := by
  have hsh := shape_of_valid d fs hv
  have hcan := declared_centre_true fs (by have := hsh.1; omega) ops t' hok h hc
  have hv' := valid_of_shape d t'.fs (trun_shape d ops (t := { fs := fs, centre := none }) hsh hops h)
  obtain ⟨C, hC⟩ : ∃ C, t'.fs[c]? = some C := ⟨t'.fs[c]'hcan.1, List.getElem?_eq_getElem hcan.1⟩
  obtain ⟨n1, n2⟩ := canonical_norm d t'.fs c C hv' hcan hC
  exact ⟨hv', C, hC, n1, n2⟩

/-- The same two statements from `MPS.make(n)` (product state `|0…0⟩`, declared centre 0, flags `B`) —
or from any state related by `Sem` to a flag state satisfying the invariant: use `history_bridge` directly. -/
theorem declared_centre_true_make (dim n : Nat) (hdim : 0 < dim) (hn : 0 < n) (ops : List (TOp K)) (t' : TSt K)
    (hok : HistIso { fs := List.replicate n (basisSite (α := K) dim 0), centre := some 0 } ops)
    (h : trun { fs := List.replicate n (basisSite (α := K) dim 0), centre := some 0 } ops = some t')
    {c : Nat} (hc : t'.centre = some c) : Canonical t'.fs c := by
  obtain ⟨s', _, hs', hi'⟩ := history_bridge ops _ _ t' (sem_make dim n hdim) (make_inv hn) hok h
  exact canonical_of_sem hs' hi' hc

/-! ### the operations that only re-gauge leave the represented state unchanged -/

def CorrQR : Nat → Nat → TSt K → List (OTape K) → Prop
  | 0, _, _, _ => True
  | k + 1, left, t, o :: os =>
    Props.C11.OrthOk t.fs t.centre left o.lt o.rt ∧ ∀ t', orth t left o = some t' → CorrQR k (left + 1) t' os
  | _ + 1, _, _, [] => True

/-- `q·r = m` for every recorded `qr` of an operation that only moves the centre (`False` for the operations
that change the state: nothing is claimed about them here) -/
def OpQR (t : TSt K) : TOp K → Prop
  | .orthogonalize k o => Props.C11.OrthOk t.fs t.centre k o.lt o.rt
  | .sample o => Props.C11.OrthOk t.fs t.centre 0 o.lt o.rt
  | .expectBatch o => t.centre = none → Props.C11.OrthOk t.fs none 0 o.lt o.rt
  | .norm o => t.centre = none → Props.C11.OrthOk t.fs none 0 o.lt o.rt
  | .inner => True
  | .correlation os => CorrQR t.fs.length 0 t os
  | .entropy k o1 o2 =>
    Props.C11.OrthOk t.fs t.centre k o1.lt o1.rt ∧
      ∀ t1, orth t k o1 = some t1 → Props.C11.OrthOk t1.fs t1.centre 0 o2.lt o2.rt
  | _ => False

theorem orth_amp {t t' : TSt K} {k : Nat} {o : OTape K} (h : orth t k o = some t')
    (hqr : Props.C11.OrthOk t.fs t.centre k o.lt o.rt) (s : List Nat) : amp t'.fs s = amp t.fs s := by
  unfold orth at h
  split at h
  · exact absurd h (by simp)
  · rename_i fs' hfs
    simp only [Option.some.injEq] at h
    subst h
    exact Props.C11.orthogonalize_amp _ _ _ _ _ _ hfs hqr s

/-- `orthogonalize`, `norm`, `expect_batch`, `inner`-like queries, `get_correlation_matrix`, `sample`,
`entanglement_entropy`: the represented state is unchanged (given `q·r = m`). -/
theorem regauging_step_amp {t t' : TSt K} (op : TOp K) (hqr : OpQR t op) (h : tstep t op = some t')
    (s : List Nat) : amp t'.fs s = amp t.fs s := by
  cases op with
  | orthogonalize k o => exact orth_amp h hqr s
  | sample o => exact orth_amp h hqr s
  | expectBatch o =>
    simp only [tstep, CanonOps.ensureCentre] at h
    split at h
    · simp only [Option.some.injEq] at h; subst h; rfl
    · rename_i hc; exact orth_amp h (by rw [hc]; exact hqr hc) s
  | norm o =>
    simp only [tstep, CanonOps.ensureCentre] at h
    split at h
    · simp only [Option.some.injEq] at h; subst h; rfl
    · rename_i hc; exact orth_amp h (by rw [hc]; exact hqr hc) s
  | inner => simp only [tstep, Option.some.injEq] at h; subst h; rfl
  | correlation os =>
    simp only [tstep] at h
    have aux : ∀ (k left : Nat) (t t' : TSt K) (os : List (OTape K)), CorrQR k left t os →
        CanonOps.corrLoop k left t os = some t' → amp t'.fs s = amp t.fs s := by
      intro k
      induction k with
      | zero =>
        intro left t t' os _ h
        simp only [CanonOps.corrLoop, Option.some.injEq] at h; subst h; rfl
      | succ k ih =>
        intro left t t' os hq h
        cases os with
        | nil => simp [CanonOps.corrLoop] at h
        | cons o os =>
          simp only [CanonOps.corrLoop] at h
          split at h
          · exact absurd h (by simp)
          · rename_i t1 h1
            rw [ih (left + 1) t1 t' os (hq.2 t1 h1) h, orth_amp h1 hq.1 s]
    exact aux _ _ _ _ _ hqr h
  | entropy k o1 o2 =>
    simp only [tstep] at h
    split at h
    · exact absurd h (by simp)
    · rename_i t1 h1
      rw [orth_amp h (hqr.2 t1 h1) s, orth_amp h1 hqr.1 s]
  | truncate o st => exact absurd hqr (by simp [OpQR])
  | add other o st => exact absurd hqr (by simp [OpQR])
  | scale c => exact absurd hqr (by simp [OpQR])
  | apply k op o => exact absurd hqr (by simp [OpQR])
  | applyTo mpo zt st => exact absurd hqr (by simp [OpQR])
  | jump k op o1 o2 c => exact absurd hqr (by simp [OpQR])

/-! ## Non-vacuity: concrete instances of the hypotheses -/
section examples

/-- two sites: `A₀ = 1₂` as a `(1,2,2)` tensor (`A₀[0,x,r] = δ_xr`), `A₁[l,x,0] = 2l + x + 1` -/
def exFs : List (Site ℤ) :=
  [{ dl := 1, d := 2, dr := 2, t := fun x _ r => if x = r then 1 else 0 },
   { dl := 2, d := 2, dr := 1, t := fun x l _ => 2 * (l : ℤ) + x + 1 }]

/-- a QR answer that is *not* the trivial one: `q` = the swap, `r` = the swap (`q·r = 1₂ = A₀`, `qᴴq = 1`) -/
def exQ : QRl ℤ :=
  { k := 2, q := fun x _ k => if x + k = 1 then 1 else 0, r := fun k j => if k + j = 1 then 1 else 0 }

def exA : Site ℤ := { dl := 1, d := 2, dr := 2, t := fun x _ r => if x = r then 1 else 0 }
def exB : Site ℤ := { dl := 2, d := 2, dr := 1, t := fun x l _ => 2 * (l : ℤ) + x + 1 }

example : validChain 2 exFs = true := by decide

/-- both halves of the QR contract hold for `exQ` on `exA` -/
example : LrOk exQ exA exB ∧ LrIso exQ exA := by
  refine ⟨⟨rfl, ?_⟩, ?_⟩
  · intro x l hl j hj
    simp only [exA] at hl hj
    simp only [exQ, exA, Finset.sum_range_succ, Finset.sum_range_zero]
    interval_cases j <;> rcases x with _ | _ | x <;> simp
  · intro k hk k' hk'
    simp only [exQ] at hk hk'
    simp only [exQ, exA, Finset.sum_range_succ, Finset.sum_range_zero]
    interval_cases k <;> interval_cases k' <;> simp

/-- the isometry contract of the one-step history `[orthogonalize 1]` from `exFs` -/
example : HistIso ({ fs := exFs, centre := none } : TSt ℤ) [.orthogonalize 1 ⟨[exQ], []⟩] := by
  refine ⟨⟨?_, fun fs1 _ => trivial⟩, fun _ _ => trivial⟩
  intro A B hA hB
  simp [exFs] at hA hB
  subst hA
  refine ⟨?_, trivial⟩
  intro k hk k' hk'
  simp only [exQ] at hk hk'
  simp only [exQ, Finset.sum_range_succ, Finset.sum_range_zero]
  interval_cases k <;> interval_cases k' <;> simp

/-- … and the history runs: the machine declares centre 1 -/
example : ∃ t', trun ({ fs := exFs, centre := none } : TSt ℤ) [.orthogonalize 1 ⟨[exQ], []⟩] = some t' ∧
    t'.centre = some 1 := ⟨_, rfl, rfl⟩

/-- a kept eigenvector block that is an isometry: 2 columns of the 2×2 swap for the `(2,2,1)` factor -/
example : SplitIso ({ k := 2, qk := fun x _ j => if x + j = 1 then (1 : ℤ) else 0 } : Split ℤ) exB := by
  intro j hj j' hj'
  simp only [exB, Finset.sum_range_succ, Finset.sum_range_zero]
  simp only at hj hj'
  interval_cases j <;> interval_cases j' <;> simp

/-- `truncate()` runs on the example (QR of site 0, then one split with both columns kept) -/
example : ∃ t', trunc ({ fs := exFs, centre := none } : TSt ℤ) ⟨[exQ], []⟩
    [{ k := 2, qk := fun x _ j => if x + j = 1 then 1 else 0 }] = some t' ∧ t'.centre = some 0 := ⟨_, rfl, rfl⟩

def exG : Split ℤ := { k := 2, qk := fun x _ j => if x + j = 1 then 1 else 0 }

/-- the contracts of the one-step history `[truncate]` from `exFs` (QR of site 0, then the split of site 1) -/
example : HistIso ({ fs := exFs, centre := none } : TSt ℤ) [.truncate ⟨[exQ], []⟩ [exG]] := by
  refine ⟨⟨⟨?_, fun fs1 _ => trivial⟩, ?_⟩, fun _ _ => trivial⟩
  · intro A B hA hB
    simp [exFs] at hA hB
    subst hA
    refine ⟨?_, trivial⟩
    intro k hk k' hk'
    simp only [exQ] at hk hk'
    simp only [exQ, Finset.sum_range_succ, Finset.sum_range_zero]
    interval_cases k <;> interval_cases k' <;> simp
  · intro t1 h1
    have e : t1 = { fs := setPair exFs 0 (lrStep exQ exA exB), centre := some 1 } := by
      have : orth ({ fs := exFs, centre := none } : TSt ℤ) 1 ⟨[exQ], []⟩
          = some { fs := setPair exFs 0 (lrStep exQ exA exB), centre := some 1 } := rfl
      have h1' : orth ({ fs := exFs, centre := none } : TSt ℤ) 1 ⟨[exQ], []⟩ = some t1 := h1
      rw [this] at h1'
      exact (Option.some.inj h1').symm
    subst e
    intro A B hA hB
    have hB' : B = (lrStep exQ exA exB).2 := by
      have : (setPair exFs 0 (lrStep exQ exA exB))[1]? = some (lrStep exQ exA exB).2 := rfl
      have hB2 : (setPair exFs 0 (lrStep exQ exA exB))[1]? = some B := hB
      rw [this] at hB2
      exact (Option.some.inj hB2).symm
    subst hB'
    refine ⟨?_, trivial⟩
    intro j hj j' hj'
    simp only [exG] at hj hj'
    simp only [exG, lrStep, exB, Tensor.Site.make_d, Tensor.Site.make_dr, Finset.sum_range_succ, Finset.sum_range_zero]
    interval_cases j <;> interval_cases j' <;> simp

/-- the flattened eigh contract is satisfiable (`G = diag(1, 2)`, `Q = 1₂` for a `(·, 2, 1)` factor), the cutoff model
keeps both columns at `ε = 1/2`, cap 8, and the kept ranks are what `sweepBonds` says -/
example : CutoffMatrix.EighContract (Matrix.diagonal ![(1 : ℚ), 2]) ![1, 2]
    (flatQ 2 1 (fun x _ col => if x = col then (1 : ℚ) else 0)) := by
  have hq : flatQ 2 1 (fun x _ col => if x = col then (1 : ℚ) else 0) = 1 := by
    ext i j
    fin_cases i <;> fin_cases j <;> simp [flatQ]
  rw [hq]
  exact ⟨by simp, by simp⟩

example : (splitOf (α := ℚ) (1 / 2 : ℚ) 8 [1, 2] (fun x _ col => if x = col then 1 else 0)).map (·.k) = some 2 := by
  decide +kernel

example : Cutoff.sweepBonds (1 / 2 : ℚ) 8 [[1, 2]] = some ([exG].map (·.k)) := by decide +kernel

/-- the `|00⟩` product state of `MPS.make(2)` is described by the flag state `make 2` -/
example : Sem (make 2) ({ fs := List.replicate 2 (basisSite (α := ℤ) 2 0), centre := some 0 } : TSt ℤ) :=
  sem_make 2 2 (by decide)

/-- a canonical chain exists: `exFs` is canonical around 1 (its first factor is the identity) -/
example : Canonical exFs 1 := by
  refine ⟨by decide, ?_, ?_⟩
  · intro j A hj hA
    have : j = 0 := by omega
    subst this
    simp [exFs] at hA
    subst hA
    intro r hr r' hr'
    simp only at hr hr'
    simp only [Finset.sum_range_succ, Finset.sum_range_zero]
    interval_cases r <;> interval_cases r' <;> simp
  · intro j A hj hA
    have := lt_length_of_getElem? hA
    simp [exFs] at this
    omega

end examples

end EmuVerif.Props.C10Bridge
