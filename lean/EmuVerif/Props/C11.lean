/-
  C11 — MPS/MPO operations are faithful to their dense counterparts.

  Statement (properties.jsonl): every public MPS/MPO operation agrees with the same operation on
  the dense vectors and matrices, to within the truncation precision (addition, scaling, inner
  product, norm, overlap, operator application and composition, expectation values, per-site
  expectations, correlation matrices, entanglement entropy, construction from the abstract
  state/operator representation); operations not documented as in-place leave the state unchanged.

  All theorems are about `Model/Tensor.lean` (tied to emu_mps by the correspondence check in
  harness/props/c11.py), read over an arbitrary commutative ring `K` (with a star operation where a
  conjugate appears; `K = ℂ` is the intended reading, `Cx ℤ` is what the driver runs and is shown to be
  such a ring in `Proofs/TensorCx.lean`).  They hold for every number of sites, every sequence of bond
  dimensions and every physical dimension: all proofs are inductions over the list of sites.
  The dense object is the amplitude function `s ↦ amp fs s` (resp. `opAmp`) and sums over all level
  strings (`sumStrings d n`).

  Proved at full strength (exact operations, before any truncation):
    * `add_factors_amp`       add_factors represents the sum of the amplitudes;
    * `scale_factors_amp`     scale_factors multiplies every amplitude by the scalar (`which` in range),
      `scale_factors_out_of_range`  and changes nothing otherwise;
    * `rmul_amp`, `rmul_scales_center`, `rmul_norm_at_center`
                              MPS.__rmul__: amplitudes × c whatever the recorded centre; the scaled factor is the one
                              at the recorded centre (factor 0 for `None`), so `norm()` = ‖centre factor‖ scales by |c|;
    * `inner_eq_dense`        MPS.inner = Σ_s conj(amp₁ s)·amp₂ s;
    * `expect_eq_dense`       MPO.expect (new_left_bath) = Σ_{s,t} conj(amp s)·⟨s|O|t⟩·amp t;
    * `zip_right_amp`         zip_right before truncation, given `q·r = m` for each recorded qr:
                              amplitudes of the result = Σ_i ⟨o|O|i⟩·(bottom)(i, j)  (MPS and MPO bottoms),
      `apply_to_amp`          the MPS case: matrix–vector product at amplitude level;
    * `regauge_amp`, `insert_gauge_amp`, `orthogonalize_amp`
                              gauge freedom: a pair of neighbouring factors with the same products, an
                              inserted `X·Y` with `X·Y = 1`, and every `orthogonalize` sweep whose qr answers
                              satisfy `q·r = m` leave every amplitude unchanged (so the operations that
                              only call `orthogonalize` — norm, expect_batch, sample, get_correlation_matrix,
                              entanglement_entropy — do not change the represented state);
    * `apply_site_amp`        MPS.apply = the one-site operator on the amplitudes;
    * `from_state_amplitudes_amp`  the accumulation loop of `_from_state_amplitudes` (before truncation and
                              normalisation) has amplitudes Σ_k a_k·δ(s, levels(string_k)),
      `basis_amp_kronecker`   and a basis string is the Kronecker product of unit vectors;
    * `from_operator_repr_amp`  `_from_operator_repr` = Σ_terms coeff·⊗_k f_k with the factors left by
                              the assignments, `assign_last_wins`: a repeated target keeps the last one.

  `get_correlation_matrix(operator)` (kernel-checked witnesses, replayed on the real code by the harness):
    * `corr_offdiag_counterexample`  documents the variant found originally (`corrRowAsFound`: `operatorᵀ`
                              contracted): for the product state (1,i)⊗(1,1) and O = σx+σy the entry [0,1] was −4,
                              the documented ⟨O₀O₁⟩ is 4.  FIXED in /repo by 7ffda71 (finding T1); the model
                              `corrRow` is the repaired code and gives +4 on the witness (`corr_offdiag_repaired_witness`);
    * `corr_diag_counterexample`     (still open, finding T2) the diagonal is ⟨O_i⟩, not the documented ⟨O_i O_i⟩
                              (O = diag(0,2): 2 vs 4); pinned by test_correlation_matrix_random.
    The default operator `n` (real, symmetric, idempotent) is not affected by either.

  PARTIAL (stated, not proved here):
    * `TruncationFaithful` — the truncating operations (`MPS.__add__`, `apply_to`, `@`, `truncate`) agree
      with the exact ones "to within the truncation precision": this is the eigh/svd contract of C10.
    * entanglement entropy: its value rests on `torch.linalg.svdvals` (assumed, validated numerically);
      only the fact that the two `orthogonalize` calls keep the state is covered (`orthogonalize_amp`).
    * `expect_batch` / `get_correlation_matrix`: validated against dense references by the harness
      (they are centre walks of `orthogonalize`-type steps); no separate Lean theorem.
-/
import EmuVerif.Proofs.TensorValid
import EmuVerif.Proofs.TensorCx
import Mathlib.Data.Complex.Basic
import Mathlib.Tactic.IntervalCases

set_option linter.unusedSectionVars false
set_option linter.unusedVariables false

namespace EmuVerif.Props.C11
open EmuVerif EmuVerif.Tensor Finset

section ring
variable {K : Type} [CommRing K]

/-- `add_factors(left, right)` represents the sum of the two tensor trains. -/
theorem add_factors_amp (L R S : List (Site K)) (h : addFactors L R = some S) (h2 : 2 ≤ L.length)
    (hok : chainOk L = true) (s : List Nat) : amp S s = amp L s + amp R s := by
  simp only [amp_eq, ampVecF_addFactors L R S h h2 hok]

/-- shape bookkeeping of `add_factors`: the result is again a chain with the outer bonds of `left` -/
theorem add_factors_shape (L R S : List (Site K)) (h : addFactors L R = some S) (h2 : 2 ≤ L.length)
    (hokL : chainOk L = true) (hokR : chainOk R = true) :
    chainOk S = true ∧ S.length = L.length ∧ headDl S = headDl L :=
  addFactors_dims L R S h h2 hokL hokR

/-- `scale_factors(factors, c, which=w)` multiplies the represented tensor by `c`. -/
theorem scale_factors_amp (c : K) (which : Nat) (fs : List (Site K)) (hw : which < fs.length) (s : List Nat) :
    amp (scaleFactors c which fs) s = c * amp fs s := by
  simp only [amp_eq, scaleFactors, ampVecF_scaleAux c which 0 fs (Nat.zero_le _) (by omega)]

/-- an out-of-range `which` is silently ignored by the list comprehension -/
theorem scale_factors_out_of_range (c : K) (which : Nat) (fs : List (Site K)) (hw : fs.length ≤ which) :
    scaleFactors c which fs = fs := by
  unfold scaleFactors
  induction fs generalizing which with
  | nil => rfl
  | cons A fs ih =>
    have h0 : (0 : Nat) ≠ which := by simp at hw; omega
    simp only [scaleAux, h0, if_false]
    congr 1
    -- the index only ever increases, so it never meets `which`
    have : ∀ (i : Nat) (gs : List (Site K)), which ≥ i + gs.length → scaleAux c which i gs = gs := by
      intro i gs
      induction gs generalizing i with
      | nil => intro _; rfl
      | cons B gs ihg =>
        intro hge
        have : i ≠ which := by simp at hge; omega
        simp only [scaleAux, this, if_false]
        rw [ihg (i + 1) (by simp at hge; omega)]
    exact this 1 fs (by simp at hw; omega)

/-- `MPS.__rmul__`: whatever the recorded centre, the represented vector is multiplied by `c`. -/
theorem rmul_amp (c : K) (center : Option Nat) (fs : List (Site K)) (hk : center.getD 0 < fs.length)
    (s : List Nat) : amp (rmulFactors c center fs).1 s = c * amp fs s ∧ (rmulFactors c center fs).2 = center :=
  ⟨scale_factors_amp c _ fs hk s, rfl⟩

/-- … and it is the factor at the recorded centre (factor 0 when none is recorded) that is scaled, all other
factors are returned untouched. -/
theorem rmul_scales_center (c : K) (center : Option Nat) (fs : List (Site K)) (k : Nat) :
    (rmulFactors c center fs).1[k]? = (fs[k]?).map (fun A => if k = center.getD 0 then scaleSite c A else A) := by
  simp only [rmulFactors, scaleFactors, scaleAux_get, Nat.zero_add]

/-- Gauge freedom, pair form: replacing the factors at `i`, `i+1` by a pair with the same two-site
products (for instance `A·X`, `X⁻¹·B`) leaves every amplitude unchanged. -/
theorem regauge_amp (fs : List (Site K)) (i : Nat) (A B A' B' : Site K) (hA : fs[i]? = some A)
    (hB : fs[i + 1]? = some B) (h : PairEq A B A' B') (s : List Nat) :
    amp (setPair fs i (A', B')) s = amp fs s := by
  simp only [amp_eq, ampVecF_setPair fs i A B A' B' hA hB h]

/-- Gauge freedom, `X·X⁻¹` form. -/
theorem insert_gauge_amp (fs : List (Site K)) (i : Nat) (A B : Site K) (hA : fs[i]? = some A)
    (hB : fs[i + 1]? = some B) (hch : A.dr = B.dl) (k : Nat) (X Y : Nat → Nat → K)
    (hXY : ∀ j < A.dr, ∀ j' < A.dr, ∑ m ∈ range k, X j m * Y m j' = if j = j' then 1 else 0) (s : List Nat) :
    amp (setPair fs i (mulRight A k X, mulLeft Y k B)) s = amp fs s :=
  regauge_amp fs i A B _ _ hA hB (pairEq_insert A B k X Y hch hXY) s

/-- every recorded `qr` of an `orthogonalize` call satisfies `q·r = m` -/
def OrthOk (fs : List (Site K)) (center : Option Nat) (desired : Nat)
    (ltape : List (QRl K)) (rtape : List (QRr K)) : Prop :=
  LrSweepOk (desired - center.getD 0) (center.getD 0) fs ltape ∧
    ∀ fs1, lrSweep (desired - center.getD 0) (center.getD 0) fs ltape = some fs1 →
      RlSweepOk (center.getD (fs.length - 1) - desired) (center.getD (fs.length - 1)) fs1 rtape

/-- `MPS.orthogonalize` preserves the represented state (it only re-gauges), for every start centre
(including `None`), every target and every chain, given the `qr` contract. -/
theorem orthogonalize_amp (fs fs' : List (Site K)) (center : Option Nat) (desired : Nat)
    (ltape : List (QRl K)) (rtape : List (QRr K))
    (h : orthogonalize fs center desired ltape rtape = some fs')
    (hok : OrthOk fs center desired ltape rtape) (s : List Nat) : amp fs' s = amp fs s := by
  unfold orthogonalize at h
  split at h
  · exact absurd h (by simp)
  · simp only at h
    split at h
    · exact absurd h (by simp)
    · rename_i fs1 h1
      simp only [amp_eq]
      rw [ampVecF_rlSweep _ _ _ _ _ h (hok.2 fs1 h1), ampVecF_lrSweep _ _ _ _ _ h1 hok.1]

/-- `MPS.apply(q, op)`: the new factor carries `op` on its physical index. -/
theorem apply_site_amp (d : Nat) (op : Nat → Nat → K) (A : Site K) (v : Nat → K) (x : Nat) :
    rowStepF v (applySite d op A) x = fun r => ∑ y ∈ range d, op x y * rowStepF v A y r := by
  funext r
  simp only [rowStepF, applySite, Site.make_t, Site.make_dl, sumTo_eq, Finset.mul_sum]
  rw [Finset.sum_comm]
  exact Finset.sum_congr rfl (fun y _ => Finset.sum_congr rfl (fun l _ => by ring))

/-- `zip_right` before `truncate_impl`: with `top` an MPO over `d` levels and `bottom` a chain with
levels `i·m + j` (`m = 1`: an MPS, `m = d`: an MPO), the result has amplitudes
`Σ_i ⟨o|top|i⟩ · bottom(i, j)`, provided every recorded `qr` satisfies `q·r = m`. -/
theorem zip_right_amp (d m : Nat) (tops bots fs : List (Site K)) (tape : List (QR3 K))
    (h : zipRight d m tops bots tape = some fs) (hok : ZipOk d m tops bots tape slider0)
    (hT : validChain (d * d) tops = true) (hB : validChain (d * m) bots = true)
    (o j : List Nat) (ho : o.length = tops.length) (hj : j.length = tops.length)
    (hod : ∀ x ∈ o, x < d) (hjm : ∀ x ∈ j, x < m) :
    amp fs (opString m o j) =
      sumStrings d tops.length (fun i => opAmp d tops o i * amp bots (opString m i j)) := by
  obtain ⟨t2, _, tW, t1, _⟩ := validChain_spec _ tops hT
  obtain ⟨_, _, bW, b1, _⟩ := validChain_spec _ bots hB
  unfold zipRight at h
  split at h
  · exact absurd h (by simp)
  · split at h
    · exact absurd h (by simp)
    · rename_i gs Sf hloop
      simp only [Option.some.injEq] at h
      subst h
      have hne : tops ≠ [] := by intro h0; simp [h0] at t2
      obtain ⟨gne, gl⟩ := zipLoop_lastDr d m tops bots tape slider0 Sf gs hloop hne
      rw [amp_eq, ampVecF_absorbLast Sf gs gne, gl]
      rw [zipLoop_amp d m tops bots tape slider0 Sf gs hloop hok tW bW o j ho hj hod hjm]
      refine sumStrings_congr _ _ _ _ (fun i _ => ?_)
      simp only [t1, b1, opAmp, amp_eq_col tops tW t1, amp_eq_col bots bW b1, slider0]
      simp

/-- the level string of an MPS seen as a chain with `m = 1` -/
theorem opString_one (s : List Nat) : opString 1 s (List.replicate s.length 0) = s := by
  induction s with
  | nil => rfl
  | cons x s ih =>
    simp only [List.length_cons, List.replicate_succ, opString, List.zipWith_cons_cons] at ih ⊢
    rw [ih]; simp [opLevel]

/-- `MPO.apply_to(MPS)` before truncation is the matrix–vector product at amplitude level. -/
theorem apply_to_amp (d : Nat) (tops bots fs : List (Site K)) (tape : List (QR3 K))
    (h : zipRight d 1 tops bots tape = some fs) (hok : ZipOk d 1 tops bots tape slider0)
    (hT : validChain (d * d) tops = true) (hB : validChain d bots = true)
    (o : List Nat) (ho : o.length = tops.length) (hod : ∀ x ∈ o, x < d) :
    amp fs o = sumStrings d tops.length (fun i => opAmp d tops o i * amp bots i) := by
  have := zip_right_amp d 1 tops bots fs tape h hok hT (by simpa using hB) o (List.replicate o.length 0) ho
    (by simpa using ho) hod (by intro x hx; simp [List.mem_replicate] at hx; omega)
  rw [opString_one] at this
  rw [this]
  refine sumStrings_congr _ _ _ _ (fun i hi => ?_)
  have : opString 1 i (List.replicate o.length 0) = i := by
    have e : o.length = i.length := by rw [ho, hi]
    rw [e]; exact opString_one i
  rw [this]

/-- a product basis state is the Kronecker product of unit vectors -/
theorem basis_amp_kronecker (dim : Nat) (lv s : List Nat) :
    amp (lv.map (basisSite (α := K) dim)) s = if s = lv then 1 else 0 := by
  rw [amp_eq, ampVecF_basis]

/-- The accumulation loop of `MPS._from_state_amplitudes` (before the truncation inside `+=` and
before the optional normalisation): amplitude of `s` = `Σ_k a_k · δ(s, levels(string_k))`. -/
theorem from_state_amplitudes_amp (b : Basis) (n : Nat) (entries : List (String × K)) (fs : List (Site K))
    (h : fromAmplitudes b n entries = some fs) (h2 : 2 ≤ n) (hlen : ∀ e ∈ entries, e.1.toList.length = n)
    (s : List Nat) :
    amp fs s = (entries.map (fun e => e.2 * if s = e.1.toList.map (stateCharLevel b) then 1 else 0)).sum := by
  unfold fromAmplitudes at h
  rw [amp_eq, ampVecF_fromAmplitudesAux b.dim _ _ fs h (by simpa using h2) (chainOk_zeroChain _ _)
    (by intro e he; simp only [List.mem_map] at he; obtain ⟨e', he', rfl⟩ := he; simp [hlen e' he'])]
  rw [ampVecF_zeroChain b.dim n (by omega)]
  simp [List.map_map, Function.comp_def]

/-- `MPO._from_operator_repr`: matrix elements = `Σ_terms coeff · Π_k f_k(o_k, i_k)` where `f_k` are the
factors left by the assignments of that term (identity where nothing was assigned). -/
theorem from_operator_repr_amp (d n : Nat) (terms : List (K × List ((Nat → Nat → K) × List Nat)))
    (W : List (Site K)) (h : fromOperatorRepr d n terms = some W) (h2 : 2 ≤ n)
    (o i : List Nat) (hlen : o.length = i.length) (hi : ∀ x ∈ i, x < d) :
    opAmp d W o i = (terms.map (fun t => termValue n t o i)).sum := by
  unfold fromOperatorRepr at h
  split at h
  · exact absurd h (by simp)
  · rename_i mpos hm
    obtain ⟨e1, e2, e3⟩ := termMpos_amp d n (by omega) terms mpos hm o i hlen hi (fun _ => 1)
    cases mpos with
    | nil => simp [sumMpos] at h
    | cons m ms =>
      simp only [sumMpos] at h
      have hm2 := e2 m (List.mem_cons_self ..)
      rw [opAmp, amp_eq, ampVecF_foldl_add m ms W h (by omega) hm2.1
        (fun x hx => (e2 x (List.mem_cons_of_mem _ hx)).1)]
      simp only [List.map_cons, List.sum_cons] at e1
      rw [e1]; simp

/-- repeated targets: the last assignment wins, untouched sites keep what they had -/
theorem assign_last_wins (ops : List ((Nat → Nat → K) × List Nat)) (f : Nat → Nat → K) (ts : List Nat)
    (fs fs1 fs2 : List (Nat → Nat → K)) (h1 : termFactors ops fs = some fs1)
    (h2 : termFactors (ops ++ [(f, ts)]) fs = some fs2) (k : Nat) (hk : k < fs.length) :
    fs2[k]? = if k ∈ ts then some f else fs1[k]? := by
  rw [termFactors_append, h1] at h2
  simp only [Option.bind_some] at h2
  exact (assignTargets_get f ts fs1 fs2 h2).2 k (by rw [termFactors_length _ _ _ h1]; exact hk)

end ring

section star
variable {K : Type} [CommRing K] [StarRing K]

/-- `MPS.inner` is the dense inner product `Σ_s conj(amp₁ s)·amp₂ s` (anti-linear in `self`). -/
theorem inner_eq_dense (d : Nat) (As Bs : List (Site K)) (hA : validChain d As = true)
    (hB : validChain d Bs = true) (hlen : As.length = Bs.length) :
    inner As Bs = some (sumStrings d As.length (fun s => star (amp As s) * amp Bs s)) := by
  obtain ⟨_, _, aW, a1, ad⟩ := validChain_spec d As hA
  obtain ⟨_, _, bW, b1, _⟩ := validChain_spec d Bs hB
  unfold inner
  rw [if_neg (by simpa using hlen)]
  congr 1
  rw [innerAcc_get2, innerAccF_eq d As Bs hlen aW bW ad]
  refine sumStrings_congr _ _ _ _ (fun s _ => ?_)
  simp [a1, b1, ones2, amp_eq_col As aW a1, amp_eq_col Bs bW b1]

/-- Why the centre factor: `norm()` reads the Frobenius norm of the factor at the recorded centre, and after
`c * state` that number is `|c|²` times what it was — for every recorded centre `k` (and for `None`, `k = 0`). -/
theorem rmul_norm_at_center (c : K) (center : Option Nat) (fs : List (Site K)) :
    normSqAtCenter (rmulFactors c center fs).1 (center.getD 0)
      = star c * c * normSqAtCenter fs (center.getD 0) := by
  unfold normSqAtCenter
  rw [rmul_scales_center]
  cases h : fs[center.getD 0]? with
  | none => simp
  | some A =>
    simp only [Option.map_some, if_true, factorNormSq, scaleSite, Site.make_t, Site.make_d, Site.make_dl,
      Site.make_dr, sumTo_eq, conj_eq_star, star_mul', Finset.mul_sum]
    refine Finset.sum_congr rfl (fun x _ => Finset.sum_congr rfl (fun l _ => Finset.sum_congr rfl (fun r _ => ?_)))
    ring

/-- `MPO.expect(state)` (the `new_left_bath` recursion) is the dense sesquilinear form
`Σ_{s,t} conj(amp s)·⟨s|O|t⟩·amp t`. -/
theorem expect_eq_dense (d : Nat) (As Ws : List (Site K)) (hA : validChain d As = true)
    (hW : validChain (d * d) Ws = true) (hlen : As.length = Ws.length) :
    expect As Ws = some (sumStrings d As.length (fun s => sumStrings d As.length (fun t =>
      star (amp As s) * opAmp d Ws s t * amp As t))) := by
  obtain ⟨_, _, aW, a1, ad⟩ := validChain_spec d As hA
  obtain ⟨_, _, wW, w1, _⟩ := validChain_spec _ Ws hW
  unfold expect
  rw [if_neg (by simpa using hlen)]
  congr 1
  rw [expectAcc_get3, expectAccF_eq d As Ws hlen aW wW ad]
  refine sumStrings_congr _ _ _ _ (fun s _ => sumStrings_congr _ _ _ _ (fun t _ => ?_))
  simp [a1, w1, ones3, opAmp, amp_eq_col As aW a1, amp_eq_col Ws wW w1]

end star


/-! ### the run type -/

/-- The theorems apply verbatim to the scalar type of the exact correspondence runs. -/
theorem inner_eq_dense_cx (d : Nat) (As Bs : List (Site (Cx ℤ))) (hA : validChain d As = true)
    (hB : validChain d Bs = true) (hlen : As.length = Bs.length) :
    inner As Bs = some (sumStrings d As.length (fun s => conj (amp As s) * amp Bs s)) :=
  inner_eq_dense d As Bs hA hB hlen

/-! ### non-vacuity -/
def exA : List (Site ℤ) :=
  [{ dl := 1, d := 2, dr := 2, t := fun x _ r => (x : ℤ) + r + 1 },
   { dl := 2, d := 2, dr := 1, t := fun x l _ => (x : ℤ) * l - 1 }]
def exB : List (Site ℤ) :=
  [{ dl := 1, d := 2, dr := 1, t := fun x _ _ => 2 * (x : ℤ) - 1 },
   { dl := 1, d := 2, dr := 1, t := fun x _ _ => (x : ℤ) + 3 }]
/-- identity ⊗ (|1⟩⟨0| + 2|0⟩⟨1|), bond dimension 1 -/
def exW : List (Site ℤ) :=
  [{ dl := 1, d := 4, dr := 1, t := fun x _ _ => if x = 0 ∨ x = 3 then 1 else 0 },
   { dl := 1, d := 4, dr := 1, t := fun x _ _ => if x = 2 then 1 else if x = 1 then 2 else 0 }]

example : validChain 2 exA = true ∧ validChain 2 exB = true ∧ validChain 4 exW = true := by decide
example : ∃ S, addFactors exA exB = some S ∧ 2 ≤ exA.length ∧ chainOk exA = true ∧ amp S [1, 0] = amp exA [1, 0] + amp exB [1, 0] ∧ amp S [1, 0] ≠ 0 :=
  ⟨_, rfl, by decide, by decide, by decide, by decide⟩
example : amp (scaleFactors 3 1 exA) [1, 1] = 3 * amp exA [1, 1] ∧ amp exA [1, 1] ≠ 0 := by decide
example : inner exA exB = some (-10) := by decide
example : expect exA exW = some (sumStrings 2 2 (fun s => sumStrings 2 2 (fun t => amp exA s * opAmp 2 exW s t * amp exA t))) := by decide

def exTape : List (QR3 ℤ) :=
  [{ k := 1, q := fun lev _ _ => if lev = 0 then -1 else 1, r := fun _ _ _ => 1 },
   { k := 1, q := fun lev _ _ => if lev = 0 then 8 else 3, r := fun _ _ _ => 1 }]

example : ZipOk 2 1 exW exB exTape slider0 := by
  simp only [ZipOk, exW, exB, exTape, slider0]
  refine ⟨?_, ?_, trivial⟩ <;>
    (intro a ha o ho j hj bt hbt rb hrb
     interval_cases a <;> interval_cases o <;> interval_cases j <;> interval_cases bt <;> interval_cases rb <;> decide)

example : ∃ fs, zipRight 2 1 exW exB exTape = some fs ∧ amp fs [1, 0] = 8 ∧
    sumStrings 2 2 (fun i => opAmp 2 exW [1, 0] i * amp exB i) = 8 := ⟨_, rfl, by decide, by decide⟩

def exQr : QRr ℤ := { k := 2, q := fun y k _ => (y : ℤ) * k - 1, r := fun k j => if k = j then 1 else 0 }

example : OrthOk exA none 0 [] [exQr] := by
  refine ⟨trivial, fun fs1 h => ?_⟩
  simp [lrSweep] at h
  subst h
  simp only [exA, exQr, List.length_cons, List.length_nil, Option.getD_none, RlSweepOk]
  intro A B hA hB
  simp at hA hB
  subst hA; subst hB
  refine ⟨⟨rfl, ?_⟩, trivial⟩
  intro y j hj r
  simp only [Finset.sum_range_succ, Finset.sum_range_zero]
  interval_cases j <;> simp

example : ∃ fs, orthogonalize exA none 0 [] [exQr] = some fs := ⟨_, rfl⟩


/-! ### `MPS.get_correlation_matrix(operator)`: the variant found originally, and the open diagonal -/

/-- two sites `ψ_A = (1, i)`, `ψ_B = (b0, b1)` (product state, bond dimension 1) -/
def cexState (b0 b1 : Cx ℤ) : List (Site (Cx ℤ)) :=
  [{ dl := 1, d := 2, dr := 1, t := fun x _ _ => if x = 0 then ⟨1, 0⟩ else ⟨0, 1⟩ },
   { dl := 1, d := 2, dr := 1, t := fun x _ _ => if x = 0 then b0 else b1 }]

/-- `O = σx + σy = [[0, 1-i], [1+i, 0]]` (Hermitian, not symmetric) -/
def cexOp : Nat → Nat → Cx ℤ := fun s t =>
  if s = 0 ∧ t = 1 then ⟨1, -1⟩ else if s = 1 ∧ t = 0 then ⟨1, 1⟩ else ⟨0, 0⟩

/-- `O = diag(0, 2)` (real, symmetric, not idempotent) -/
def cexOp2 : Nat → Nat → Cx ℤ := fun s t => if s = 1 ∧ t = 1 then ⟨2, 0⟩ else ⟨0, 0⟩

/-- the documented entry `C_ij = ⟨ψ| O_i O_j |ψ⟩` of a two-site state, `(i, j) = (0, 1)` -/
def denseCorr01 {α : Type} [Add α] [Mul α] [OfNat α 0] [OfNat α 1] [Conj α] (d : Nat) (op : Nat → Nat → α)
    (fs : List (Site α)) : α :=
  sumStrings d 2 (fun s => sumStrings d 2 (fun t =>
    conj (amp fs s) * (op (s.getD 0 0) (t.getD 0 0) * op (s.getD 1 0) (t.getD 1 0)) * amp fs t))

/-- the documented entry `C_00 = ⟨ψ| O_0 O_0 |ψ⟩` -/
def denseCorr00 {α : Type} [Add α] [Mul α] [OfNat α 0] [OfNat α 1] [Conj α] (d : Nat) (op : Nat → Nat → α)
    (fs : List (Site α)) : α :=
  sumStrings d 2 (fun s => sumStrings d 2 (fun t =>
    conj (amp fs s) * (sumTo d (fun u => op (s.getD 0 0) u * op u (t.getD 0 0))
      * (if s.getD 1 0 = t.getD 1 0 then 1 else 0)) * amp fs t))

/-- Off-diagonal entries, variant found before 7ffda71: not the documented `⟨O_i O_j⟩` (finding T1, fixed). -/
theorem corr_offdiag_counterexample :
    ¬ ∀ (fs : List (Site (Cx ℤ))) (op : Nat → Nat → Cx ℤ), validChain 2 fs = true → fs.length = 2 →
        (corrRowAsFound 2 op fs).getD 1 0 = denseCorr01 2 op fs := by
  intro h
  have := h (cexState ⟨1, 0⟩ ⟨1, 0⟩) cexOp (by decide) rfl
  revert this
  decide

/-- the repaired code gives the documented value on the witness of T1 -/
theorem corr_offdiag_repaired_witness :
    (corrRow 2 cexOp (cexState ⟨1, 0⟩ ⟨1, 0⟩)).getD 1 0 = denseCorr01 2 cexOp (cexState ⟨1, 0⟩ ⟨1, 0⟩) := by
  decide

/-- Diagonal entries: `⟨O_i⟩` as written, `⟨O_i O_i⟩` as documented (tail right-orthonormal here). -/
theorem corr_diag_counterexample :
    ¬ ∀ (fs : List (Site (Cx ℤ))) (op : Nat → Nat → Cx ℤ), validChain 2 fs = true → fs.length = 2 →
        (corrRow 2 op fs).getD 0 0 = denseCorr00 2 op fs := by
  intro h
  have := h (cexState ⟨1, 0⟩ ⟨0, 0⟩) cexOp2 (by decide) rfl
  revert this
  decide

example : (corrRowAsFound 2 cexOp (cexState ⟨1, 0⟩ ⟨1, 0⟩)).getD 1 0 = ⟨-4, 0⟩ ∧
    (corrRow 2 cexOp (cexState ⟨1, 0⟩ ⟨1, 0⟩)).getD 1 0 = ⟨4, 0⟩ ∧
    denseCorr01 2 cexOp (cexState ⟨1, 0⟩ ⟨1, 0⟩) = ⟨4, 0⟩ := by decide
example : (corrRow 2 cexOp2 (cexState ⟨1, 0⟩ ⟨0, 0⟩)).getD 0 0 = ⟨2, 0⟩ ∧
    denseCorr00 2 cexOp2 (cexState ⟨1, 0⟩ ⟨0, 0⟩) = ⟨4, 0⟩ := by decide

/-! ### constructors: non-vacuity -/
example : ∃ fs, fromAmplitudes (α := ℤ) .rgx 2 [("rx", 2), ("gg", -1)] = some fs ∧
    amp fs [1, 2] = 2 ∧ amp fs [0, 0] = -1 ∧ amp fs [1, 1] = 0 := ⟨_, rfl, by decide, by decide, by decide⟩
example : ∃ W, fromOperatorRepr (α := ℤ) 2 2 [(3, [(fun o i => if o = 1 ∧ i = 0 then 1 else 0, [0, 0]),
      (fun o i => if o = i then 5 else 0, [0])])] = some W ∧ opAmp 2 W [1, 1] [1, 1] = 15 ∧ opAmp 2 W [1, 1] [0, 1] = 0 :=
  ⟨_, rfl, by decide, by decide⟩

/-! ### PARTIAL: the truncating operations (not proved here — C10's eigh contract) -/

/-- Full-strength statement for a truncation routine `trunc ε` (what `truncate_impl` is meant to be):
the represented state moves by at most `√(n−1)·ε` in 2-norm.  `MPS.__add__`, `MPO.apply_to`,
`MPO.__matmul__` are the exact operations above followed by such a `trunc`. NOT proved in this file. -/
def TruncationFaithful (d : Nat) (trunc : ℝ → List (Site ℂ) → List (Site ℂ)) : Prop :=
  ∀ (ε : ℝ) (fs : List (Site ℂ)), 0 < ε → validChain d fs = true →
    (sumStrings d fs.length (fun s => ((Complex.normSq (amp (trunc ε fs) s - amp fs s) : ℝ) : ℂ))).re
      ≤ (fs.length - 1 : ℝ) * ε ^ 2

end EmuVerif.Props.C11
