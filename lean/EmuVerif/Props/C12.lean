/-
  C12 — emu-sv state-vector / density-matrix / dense & sparse operator objects are faithful to
  their definitions.

  Theorems about `Model.SvState` / `Model.TreeVec` (tied to `emu_sv/state_vector.py`,
  `density_matrix_state.py`, `dense_operator.py`, `sparse_operator.py` by the exact correspondence of
  `harness/props/c12.py`), for every number of qubits and all inputs; scalars are any commutative
  star ring with the `LawfulCx` laws (ℂ, the driver's `Cx ℚ`), norms are over `Cx α`, `α` any
  linear ordered field.

  Proved (full):
    bit strings / indices
      * `bitstring_index`            `int(bits, 2)` = `Σ_q bit_q 2^(n−1−q)` (qubit 0 most significant, g/0 ↦ 0, r/1 ↦ 1)
      * `index_is_path`, `assign_is_path`, `assign_out_of_range`, `flat_tensor_order`
      * `from_state_amplitudes_raw`  the amplitude loop writes exactly the addressed entries (later keys win)
      * `entry_after_assign`         reading back
    state vectors
      * `normalize_spec`             `_normalize` gives norm 1 (given the `vector_norm` contract) or leaves data untouched
      * `inner_is_sum`, `inner_conj_symm`, `inner_add_right`, `inner_smul_right`, `inner_smul_left`
    dense operators (row-major torch tensors vs block-recursive linear algebra)
      * `apply_to_is_matvec`, `matmul_is_matmul`, `expect_is_inner`
    density matrices
      * `from_state_vector_entries`, `from_state_vector_hermitian`, `from_state_vector_projector`,
        `from_state_vector_trace`, `overlap_pure_states`
    `_from_operator_repr`
      * `kron_fold_is_kronecker`     `reduce(torch.kron, gates)[r, c] = Π_q gate_q[r_q, c_q]`
      * `targets_last_writer_wins`, `python_index`, `basis_symbols`, `from_operator_repr_step`,
        `dense_entry_add`, `dense_entry_smul`, `dense_rows_entries`
    sparse COO tensors as bags
      * `coalesce_same_matrix`, `sparse_add_is_add`, `sparse_kron_is_kronecker`, `sparse_scale`
  PARTIAL: the end-to-end statement "the sparse `_from_operator_repr` denotes the same matrix as the dense
  one" (`SparseReprEqualsDenseRepr`) is stated, not proved as one theorem: its ingredients (`sparse_kron`,
  `sparse_add`, scaling = Kronecker product, sum, scaling of the denoted matrices; dense fold = Kronecker
  product) are proved, the index-bound invariant through `buildS` is not. It is validated exactly by the
  correspondence (model vs code for both constructors) and by the always-on dense-vs-sparse oracle.
-/
import EmuVerif.Proofs.SvState
import Mathlib.Algebra.Order.Field.Rat

set_option linter.unusedSectionVars false

namespace EmuVerif.Props.C12
open EmuVerif EmuVerif.TreeVec EmuVerif.SvState

variable {κ β : Type} {n : Nat}

/-! ### bit strings and flat indices -/

/-- `int(bits, 2)` of a bit string is `Σ_q bit_q · 2^(len−1−q)`: character `q` is qubit `q`, qubit 0 is the
most significant bit. -/
theorem bitstring_index (bs : List Bool) : bitsToNat bs = Vec.bitIndex bs.length (fun q => bs.getD q false) :=
  bitsToNat_eq bs

/-- characters: `r`/`1` ↦ 1, `g`/`0` ↦ 0, anything else is rejected -/
theorem char_map : charBit 'r' = some true ∧ charBit 'g' = some false ∧ charBit '1' = some true
    ∧ charBit '0' = some false ∧ charBit 'x' = none := by decide

theorem index_is_path (v : Vec β n) (p : Nat → Bool) : Vec.getIdx v (Vec.bitIndex n p) = Vec.get v p :=
  getIdx_bitIndex v p

theorem assign_is_path (v : Vec β n) (p : Nat → Bool) (x : β) :
    Vec.setIdx? v (Vec.bitIndex n p) x = some (Vec.set v p x) := setIdx_bitIndex v p x

theorem assign_out_of_range (v : Vec β n) (i : Nat) (x : β) (h : 2 ^ n ≤ i) : Vec.setIdx? v i x = none :=
  setIdx_none v i x h

theorem flat_tensor_order (v : Vec β n) (i : Nat) (h : i < 2 ^ n) : v.toList[i]? = some (Vec.getIdx v i) :=
  toList_getElem v i h

theorem entry_after_assign (v : Vec β n) (p q : Nat → Bool) (x : β) :
    Vec.get (Vec.set v p x) q = if agree n p q then x else Vec.get v q := get_set v p q x

/-- the loop of `_from_state_amplitudes` on well-formed keys -/
theorem from_state_amplitudes_raw [Zero κ] (path : String → Nat → Bool) (amps : List (String × κ))
    (h : ∀ sa ∈ amps, binToInt sa.1 = some (Vec.bitIndex n (path sa.1))) :
    rawAmplitudes n amps = some (amps.foldl (fun v sa => Vec.set v (path sa.1) sa.2) (Vec.replicate n 0)) :=
  rawAmplitudes_eq path amps _ h

/-! ### state vectors -/
section sv
variable [CommRing κ] [StarRing κ] [CxLike κ] [LawfulCx κ]

theorem inner_is_sum (a b : Vec κ n) :
    Vec.vdot a b = ((a.toList.zip b.toList).map (fun p => star p.1 * p.2)).sum := vdot_eq_list_sum a b
theorem inner_conj_symm (a b : Vec κ n) : star (Vec.vdot a b) = Vec.vdot b a := vdot_conj_symm a b
theorem inner_add_right (a b c : Vec κ n) : Vec.vdot a (b + c) = Vec.vdot a b + Vec.vdot a c := vdot_add_right a b c
theorem inner_smul_right (s : κ) (a b : Vec κ n) : Vec.vdot a (s • b) = s * Vec.vdot a b := vdot_smul_right s a b
theorem inner_smul_left (s : κ) (a b : Vec κ n) : Vec.vdot (s • a) b = star s * Vec.vdot a b := vdot_smul_left s a b

/-! ### dense operators -/

/-- `DenseOperator.apply_to`: the torch `data @ v` on the row-major tensor is the matrix–vector product -/
theorem apply_to_is_matvec (A : Mat κ n) (v : Vec κ n) : applyTo A.toRows v = Mat.mulVec A v := applyTo_toRows A v

/-- `DenseOperator.__matmul__` -/
theorem matmul_is_matmul (A B : Mat κ n) : rmatMul A.toRows B.toRows = (A * B).toRows := rmatMul_toRows A B

/-- `DenseOperator.expect = ⟨ψ| A ψ⟩` -/
theorem expect_is_inner (A : Mat κ n) (v : Vec κ n) : expect A.toRows v = Vec.vdot v (Mat.mulVec A v) := by
  unfold expect; rw [applyTo_toRows]

/-! ### density matrices -/

theorem from_state_vector_entries (ψ : Vec κ n) (p q : Nat → Bool) :
    Vec.get (Vec.get (fromStateVector ψ) p) q = Vec.get ψ p * star (Vec.get ψ q) := get_fromStateVector ψ p q
theorem from_state_vector_hermitian (ψ : Vec κ n) : SvOps.conjT (fromStateVector ψ) = fromStateVector ψ :=
  fromStateVector_hermitian ψ
theorem from_state_vector_projector (ψ v : Vec κ n) : applyTo (fromStateVector ψ) v = Vec.vdot ψ v • ψ :=
  fromStateVector_apply ψ v
theorem from_state_vector_trace (ψ : Vec κ n) : rtrace (fromStateVector ψ) = Vec.vdot ψ ψ := rtrace_fromStateVector ψ
theorem overlap_pure_states (ψ φ : Vec κ n) :
    dmOverlap (fromStateVector ψ) (fromStateVector φ) = Vec.vdot ψ φ * star (Vec.vdot ψ φ) := dmOverlap_pure ψ φ

end sv

/-- `_normalize` (norm tape with its contract) -/
theorem normalize_spec {α : Type} [Field α] [LinearOrder α] [IsStrictOrderedRing α]
    (tol nrm : α) (v : Vec (Cx α) n) (hn : nrm * nrm = normSqV v) (h0 : nrm ≠ 0) :
    (tol < |nrm * nrm * nrm * nrm - 1| → normSqV (normalize tol nrm v) = 1) ∧
    (¬ tol < |nrm * nrm * nrm * nrm - 1| → normalize tol nrm v = v) := SvState.normalize_spec tol nrm v hn h0

/-! ### `_from_operator_repr` -/
section repr
variable [CommRing κ]

theorem kron_fold_is_kronecker (g : Nat → M2 κ) (n : Nat) (r c : Nat → Bool) :
    (kronFold g n).get r c = ((List.range n).map (fun q => (g q).get (r q) (c q))).prod := get_kronFold g n r c

theorem targets_last_writer_wins (f : M2 κ) (n : Nat) (ts : List Int) (g g' : Nat → M2 κ)
    (h : ts.foldlM (fun g t => (normTarget n t).map (fun q => setGate g q f)) g = some g') (k : Nat) :
    g' k = if (∃ t ∈ ts, normTarget n t = some k) then f else g k := targets_fold f n ts g g' h k

theorem python_index (n : Nat) (t : Int) (k : Nat) :
    normTarget n t = some k ↔ (k < n ∧ ((t : Int) = k ∨ t = (k : Int) - n)) := normTarget_spec n t k

theorem basis_symbols (r c r' c' : Bool) :
    (M2.ketbra r c : M2 κ).get r' c' = if r' = r ∧ c' = c then 1 else 0 := ketbra_get r c r' c'

/-- one more term of the operator: `accum_res += coeff * reduce(torch.kron, gates)` -/
theorem from_operator_repr_step (T : List (String × Sym κ)) (fuel n : Nat)
    (ops : List (κ × List (Sym κ × List Int))) (t : κ × List (Sym κ × List Int)) :
    fromOperatorRepr T fuel n (ops ++ [t]) =
      (fromOperatorRepr T fuel n ops).bind (fun acc => (gatesOf T fuel n t.2).bind (fun g =>
        if n = 0 then none else some (acc + t.1 • kronFold g n))) := by
  unfold fromOperatorRepr
  rw [List.foldlM_append]
  simp [List.foldlM_cons, Option.bind_eq_bind]

theorem dense_entry_add (A B : Mat κ n) (r c : Nat → Bool) : (A + B).get r c = A.get r c + B.get r c := get_mat_add A B r c
theorem dense_entry_smul (s : κ) (A : Mat κ n) (r c : Nat → Bool) : (s • A).get r c = s * A.get r c := get_mat_smul s A r c
theorem dense_rows_entries (A : Mat κ n) (r c : Nat → Bool) : Vec.get (Vec.get A.toRows r) c = A.get r c := get_toRows A r c

/-! ### sparse COO -/

theorem coalesce_same_matrix (l : Coo κ) (r c : Nat) : den (coalesce l) r c = den l r c := den_coalesce l r c
theorem sparse_add_is_add (a b : Coo κ) (r c : Nat) : den (sparseAdd a b) r c = den a r c + den b r c := den_sparseAdd a b r c
theorem sparse_scale (s : κ) (l : Coo κ) (r c : Nat) : den (scaleCoo s l) r c = s * den l r c := den_scaleCoo s l r c
theorem sparse_kron_is_kronecker (sbr sbc : Nat) (a b : Coo κ) (hb : ∀ e ∈ b, e.1 < sbr ∧ e.2.1 < sbc) (r c : Nat) :
    den (sparseKron sbr sbc a b) r c = den a (r / sbr) (c / sbc) * den b (r % sbr) (c % sbc) :=
  den_sparseKron sbr sbc a b hb r c

/-- path of a flat index: bit of qubit `q` among `n` -/
def pathOf (n i : Nat) : Nat → Bool := fun q => i.testBit (n - 1 - q)

/-- PARTIAL (stated, not proved): both constructors denote the same matrix. -/
def SparseReprEqualsDenseRepr [DecidableEq κ] : Prop :=
  ∀ (n : Nat) (ops : List (κ × List (Sym κ × List Int))) (A : Mat κ n) (S : Coo κ),
    fromOperatorRepr basisTable 4 n ops = some A → fromOperatorReprS basisTable 4 n ops = some S →
    ∀ r c, r < 2 ^ n → c < 2 ^ n → den S r c = A.get (pathOf n r) (pathOf n c)

end repr

/-! ### concrete instances (kernel-evaluated over `Cx ℚ`; tests / non-vacuity, not theorems about all inputs) -/
section examples
abbrev K := Cx ℚ

def exψ : Vec K 2 := .node (.node (.leaf ⟨1, 2⟩) (.leaf ⟨0, -1⟩)) (.node (.leaf ⟨3, 0⟩) (.leaf ⟨1 / 2, 1⟩))

/-- `"rg"` on two qubits is index 2, `"gr"` index 1 (qubit 0 most significant); bad characters are rejected -/
example : binToInt "rg" = some 2 ∧ binToInt "gr" = some 1 ∧ binToInt "rrg" = some 6 ∧ binToInt "rx" = none
    ∧ binToInt "" = none := by decide

/-- the hypothesis of `from_state_amplitudes_raw` holds for real keys -/
example : ∀ sa ∈ [("rg", (⟨1, 0⟩ : K)), ("gr", ⟨0, 2⟩)],
    binToInt sa.1 = some (Vec.bitIndex 2 ((fun s => if s = "rg" then (fun q => q == 0) else (fun q => q == 1)) sa.1)) := by
  decide

/-- the norm contract of `normalize_spec` is satisfiable: `|(3+4i, 0)| = 5` -/
example : (5 : ℚ) * 5 = normSqV (Vec.node (.leaf ⟨3, 4⟩) (.leaf 0) : Vec (Cx ℚ) 1) ∧ (5 : ℚ) ≠ 0 := by decide +kernel

/-- test: a two-term operator with a repeated target and a negative index, sparse and dense constructors agree -/
example :
    let ops : List (K × List (Sym K × List Int)) :=
      [(⟨2, 0⟩, [(.expr [("rg", ⟨1, 1⟩), ("gg", ⟨3, 0⟩)], [0, 1]), (.expr [("rr", 1)], [-1])]), (⟨0, 1⟩, [])]
    ∃ A S, fromOperatorRepr basisTable 4 2 ops = some A ∧ fromOperatorReprS basisTable 4 2 ops = some S ∧
      ∀ r, r < 4 → ∀ c, c < 4 → den S r c = A.get (pathOf 2 r) (pathOf 2 c) := by
  refine ⟨_, _, rfl, rfl, ?_⟩
  decide +kernel

/-- test: `|ψ⟩⟨ψ|` is Hermitian with trace `⟨ψ|ψ⟩` on a concrete state -/
example : SvOps.conjT (fromStateVector exψ) = fromStateVector exψ ∧ rtrace (fromStateVector exψ) = ⟨65 / 4, 0⟩ := by
  decide +kernel

/-- Observation on `sparse_kron`'s `is_coalesced=True` flag: the a-major product list is duplicate-free here but
**not** sorted by `(row, col)` (here `(1,0)` precedes `(0,2)`), so the flag is not literally true; every consumer in
`sparse_operator.py` re-coalesces or is order-insensitive, so no value is affected. -/
example :
    let a : Coo K := [(0, 0, 1), (0, 1, 2)]
    let b : Coo K := [(0, 0, 1), (1, 0, 3)]
    (sparseKron 2 2 a b).map (fun e => (e.1, e.2.1)) = [(0, 0), (1, 0), (0, 2), (1, 2)] := by decide +kernel

end examples

end EmuVerif.Props.C12
