/-
  C12 (continued) — **the sparse `_from_operator_repr` denotes the same matrix as the dense one**, end to end.

  `Props/C12.lean` states `SparseReprEqualsDenseRepr` as a `def … : Prop` and proves its ingredients (`coalesce_same_matrix`,
  `sparse_add_is_add`, `sparse_scale`, `sparse_kron_is_kronecker`, `kron_fold_is_kronecker`). This file assembles them, for
  EVERY symbol table (not only the four basis symbols), EVERY recursion budget `fuel` (nested symbolic operators included —
  the induction over `fuel` handles them, whether or not the code can reach them), every number of qubits, every list of terms,
  factors and targets, over any commutative ring with decidable equality (`to_sparse_coo` drops exact zeros):

    * `ORel R x y`                          "both constructors raise, or both return and the results are related by `R`"
    * `build_rel`                           `build_torch_operator_from_string`, dense vs sparse: same failures, and the sparse
                                            bag denotes the dense 2×2 matrix with all stored indices `< 2` (`Rep2`)
    * `gates_rel`                           the loop over `(operator, targets)` pairs: same failures (bad symbol, `IndexError`),
                                            every `single_qubit_gates[k]` related by `Rep2`
    * `kron_fold_sparse_eq_dense`           `reduce(sparse_kron, gates)[r, c] = reduce(torch.kron, gates)[r, c]` for `n ≥ 1`, all
                                            `r, c < 2ⁿ` (induction over the Kronecker fold; the index-bound invariant that
                                            `Props/C12.lean` lists as missing is `Rep2`'s first component)
    * `from_operator_repr_rel`              **the whole constructor**: `fromOperatorReprS` and `fromOperatorRepr` fail on
                                            exactly the same inputs, and when they return, `den S r c = A[r, c]` for all
                                            `r, c < 2ⁿ` (`A[r, c]` read through `pathOf`: qubit 0 = most significant bit)
    * `sparse_repr_equals_dense_repr`       the statement of `C12.SparseReprEqualsDenseRepr` for any table and fuel;
      `sparseReprEqualsDenseRepr_holds`     … and the `Prop` of `Props/C12.lean` itself (table = `basisTable`, fuel 4)
    * `sparse_repr_raises_iff_dense_raises` `fromOperatorReprS … = none ↔ fromOperatorRepr … = none`

  What is left (not part of the model): `.to_sparse_csr()` after the construction, `SparseOperator.apply_to/expect/__add__/
  __rmul__/__matmul__` through torch's CSR kernels (validated by the correspondence / oracle of `harness/props/c12.py`).
-/
import EmuVerif.Props.C12

set_option linter.unusedSectionVars false
set_option linter.unusedVariables false

namespace EmuVerif.Props.C12Sparse
open EmuVerif EmuVerif.TreeVec EmuVerif.SvState EmuVerif.Props.C12

/-! ### "same failure, related results" -/

/-- both `none`, or both `some` with related values -/
def ORel {α β : Type} (R : α → β → Prop) : Option α → Option β → Prop
  | some a, some b => R a b
  | none, none => True
  | _, _ => False

theorem ORel.some_some {α β : Type} {R : α → β → Prop} {a : α} {b : β} (h : R a b) : ORel R (some a) (some b) := h

theorem ORel.of_eq {α : Type} (x : Option α) : ORel (fun a b => a = b) x x := by
  cases x <;> simp [ORel]

theorem ORel.bind {α β γ δ : Type} {R : α → β → Prop} {Q : γ → δ → Prop} {x : Option α} {y : Option β}
    {f : α → Option γ} {g : β → Option δ} (h : ORel R x y) (hfg : ∀ a b, R a b → ORel Q (f a) (g b)) :
    ORel Q (x.bind f) (y.bind g) := by
  cases x <;> cases y <;> simp_all [ORel]

theorem ORel.map {α β γ δ : Type} {R : α → β → Prop} {Q : γ → δ → Prop} {x : Option α} {y : Option β}
    {f : α → γ} {g : β → δ} (h : ORel R x y) (hfg : ∀ a b, R a b → Q (f a) (g b)) :
    ORel Q (x.map f) (y.map g) := by
  cases x <;> cases y <;> simp_all [ORel]

theorem ORel.results {α β : Type} {R : α → β → Prop} {x : Option α} {y : Option β} (h : ORel R x y)
    {a : α} {b : β} (hx : x = some a) (hy : y = some b) : R a b := by
  subst hx; subst hy; exact h

theorem ORel.none_iff {α β : Type} {R : α → β → Prop} {x : Option α} {y : Option β} (h : ORel R x y) :
    x = none ↔ y = none := by
  cases x <;> cases y <;> simp_all [ORel]

/-- lock-step `foldlM` -/
theorem foldlM_orel {α β ι : Type} (R : α → β → Prop) (f : α → ι → Option α) (g : β → ι → Option β)
    (h : ∀ a b i, R a b → ORel R (f a i) (g b i)) : ∀ (l : List ι) (a : α) (b : β), R a b →
    ORel R (l.foldlM f a) (l.foldlM g b)
  | [], a, b, hab => by simpa [ORel] using hab
  | i :: l, a, b, hab => by
    simp only [List.foldlM_cons, Option.bind_eq_bind]
    exact ORel.bind (h a b i hab) (fun a' b' h' => foldlM_orel R f g h l a' b' h')

variable {κ : Type} [CommRing κ] [DecidableEq κ]

/-! ### 2×2 level -/

/-- the bag `f` denotes the 2×2 matrix `m`, and every stored index is inside the 2×2 shape -/
def Rep2 (f : Coo κ) (m : M2 κ) : Prop :=
  (∀ e ∈ f, e.1 < 2 ∧ e.2.1 < 2) ∧ ∀ r c, r < 2 → c < 2 → den f r c = m.get (decide (r = 1)) (decide (c = 1))

theorem den_nil (r c : Nat) : den ([] : Coo κ) r c = 0 := rfl

theorem den_filter_ne_zero (l : Coo κ) (r c : Nat) : den (l.filter (fun e => e.2.2 ≠ 0)) r c = den l r c := by
  induction l with
  | nil => rfl
  | cons e l ih =>
    by_cases h : e.2.2 = 0
    · rw [List.filter_cons_of_neg (by simpa using h), ih, den_cons]
      simp [at', h]
    · rw [List.filter_cons_of_pos (by simpa using h), den_cons, den_cons, ih]

/-- `to_sparse_coo()` of a 2×2 tensor -/
theorem rep2_m2ToCoo (m : M2 κ) : Rep2 (m2ToCoo m) m := by
  constructor
  · intro e he
    unfold m2ToCoo at he
    have := (List.mem_filter.mp he).1
    simp only [List.mem_cons, List.not_mem_nil, or_false] at this
    rcases this with rfl | rfl | rfl | rfl <;> simp
  · intro r c hr hc
    unfold m2ToCoo
    rw [den_filter_ne_zero]
    simp only [den_cons, den_nil, at']
    rcases (by omega : r = 0 ∨ r = 1) with rfl | rfl <;> rcases (by omega : c = 0 ∨ c = 1) with rfl | rfl <;>
      simp [M2.get]

theorem m2_get_add_smul (A T : M2 κ) (s : κ) (r c : Bool) : (A + s • T).get r c = A.get r c + s * T.get r c := by
  cases r <;> cases c <;> simp [M2.get]

/-- `result += tensor * coeff` -/
theorem rep2_add_scale {a t : Coo κ} {A T : M2 κ} (ha : Rep2 a A) (ht : Rep2 t T) (s : κ) :
    Rep2 (sparseAdd a (scaleCoo s t)) (A + s • T) := by
  constructor
  · intro e he
    obtain ⟨y, hy, h1, h2⟩ := mem_coalesce e _ he
    rw [h1, h2]
    rcases List.mem_append.mp hy with hy | hy
    · exact ha.1 y hy
    · unfold scaleCoo at hy
      obtain ⟨z, hz, rfl⟩ := List.mem_map.mp hy
      exact ht.1 z hz
  · intro r c hr hc
    rw [den_sparseAdd, den_scaleCoo, ha.2 r c hr hc, ht.2 r c hr hc, m2_get_add_smul]

theorem rep2_nil : Rep2 ([] : Coo κ) M2.zero := by
  constructor
  · intro e he; simp at he
  · intro r c _ _; rw [den_nil]; cases decide (r = 1) <;> cases decide (c = 1) <;> rfl

/-- **`build_torch_operator_from_string`, sparse vs dense**: same failures; on success the bag denotes the matrix. Any
table, any recursion budget (nested symbolic operators included). -/
theorem build_rel (table : List (String × Sym κ)) : ∀ (fuel : Nat) (sym : Sym κ),
    ORel Rep2 (buildS table fuel sym) (build table fuel sym)
  | _, .tensor m => by
    have h1 : ∀ fuel, buildS table fuel (.tensor m) = some (m2ToCoo m) := fun fuel => by cases fuel <;> rfl
    have h2 : ∀ fuel, build table fuel (.tensor m) = some m := fun fuel => by cases fuel <;> rfl
    rw [h1, h2]; exact rep2_m2ToCoo m
  | 0, .expr terms => by simp [buildS, build, ORel]
  | fuel + 1, .expr terms => by
    rw [buildS, build]
    refine foldlM_orel Rep2 _ _ ?_ terms [] M2.zero rep2_nil
    intro a A sc hab
    simp only [Option.bind_eq_bind]
    refine ORel.bind (ORel.of_eq (table.lookup sc.1)) ?_
    rintro sym _ rfl
    refine ORel.bind (build_rel table fuel sym) ?_
    intro t T htT
    exact rep2_add_scale hab htT sc.2

/-! ### the gate table -/

/-- `gates[t] = f for t in targets`, sparse vs dense -/
theorem targets_rel (n : Nat) {fS : Coo κ} {f : M2 κ} (hf : Rep2 fS f) (ts : List Int) (gS : Nat → Coo κ) (g : Nat → M2 κ)
    (hg : ∀ k, Rep2 (gS k) (g k)) :
    ORel (fun gS g => ∀ k, Rep2 (gS k) (g k))
      (ts.foldlM (fun g t => (normTarget n t).map (fun q => setGateS g q fS)) gS)
      (ts.foldlM (fun g t => (normTarget n t).map (fun q => setGate g q f)) g) := by
  refine foldlM_orel _ _ _ ?_ ts gS g hg
  intro gS g t hg
  refine ORel.map (ORel.of_eq (normTarget n t)) ?_
  rintro q _ rfl k
  unfold setGateS setGate
  split
  · exact hf
  · exact hg k

theorem rep2_one : Rep2 (m2ToCoo (M2.one : M2 κ)) M2.one := rep2_m2ToCoo _

/-- **`single_qubit_gates` after the loop over the factors of one term**: same failures, related entry by entry. -/
theorem gates_rel (table : List (String × Sym κ)) (fuel n : Nat) (factors : List (Sym κ × List Int)) :
    ORel (fun gS g => ∀ k, Rep2 (gS k) (g k)) (gatesOfS table fuel n factors) (gatesOf table fuel n factors) := by
  unfold gatesOfS gatesOf
  refine foldlM_orel _ _ _ ?_ factors _ _ (fun _ => rep2_one)
  intro gS g ft hg
  simp only [Option.bind_eq_bind]
  refine ORel.bind (build_rel table fuel ft.1) ?_
  intro fS f hf
  exact targets_rel n hf ft.2 gS g hg

/-! ### the Kronecker fold -/

theorem pathOf_succ_div (n r q : Nat) (hq : q < n + 1) : pathOf (n + 2) r q = pathOf (n + 1) (r / 2) q := by
  unfold pathOf
  have : n + 2 - 1 - q = (n + 1 - 1 - q) + 1 := by omega
  rw [this, Nat.testBit_succ]

theorem pathOf_last (n r : Nat) : pathOf (n + 1) r n = decide (r % 2 = 1) := by
  unfold pathOf
  have : n + 1 - 1 - n = 0 := by omega
  rw [this, Nat.testBit_zero]

theorem decide_mod_two (r : Nat) (hr : r < 2) : decide (r % 2 = 1) = decide (r = 1) := by
  rcases (by omega : r = 0 ∨ r = 1) with rfl | rfl <;> rfl

/-- **`reduce(sparse_kron, gates)` = `reduce(torch.kron, gates)`**, entry by entry, for every `n ≥ 1`. -/
theorem kron_fold_sparse_eq_dense (gS : Nat → Coo κ) (g : Nat → M2 κ) (hg : ∀ k, Rep2 (gS k) (g k)) :
    ∀ (n r c : Nat), r < 2 ^ (n + 1) → c < 2 ^ (n + 1) →
      den (kronFoldS gS (n + 1)) r c = (kronFold g (n + 1)).get (pathOf (n + 1) r) (pathOf (n + 1) c)
  | 0, r, c, hr, hc => by
    have hr' : r < 2 := by simpa using hr
    have hc' : c < 2 := by simpa using hc
    have hp : ∀ i, pathOf 1 i 0 = decide (i % 2 = 1) := fun i => pathOf_last 0 i
    show den (gS 0) r c = (kronFold g 1).get (pathOf 1 r) (pathOf 1 c)
    rw [get_kronFold, (hg 0).2 r c hr' hc']
    simp only [List.range_one, List.map_cons, List.map_nil, List.prod_cons, List.prod_nil, mul_one]
    rw [hp r, hp c, decide_mod_two r hr', decide_mod_two c hc']
  | n + 1, r, c, hr, hc => by
    have hr2 : r / 2 < 2 ^ (n + 1) := by rw [Nat.div_lt_iff_lt_mul (by norm_num)]; rw [pow_succ] at hr; exact hr
    have hc2 : c / 2 < 2 ^ (n + 1) := by rw [Nat.div_lt_iff_lt_mul (by norm_num)]; rw [pow_succ] at hc; exact hc
    have ih := kron_fold_sparse_eq_dense gS g hg n (r / 2) (c / 2) hr2 hc2
    show den (sparseKron 2 2 (kronFoldS gS (n + 1)) (gS (n + 1))) r c = _
    rw [den_sparseKron 2 2 _ _ (hg (n + 1)).1, ih,
      (hg (n + 1)).2 (r % 2) (c % 2) (Nat.mod_lt _ (by norm_num)) (Nat.mod_lt _ (by norm_num))]
    show _ = (Mat.kronR (kronFold g (n + 1)) (g (n + 1))).get _ _
    rw [get_kronR, pathOf_last (n + 1) r, pathOf_last (n + 1) c, get_kronFold, get_kronFold]
    congr 2
    refine List.map_congr_left (fun q hq => ?_)
    have hq' : q < n + 1 := List.mem_range.mp hq
    rw [pathOf_succ_div n r q hq', pathOf_succ_div n c q hq']

/-! ### the whole constructor -/

/-- the bag `S` denotes the dense `2ⁿ × 2ⁿ` matrix `A` -/
def RepN (n : Nat) (S : Coo κ) (A : Mat κ n) : Prop :=
  ∀ r c, r < 2 ^ n → c < 2 ^ n → den S r c = A.get (pathOf n r) (pathOf n c)

theorem get_mat_zero : ∀ (n : Nat) (r c : Nat → Bool), (Mat.zero n : Mat κ n).get r c = 0
  | 0, r, c => rfl
  | n + 1, r, c => by
    simp only [Mat.zero, Mat.get]
    cases r 0 <;> cases c 0 <;> simp only [get_mat_zero n]

theorem repN_nil (n : Nat) : RepN n ([] : Coo κ) (Mat.zero n) := by
  intro r c _ _; rw [den_nil, get_mat_zero]

/-- **End to end**: `SparseOperator._from_operator_repr` and `DenseOperator._from_operator_repr` raise on exactly the
same operator representations, and otherwise the sparse result denotes the dense matrix. -/
theorem from_operator_repr_rel (table : List (String × Sym κ)) (fuel n : Nat)
    (ops : List (κ × List (Sym κ × List Int))) :
    ORel (RepN n) (fromOperatorReprS table fuel n ops) (fromOperatorRepr table fuel n ops) := by
  unfold fromOperatorReprS fromOperatorRepr
  refine foldlM_orel (RepN n) _ _ ?_ ops [] (Mat.zero n) (repN_nil n)
  intro S A term hSA
  simp only [Option.bind_eq_bind]
  refine ORel.bind (gates_rel table fuel n term.2) ?_
  intro gS g hg
  cases n with
  | zero => simp [ORel]
  | succ n =>
    simp only [Nat.succ_ne_zero, if_false]
    intro r c hr hc
    rw [den_sparseAdd, den_scaleCoo, hSA r c hr hc, kron_fold_sparse_eq_dense gS g hg n r c hr hc, get_mat_add,
      get_mat_smul]

/-- `C12.SparseReprEqualsDenseRepr`, for any symbol table and recursion budget -/
theorem sparse_repr_equals_dense_repr (table : List (String × Sym κ)) (fuel n : Nat)
    (ops : List (κ × List (Sym κ × List Int))) (A : Mat κ n) (S : Coo κ)
    (hA : fromOperatorRepr table fuel n ops = some A) (hS : fromOperatorReprS table fuel n ops = some S)
    (r c : Nat) (hr : r < 2 ^ n) (hc : c < 2 ^ n) : den S r c = A.get (pathOf n r) (pathOf n c) :=
  (from_operator_repr_rel table fuel n ops).results hS hA r c hr hc

/-- **the `Prop` stated in `Props/C12.lean` holds** -/
theorem sparseReprEqualsDenseRepr_holds : @SparseReprEqualsDenseRepr κ _ _ :=
  fun n ops A S hA hS r c hr hc => sparse_repr_equals_dense_repr basisTable 4 n ops A S hA hS r c hr hc

/-- the two constructors reject exactly the same representations -/
theorem sparse_repr_raises_iff_dense_raises (table : List (String × Sym κ)) (fuel n : Nat)
    (ops : List (κ × List (Sym κ × List Int))) :
    fromOperatorReprS table fuel n ops = none ↔ fromOperatorRepr table fuel n ops = none :=
  (from_operator_repr_rel table fuel n ops).none_iff

/-! ### non-vacuity (kernel-evaluated over `Cx ℚ`) -/
section examples

/-- both constructors return on a two-term operator with a repeated target, a negative index and a NESTED symbol
(`"x"` is defined in terms of `"rg"` and `"gr"`): the hypotheses of `sparse_repr_equals_dense_repr` are satisfiable -/
example :
    let table : List (String × Sym K) := ("x", .expr [("rg", 1), ("gr", 1)]) :: basisTable
    let ops : List (K × List (Sym K × List Int)) :=
      [(⟨2, 0⟩, [(.expr [("x", ⟨1, 1⟩), ("gg", ⟨3, 0⟩)], [0, 1]), (.expr [("rr", 1)], [-1])]), (⟨0, 1⟩, [])]
    (fromOperatorRepr table 4 2 ops).isSome = true ∧ (fromOperatorReprS table 4 2 ops).isSome = true := by
  decide +kernel

/-- both reject an out-of-range target (`IndexError`) and an unknown symbol (`KeyError`) -/
example :
    fromOperatorRepr (basisTable : List (String × Sym K)) 4 2 [(1, [(.expr [("rr", 1)], [2])])] = none ∧
    fromOperatorReprS (basisTable : List (String × Sym K)) 4 2 [(1, [(.expr [("rr", 1)], [2])])] = none ∧
    fromOperatorRepr (basisTable : List (String × Sym K)) 4 2 [(1, [(.expr [("zz", 1)], [0])])] = none ∧
    fromOperatorReprS (basisTable : List (String × Sym K)) 4 2 [(1, [(.expr [("zz", 1)], [0])])] = none := by
  decide +kernel

end examples

end EmuVerif.Props.C12Sparse
