/-
  C13 — every built-in observable emu-sv reports equals its definition on the current state.

  Theorems about `Model.SvObs` (tied to `emu_sv/custom_callback_implementations.py`, `RydbergHamiltonian.expect`,
  `RydbergLindbladian.expect` by the correspondence of `harness/props/c13.py`), for every number of qubits, every
  state and all Hamiltonian parameters. Scalars: any commutative star ring with the `LawfulCx` laws; ranges and the
  variance over `Cx α`, `α` any linear ordered field. Dense operators are the C06 ones (`embed n k n̂`, `denseH`).

  Proved (full, state vectors and density matrices):
    * `occupation_sv_eq_dense`       `Σ_{s: bit k set} |ψ_s|² = ⟨ψ| n_k ψ⟩`
    * `correlation_sv_eq_dense`      `i < j`: `Σ_{s: bits i, j set} |ψ_s|² = ⟨ψ| n_i n_j ψ⟩`; `correlation_sv_diag` (`i = j`:
                                     the occupation `= ⟨ψ| n_i n_i ψ⟩`), `correlation_sv_symm`
    * `occupation_dm_eq_trace`, `correlation_dm_eq_trace`, `correlation_dm_diag`   diagonal sub-sums `= tr(n_k ρ)`, `tr(n_i n_j ρ)`
    * `pure_state_dm_occupation`, `pure_state_dm_correlation`   on `ρ = |ψ⟩⟨ψ|` they are the state-vector values
    * `energy_sv_eq_dense`, `second_moment_sv_eq_dense`   `⟨ψ|Hψ⟩`, `⟨Hψ|Hψ⟩` with the dense `H` of C06
    * `energy_dm_eq_trace`, `second_moment_dm_eq_trace`   `tr(Hρ)`, `tr(H·Hρ)`
    * `occupation_real`, `correlation_real`   the values are real: they are the numbers the code returns
    * `occupation_range`, `correlation_range`  in `[0, 1]` for a normalised state
    * `cauchy_schwarz`, `variance_nonneg`      `⟨Hψ|Hψ⟩ − ⟨ψ|Hψ⟩² ≥ 0` for a normalised state
  Fidelity and expectation are `StateVector.overlap` / `DenseOperator.expect`: C12 (`overlap`, `expect_is_inner`).
  Not proved here (PARTIAL for the whole of C13): the emu-mps observables, `fill_results` normalisation, dark-atom
  padding and entanglement entropy are *validated* against dense definitions by the always-on oracle of the harness
  (`MpsObservablesFaithful` names the statement; their algebra is C11); non-negativity of the density-matrix
  variance needs positivity of `ρ` and is not stated.
-/
import EmuVerif.Proofs.SvObs
import EmuVerif.Props.C06
import Mathlib.Algebra.Order.Field.Rat

set_option linter.unusedSectionVars false

namespace EmuVerif.Props.C13
open EmuVerif EmuVerif.TreeVec EmuVerif.SvOps EmuVerif.SvState EmuVerif.SvObs

variable {κ : Type} {n : Nat}

section generic
variable [CommRing κ] [StarRing κ] [CxLike κ] [LawfulCx κ]

theorem occupation_sv_eq_dense (ψ : Vec κ n) (k : Nat) (hk : k < n) :
    occSv ψ k = Vec.vdot ψ (Mat.mulVec (Mat.embed n k (M2.nOp : M2 κ)) ψ) := by
  rw [occSv_eq k hk, applyAt_eq_mulVec]

theorem correlation_sv_eq_dense (ψ : Vec κ n) (i j : Nat) (hij : i < j) (hj : j < n) :
    corrSv ψ i j = Vec.vdot ψ (Mat.mulVec (Mat.embed n i (M2.nOp : M2 κ) * Mat.embed n j (M2.nOp : M2 κ)) ψ) := by
  unfold corrSv
  rw [if_neg (Nat.ne_of_lt hij), if_pos hij, corrSv_lt_eq i j hij hj, Mat.mulVec_mul, applyAt_eq_mulVec, applyAt_eq_mulVec]

theorem correlation_sv_diag (ψ : Vec κ n) (i : Nat) (hi : i < n) :
    corrSv ψ i i = Vec.vdot ψ (Mat.mulVec (Mat.embed n i (M2.nOp : M2 κ) * Mat.embed n i (M2.nOp : M2 κ)) ψ) := by
  unfold corrSv
  rw [if_pos rfl, occSv_eq i hi, Mat.mulVec_mul, ← applyAt_eq_mulVec, ← applyAt_eq_mulVec, applyAt_nOp_idem]

theorem correlation_sv_symm (ψ : Vec κ n) (i j : Nat) : corrSv ψ i j = corrSv ψ j i := by
  unfold corrSv
  by_cases h : i = j
  · subst h; rfl
  · rcases Nat.lt_or_gt_of_ne h with h1 | h1
    · rw [if_neg h, if_pos h1, if_neg (Ne.symm h), if_neg (Nat.lt_asymm h1)]
    · rw [if_neg h, if_neg (Nat.lt_asymm h1), if_neg (Ne.symm h), if_pos h1]

theorem occupation_dm_eq_trace (R : Mat κ n) (k : Nat) (hk : k < n) :
    occDm R.toRows k = (Mat.embed n k (M2.nOp : M2 κ) * R).trace := by
  rw [occDm_eq k hk, applyAt_eq_mulVec, Mat.mulVec_toRows, rtrace_toRows]

theorem correlation_dm_eq_trace (R : Mat κ n) (i j : Nat) (hij : i < j) (hj : j < n) :
    corrDm R.toRows i j = (Mat.embed n i (M2.nOp : M2 κ) * (Mat.embed n j (M2.nOp : M2 κ) * R)).trace := by
  unfold corrDm
  rw [if_neg (Nat.ne_of_lt hij), if_pos hij, corrDm_lt_eq i j hij hj, applyAt_eq_mulVec, applyAt_eq_mulVec,
    Mat.mulVec_toRows, Mat.mulVec_toRows, rtrace_toRows]

theorem correlation_dm_diag (ρ : RMat κ n) (i : Nat) : corrDm ρ i i = occDm ρ i := by
  unfold corrDm; rw [if_pos rfl]

theorem diagonal_pure_state (ψ : Vec κ n) : Vec.diagonal (fromStateVector ψ) = ψ.map absSq :=
  Vec.ext_get (fun p => by
    rw [get_diagonal, get_fromStateVector]; simp [absSq, LawfulCx.conj_eq, mul_comm])

theorem pure_state_dm_occupation (ψ : Vec κ n) (k : Nat) : occDm (fromStateVector ψ) k = occSv ψ k := by
  unfold occDm occSv; rw [diagonal_pure_state]

theorem pure_state_dm_correlation (ψ : Vec κ n) (i j : Nat) : corrDm (fromStateVector ψ) i j = corrSv ψ i j := by
  unfold corrDm corrSv occDm occSv; rw [diagonal_pure_state]

/-- `RydbergHamiltonian.expect` before `.real`; the realness hypothesis is the one of C06 (`hamiltonian_mul_eq_denseH`) -/
theorem energy_sv_eq_dense (Ω δ : Nat → κ) (ph : Nat → Phase κ) (U : Nat → Nat → κ) (ψ : Vec κ n)
    (hreal : isComplex ph n = true → ∀ k, k < n →
      star (Ω k) = Ω k ∧ star (ph k).c = (ph k).c ∧ star (ph k).s = (ph k).s) :
    energySv Ω δ ph U ψ = Vec.vdot ψ (Mat.mulVec (denseH Ω δ ph U n) ψ) := by
  unfold energySv; rw [EmuVerif.Props.C06.hamiltonian_mul_eq_denseH Ω δ ph U ψ hreal]

theorem second_moment_sv_eq_dense (Ω δ : Nat → κ) (ph : Nat → Phase κ) (U : Nat → Nat → κ) (ψ : Vec κ n)
    (hreal : isComplex ph n = true → ∀ k, k < n →
      star (Ω k) = Ω k ∧ star (ph k).c = (ph k).c ∧ star (ph k).s = (ph k).s) :
    secondSv Ω δ ph U ψ = Vec.vdot (Mat.mulVec (denseH Ω δ ph U n) ψ) (Mat.mulVec (denseH Ω δ ph U n) ψ) := by
  unfold secondSv; rw [EmuVerif.Props.C06.hamiltonian_mul_eq_denseH Ω δ ph U ψ hreal]

theorem energy_dm_eq_trace (batched : Bool) (Ω δ : Nat → κ) (ph : Nat → Phase κ) (U : Nat → Nat → κ) (R : Mat κ n) :
    energyDm batched Ω δ ph U R.toRows = (denseH Ω δ ph U n * R).trace := energyDm_eq batched Ω δ ph U R

theorem second_moment_dm_eq_trace (batched : Bool) (Ω δ : Nat → κ) (ph : Nat → Phase κ) (U : Nat → Nat → κ) (R : Mat κ n) :
    secondDm batched Ω δ ph U R.toRows = (denseH Ω δ ph U n * (denseH Ω δ ph U n * R)).trace :=
  secondDm_eq batched Ω δ ph U R

/-- the statement that is validated, not proved, for MPS: for a contraction map `toDense` of an MPS type `M` and the
reported occupations / correlations, the values are the state-vector ones of the normalised contracted state -/
def MpsObservablesFaithful {M : Type} (toDense : M → Vec κ n) (normalise : Vec κ n → Vec κ n)
    (occM : M → Nat → κ) (corrM : M → Nat → Nat → κ) : Prop :=
  ∀ s : M, (∀ k, k < n → occM s k = occSv (normalise (toDense s)) k) ∧
    (∀ i j, i < n → j < n → corrM s i j = corrSv (normalise (toDense s)) i j)

end generic

section real
variable {α : Type} [Field α] [LinearOrder α] [IsStrictOrderedRing α]

theorem occupation_real (ψ : Vec (Cx α) n) (k : Nat) : occSv ψ k = ⟨occSvR ψ k, 0⟩ := occSv_cx ψ k
theorem correlation_real (ψ : Vec (Cx α) n) (i j : Nat) : corrSv ψ i j = ⟨corrSvR ψ i j, 0⟩ := corrSv_cx ψ i j

theorem occupation_range (ψ : Vec (Cx α) n) (hψ : normSqV ψ = 1) (k : Nat) : 0 ≤ occSvR ψ k ∧ occSvR ψ k ≤ 1 :=
  occSvR_range ψ hψ k
theorem correlation_range (ψ : Vec (Cx α) n) (hψ : normSqV ψ = 1) (i j : Nat) :
    0 ≤ corrSvR ψ i j ∧ corrSvR ψ i j ≤ 1 := corrSvR_range ψ hψ i j

theorem cauchy_schwarz (a b : Vec (Cx α) n) (ha : normSqV a = 1) : Cx.normSq (Vec.vdot a b) ≤ normSqV b :=
  cauchy_schwarz_normalised a b ha

theorem variance_nonneg (Ω δ : Nat → Cx α) (ph : Nat → Phase (Cx α)) (U : Nat → Nat → Cx α) (ψ : Vec (Cx α) n)
    (hψ : normSqV ψ = 1) : 0 ≤ varianceSv Ω δ ph U ψ := varianceSv_nonneg Ω δ ph U ψ hψ

end real

/-! ### concrete instances (kernel-evaluated over `Cx ℚ`: non-vacuity / tests) -/
section examples
abbrev K := Cx ℚ
/-- a normalised, entangled two-qubit state `(3/5 |gr⟩ + (4/5) i |rg⟩)` -/
def exψ : Vec K 2 := .node (.node (.leaf 0) (.leaf ⟨3 / 5, 0⟩)) (.node (.leaf ⟨0, 4 / 5⟩) (.leaf 0))

/-- the hypothesis `normSqV ψ = 1` is satisfiable -/
example : normSqV exψ = 1 := by decide +kernel
/-- test: occupations `(16/25, 9/25)`, correlation `0` -/
example : occSvR exψ 0 = 16 / 25 ∧ occSvR exψ 1 = 9 / 25 ∧ corrSvR exψ 0 1 = 0 ∧ corrSvR exψ 1 1 = 9 / 25 := by
  decide +kernel
/-- test: the density matrix of that state gives the same numbers -/
example : occDm (fromStateVector exψ) 0 = ⟨16 / 25, 0⟩ ∧ corrDm (fromStateVector exψ) 1 0 = 0 := by decide +kernel

end examples
end EmuVerif.Props.C13
