/-
  C13 (energy), C05 ↔ C11 bridge — the energy emu-mps reports is ⟨ψ|H|ψ⟩ with the DENSE neutral-atom Hamiltonian.

  Two proved worlds are connected here:
    * C05 (`Props/C05.lean`): the LABEL-indexed MPO factors of `make_H` / `update_H` (`Model/HamMPO.factors`)
      contract, in any algebra with unital linear site embeddings, to `Σ_m emb_m(h_m) + Σ_{i<j} c·U_ij Σ_k
      emb_i(op_k)·emb_j(op_k)`; instantiated at `Matrix (Fin N → Fin d) (Fin N → Fin d) K` with the Kronecker
      embeddings this is the dense `d^N × d^N` Hamiltonian `Hmat P`;
    * C11 / C13Mps: `MPO.expect` on NUMERICALLY indexed factors is `Σ_{s,t} conj(amp s)·opAmp d H s t·amp t`.
  The bridge is `Model/HamBridge.toTensor d ent`: the enumerated HamMPO factors — the arrays the exact
  correspondence of C05 compares entry by entry with the real torch tensors — read as Tensor-model factors
  (`t (o·d+i) l r = factor[l][r][o, i]`).

  Proved, for EVERY `N ≥ 2`, every `d` (2 and 3 in particular), every symmetric `U`, arbitrary local operators
  `op k` (Rydberg: `n`; XY: `sx, sy` — the statement is about `Params`, so both classes are covered) and arbitrary
  single-site terms `h m` (drive + detuning + complex noise block), scalars in any commutative ring `K`:
    * `ham_mpo_valid`            the converted factors pass the assertions of `MPO.__init__` (`validChain`);
    * `ham_opAmp_eq_dense`       `opAmp d (toTensor (factors P)) s t = ⟨s|Hmat P|t⟩` for all configurations;
      `ham_opAmp_eq_denseElem`   the same for level strings, with the executable dense builder `denseElem`
                                 (`= Σ_m [s=t off m] h_m[s_m,t_m] + Σ_{i<j} c·U_ij Σ_k [s=t off i,j] op_k[s_i,t_i]·op_k[s_j,t_j]`);
      `rydberg_opAmp_eq_dense`, `xy_opAmp_eq_dense`   the two layouts written out;
      `ham_opAmp_after_updates`  after ANY finite sequence of `update_H` calls on the same factor list;
    * `energy_eq_dense_hamiltonian`, `energy_eq_denseEnergy`, `energy_after_updates`
                                 `MPO.expect(H-MPO, ψ) = Σ_{σ,τ} conj(ψ_σ)·⟨σ|H_dense|τ⟩·ψ_τ` for every valid Tensor-model
                                 MPS (any bond dimensions, not normalised, not canonical) — `K` a commutative star ring;
    * `energy_of_scaled_state`   `fill_results` hands `(1/‖ψ‖)·ψ` to the callbacks: the energy of `λ·ψ` is `conj(λ)·λ ×` that of `ψ`;
    * `padded_energy_eq_dense`   dark-atom padding (`extended_mps_factors` / `extended_mpo_factors`, C25): the energy
                                 of the padded pair is the dense form of the REDUCED Hamiltonian on the reduced state;
    * over `ℂ`: `energy_eq_inner` (the reported number is `⟨ψ, Hψ⟩` in `EuclideanSpace ℂ (Fin N → Fin d)`),
      `energy_ge_ground_energy`  for a normalised MPS (`⟨ψ|ψ⟩ = 1`, what `fill_results` establishes) the real part of
                                 the reported energy is ≥ the infimum of the Rayleigh quotient of `Hmat P` (C09's
                                 `variational_bound_unit`) — no Hermiticity needed for this direction;
      `Hmat_isHermitian`, `ground_energy_is_least_eigenvalue`, `energy_real`
                                 for Hermitian `h m`, `op k` and real `c·U i j` the matrix `Hmat P` is Hermitian, that
                                 infimum is its least eigenvalue, and the reported energy is real.
  Not covered (unchanged): binary64 rounding; that the model factors ARE the torch tensors (C05's exact
  correspondence, extended in harness/props/c13_energy.py to `MPO.expect` on the real factors); DMRG's own claim
  "matches the ground energy" (C09: not a theorem).
-/
import EmuVerif.Proofs.HamBridge
import EmuVerif.Props.C11
import EmuVerif.Props.C25
import EmuVerif.Props.C09
import EmuVerif.Model.MpsObs
import Mathlib.Analysis.InnerProductSpace.PiL2
import Mathlib.Analysis.Matrix.Hermitian

set_option linter.unusedSectionVars false
set_option linter.unusedVariables false
set_option linter.unusedSimpArgs false

namespace EmuVerif.Props.C13Energy
open EmuVerif EmuVerif.HamMPO EmuVerif.Tensor EmuVerif.HamBridge Finset
open EmuVerif.Props.C05 (kronEmb siteEmb siteEmb_one Hdense)

/-! ## the operator semantics of the Hamiltonian MPO -/

section bridge
variable {K : Type} [CommRing K] [DecidableEq K] {N d : ℕ}

/-- The dense Hamiltonian `Σ_m 1⊗…⊗h_m⊗…⊗1 + Σ_{i<j} c·U_ij Σ_k (op_k)_i (op_k)_j` as a `d^N × d^N` matrix indexed
by configurations: C05's `Hdense` at the Kronecker site embeddings (the matrix of `rydberg_mpo_eq_dense_matrix`). -/
def Hmat (P : Params K (Matrix (Fin d) (Fin d) K)) (N : ℕ) (hN : 2 ≤ N) : Matrix (Cfg N d) (Cfg N d) K :=
  Hdense P (kronEmb (α := K) N d (by omega))

/-- the emu-mps Hamiltonian of the model as a Tensor-model MPO -/
abbrev hamMPO (d : ℕ) (P : Params K (Matrix (Fin d) (Fin d) K)) : List (Site K) :=
  toTensor d matEnt (factors P)

/-- The converted factors satisfy what `MPO.__init__` asserts: ≥ 2 factors, outer bonds 1, matching bonds. -/
theorem ham_mpo_valid (P : Params K (Matrix (Fin d) (Fin d) K)) (hU : ∀ i j, P.U i j = P.U j i)
    (hN : 2 ≤ P.N) : validChain (d * d) (hamMPO d P) = true :=
  validChain_toTensor d matEnt (factors P) (by rw [factors_length P hN]; exact hN) (factors_shape P hU hN)

theorem ham_mpo_length (P : Params K (Matrix (Fin d) (Fin d) K)) (hN : 2 ≤ P.N) :
    (hamMPO d P).length = P.N := by
  rw [hamMPO, toTensor_length, factors_length P hN]

/-- **Bridge, flagship.**  For every `N ≥ 2`, `d`, symmetric `U`, local operators and single-site terms: the
operator semantics (`opAmp`, C11) of the emu-mps Hamiltonian factors, laid out numerically as the code lays
them out, is the matrix of the dense Hamiltonian in the computational basis. -/
theorem ham_opAmp_eq_dense (P : Params K (Matrix (Fin d) (Fin d) K)) (hU : ∀ i j, P.U i j = P.U j i)
    (hN : 2 ≤ N) (hP : P.N = N) (σ τ : Cfg N d) :
    opAmp d (hamMPO d P) (strOf σ) (strOf τ) = Hmat P N hN σ τ :=
  entry_of_contract (by omega) (factors P) (by rw [factors_length P (by omega), hP])
    (factors_shape P hU (by omega)) _
    (EmuVerif.Props.C05.mpo_eq_dense P (kronEmb (α := K) N d (by omega)) (fun n => siteEmb_one N d _) hU
      (by omega)) σ τ

/-- the same for level strings (`s`, `t` of length `N`, levels `< d`), against the executable dense builder -/
theorem ham_opAmp_eq_denseElem (P : Params K (Matrix (Fin d) (Fin d) K)) (hU : ∀ i j, P.U i j = P.U j i)
    (hN : 2 ≤ P.N) (s t : List ℕ) (hs : s.length = P.N) (ht : t.length = P.N)
    (hsd : ∀ x ∈ s, x < d) (htd : ∀ x ∈ t, x < d) :
    opAmp d (hamMPO d P) s t = denseElem P matEnt id s t := by
  have hd : 0 < d := by
    cases s with
    | nil => simp at hs; omega
    | cons x s => exact lt_of_le_of_lt (Nat.zero_le _) (hsd x (List.mem_cons_self ..))
  have es := strOf_cfgOf P.N d hd s hs hsd
  have et := strOf_cfgOf P.N d hd t ht htd
  rw [← es, ← et, ham_opAmp_eq_dense P hU hN rfl, Hmat, denseElem_eq_Hdense (by omega) P rfl]

/-- Rydberg layout written out: `Σ_m (h_m)_m + Σ_{i<j} U_ij n̂_i n̂_j`, entry `(σ, τ)`. -/
theorem rydberg_opAmp_eq_dense (hN : 2 ≤ N) (U : ℕ → ℕ → K) (hU : ∀ i j, U i j = U j i)
    (nop : Matrix (Fin d) (Fin d) K) (h : ℕ → Matrix (Fin d) (Fin d) K) (σ τ : Cfg N d) :
    opAmp d (hamMPO d (mkRyd N U nop h)) (strOf σ) (strOf τ)
      = (∑ m ∈ range N, kronEmb (α := K) N d (by omega) m (h m)
          + ∑ j ∈ range N, ∑ i ∈ range j,
              U i j • (kronEmb (α := K) N d (by omega) i nop * kronEmb (α := K) N d (by omega) j nop)) σ τ := by
  rw [ham_opAmp_eq_dense (mkRyd N U nop h) hU hN rfl]
  simp [Hmat, Hdense, mkRyd]

/-- XY layout written out: `Σ_m (h_m)_m + Σ_{i<j} 2U_ij (sx_i sx_j + sy_i sy_j)`, entry `(σ, τ)`. -/
theorem xy_opAmp_eq_dense (hN : 2 ≤ N) (U : ℕ → ℕ → K) (hU : ∀ i j, U i j = U j i)
    (sx sy : Matrix (Fin d) (Fin d) K) (h : ℕ → Matrix (Fin d) (Fin d) K) (σ τ : Cfg N d) :
    opAmp d (hamMPO d (mkXY N U sx sy h)) (strOf σ) (strOf τ)
      = (∑ m ∈ range N, kronEmb (α := K) N d (by omega) m (h m)
          + ∑ j ∈ range N, ∑ i ∈ range j,
              (2 * U i j) • (kronEmb (α := K) N d (by omega) i sx * kronEmb (α := K) N d (by omega) j sx
                + kronEmb (α := K) N d (by omega) i sy * kronEmb (α := K) N d (by omega) j sy)) σ τ := by
  rw [ham_opAmp_eq_dense (mkXY N U sx sy h) hU hN rfl]
  simp [Hmat, Hdense, mkXY, Finset.sum_range_succ, smul_add]

/-- **after `update_H`**: any finite sequence of in-place updates `h₁, …, h_k, h` on the factor list of `make_H`
leaves an MPO whose operator semantics is the dense Hamiltonian with the LAST single-site terms. -/
theorem ham_opAmp_after_updates (P : Params K (Matrix (Fin d) (Fin d) K)) (hU : ∀ i j, P.U i j = P.U j i)
    (hN : 2 ≤ N) (hP : P.N = N) (hs : List (ℕ → Matrix (Fin d) (Fin d) K))
    (h : ℕ → Matrix (Fin d) (Fin d) K) (σ τ : Cfg N d) :
    opAmp d (toTensor d matEnt ((hs ++ [h]).foldl updateH (factors P))) (strOf σ) (strOf τ)
      = Hmat (withH P h) N hN σ τ := by
  rw [EmuVerif.Props.C05.updateSeq_eq_rebuild P (hs ++ [h]) (by omega), List.getLastD_concat]
  exact ham_opAmp_eq_dense (withH P h) hU hN hP σ τ

end bridge

/-! ## the Energy observable -/

section energy
variable {K : Type} [CommRing K] [StarRing K] [DecidableEq K] {N d : ℕ}

/-- **`energy_mps_impl` = ⟨ψ|H_dense|ψ⟩.**  For every valid Tensor-model MPS `As` (any bond dimensions, any norm,
any gauge) of `N = P.N` sites: `MPO.expect` of the emu-mps Hamiltonian factors is the sesquilinear form of the
dense Hamiltonian matrix on the amplitudes of the state. -/
theorem energy_eq_dense_hamiltonian (P : Params K (Matrix (Fin d) (Fin d) K)) (hU : ∀ i j, P.U i j = P.U j i)
    (hN : 2 ≤ N) (hP : P.N = N) (As : List (Site K)) (hA : validChain d As = true) (hlen : As.length = N) :
    expect As (hamMPO d P)
      = some (∑ σ : Cfg N d, ∑ τ : Cfg N d, star (amp As (strOf σ)) * Hmat P N hN σ τ * amp As (strOf τ)) := by
  rw [EmuVerif.Props.C11.expect_eq_dense d As (hamMPO d P) hA (ham_mpo_valid P hU (by omega))
    (by rw [ham_mpo_length P (by omega), hlen, hP]), hlen, sumStrings_eq_sum]
  congr 1
  refine Finset.sum_congr rfl (fun σ _ => ?_)
  rw [sumStrings_eq_sum]
  refine Finset.sum_congr rfl (fun τ _ => ?_)
  rw [ham_opAmp_eq_dense P hU hN hP]

/-- the same against the executable dense builder (what the driver computes as `D=`) -/
theorem energy_eq_denseEnergy (P : Params K (Matrix (Fin d) (Fin d) K)) (hU : ∀ i j, P.U i j = P.U j i)
    (hN : 2 ≤ P.N) (As : List (Site K)) (hA : validChain d As = true) (hlen : As.length = P.N) :
    expect As (hamMPO d P) = some (denseEnergy d P.N (denseElem P matEnt id) As) := by
  rw [EmuVerif.Props.C11.expect_eq_dense d As (hamMPO d P) hA (ham_mpo_valid P hU hN)
    (by rw [ham_mpo_length P hN, hlen]), hlen]
  congr 1
  unfold denseEnergy
  refine Dark.sumStrings_congr' _ _ _ _ (fun s hs hsd => Dark.sumStrings_congr' _ _ _ _ (fun t ht htd => ?_))
  rw [ham_opAmp_eq_denseElem P hU hN s t hs ht hsd htd]
  rfl

/-- **the energy after any sequence of `update_H` calls** is the dense form of the Hamiltonian with the last
single-site terms (no stale drive or noise terms). -/
theorem energy_after_updates (P : Params K (Matrix (Fin d) (Fin d) K)) (hU : ∀ i j, P.U i j = P.U j i)
    (hN : 2 ≤ N) (hP : P.N = N) (hs : List (ℕ → Matrix (Fin d) (Fin d) K))
    (h : ℕ → Matrix (Fin d) (Fin d) K) (As : List (Site K)) (hA : validChain d As = true) (hlen : As.length = N) :
    expect As (toTensor d matEnt ((hs ++ [h]).foldl updateH (factors P)))
      = some (∑ σ : Cfg N d, ∑ τ : Cfg N d,
          star (amp As (strOf σ)) * Hmat (withH P h) N hN σ τ * amp As (strOf τ)) := by
  rw [EmuVerif.Props.C05.updateSeq_eq_rebuild P (hs ++ [h]) (by omega), List.getLastD_concat]
  exact energy_eq_dense_hamiltonian (withH P h) hU hN hP As hA hlen


/-! ### `fill_results`: the state handed to the callbacks is `(1/‖ψ‖)·ψ` -/

theorem scaleAux_length (c : K) (which i : ℕ) (fs : List (Site K)) :
    (scaleAux c which i fs).length = fs.length := by
  induction fs generalizing i with
  | nil => rfl
  | cons A fs ih => simp [scaleAux, ih]

/-- **the energy of `λ·ψ`** (`__rmul__` scales one factor) is `conj(λ)·λ` times the dense form of `ψ`: with
`conj(λ)·λ·⟨ψ|ψ⟩ = 1` (`normalised_of_inverse_norm` of C13Mps) the reported energy is `⟨ψ|H_dense|ψ⟩ / ⟨ψ|ψ⟩` of the
back-end state. -/
theorem energy_of_scaled_state (P : Params K (Matrix (Fin d) (Fin d) K)) (hU : ∀ i j, P.U i j = P.U j i)
    (hN : 2 ≤ N) (hP : P.N = N) (As : List (Site K)) (c : K) (which : ℕ) (hw : which < As.length)
    (hA : validChain d (scaleFactors c which As) = true) (hlen : As.length = N) :
    expect (scaleFactors c which As) (hamMPO d P)
      = some (star c * c * ∑ σ : Cfg N d, ∑ τ : Cfg N d,
          star (amp As (strOf σ)) * Hmat P N hN σ τ * amp As (strOf τ)) := by
  rw [energy_eq_dense_hamiltonian P hU hN hP _ hA (by rw [scaleFactors, scaleAux_length, hlen])]
  congr 1
  rw [Finset.mul_sum]
  refine Finset.sum_congr rfl (fun σ _ => ?_)
  rw [Finset.mul_sum]
  refine Finset.sum_congr rfl (fun τ _ => ?_)
  rw [EmuVerif.Props.C11.scale_factors_amp c which As hw, EmuVerif.Props.C11.scale_factors_amp c which As hw,
    star_mul']
  ring

/-! ### dark-atom padding -/

theorem find?_unique (l : List ℕ) (p : ℕ → Bool) (a : ℕ) (ha : a ∈ l) (hp : p a = true)
    (hu : ∀ b ∈ l, p b = true → b = a) : l.find? p = some a := by
  induction l with
  | nil => simp at ha
  | cons x l ih =>
    by_cases hx : p x = true
    · rw [List.find?_cons_of_pos hx, hu x (List.mem_cons_self ..) hx]
    · rw [List.find?_cons_of_neg hx]
      rcases List.mem_cons.mp ha with rfl | ha'
      · exact absurd hp hx
      · exact ih ha' (fun b hb => hu b (List.mem_cons_of_mem _ hb))

/-- `dim = mpo_factors[0].shape[1]` of the converted Hamiltonian is `d` -/
theorem opDim_hamMPO {A : Type} [Zero A] (ent : A → ℕ → ℕ → K) (F : Factor A) (Fs : List (Factor A)) :
    Dark.opDim (toTensor d ent (F :: Fs)) = d := by
  simp only [toTensor, List.map_cons, Dark.opDim, toSite_d]
  rw [find?_unique _ _ d (List.mem_range.mpr (by nlinarith [Nat.zero_le d])) (by simp)
    (fun b _ hb => by
      have : b * b = d * d := by simpa using hb
      exact Nat.mul_self_inj.mp this)]
  rfl

/-- **dark atoms.**  `fill_results` hands the callbacks the padded state and the padded Hamiltonian
(`extended_mps_factors`, `extended_mpo_factors` with the mask `w` of well-prepared atoms); the energy of that pair
is the dense form of the REDUCED Hamiltonian (the good atoms only) on the reduced state — for every mask. -/
theorem padded_energy_eq_dense (P : Params K (Matrix (Fin d) (Fin d) K)) (hU : ∀ i j, P.U i j = P.U j i)
    (hN : 2 ≤ N) (hP : P.N = N) (hd : 0 < d) (fs gs hs : List (Site K)) (w : List Bool)
    (hA : validChain d fs = true) (hlen : fs.length = N)
    (hg : Dark.extendedMps fs w = some gs) (hh : Dark.extendedMpo (hamMPO d P) w = some hs) :
    expect gs hs
      = some (∑ σ : Cfg N d, ∑ τ : Cfg N d, star (amp fs (strOf σ)) * Hmat P N hN σ τ * amp fs (strOf τ)) := by
  obtain ⟨f2, _, fW, f1, fd⟩ := validChain_spec d fs hA
  obtain ⟨_, _, wW, w1, _⟩ := validChain_spec (d * d) (hamMPO d P) (ham_mpo_valid P hU (by omega))
  have fdim : Dark.stateDim fs = d := by
    cases fs with
    | nil => simp at f2
    | cons A fs => exact fd A (List.mem_cons_self ..)
  have wdim : Dark.opDim (hamMPO d P) = d := by
    have hl := factors_length P (show 2 ≤ P.N by omega)
    cases hf : factors P with
    | nil => rw [hf] at hl; simp at hl; omega
    | cons F Fs => rw [hamMPO, hf]; exact opDim_hamMPO matEnt F Fs
  rw [EmuVerif.Props.C25.padded_expect_eq_reduced d hd fs (hamMPO d P) gs hs w hg hh fW f1 fd fdim wW w1 wdim]
  exact energy_eq_dense_hamiltonian P hU hN hP fs hA hlen

end energy

/-! ## over ℂ: the reported energy and the variational bound (C09) -/

section variational
open EmuVerif.Dmrg (groundEnergy rayleigh)
open WithLp
variable {N d : ℕ}

/-- the state an MPS represents, as a vector of `EuclideanSpace ℂ (Fin N → Fin d)` -/
noncomputable def stateVec (N d : ℕ) (As : List (Site ℂ)) : EuclideanSpace ℂ (Cfg N d) :=
  toLp 2 (fun σ => amp As (strOf σ))

/-- the dense Hamiltonian as a linear operator on that space -/
noncomputable def Hlin (P : Params ℂ (Matrix (Fin d) (Fin d) ℂ)) (N : ℕ) (hN : 2 ≤ N) :
    EuclideanSpace ℂ (Cfg N d) →ₗ[ℂ] EuclideanSpace ℂ (Cfg N d) :=
  Matrix.toEuclideanLin (Hmat P N hN)

theorem inner_toEuclideanLin (H : Matrix (Cfg N d) (Cfg N d) ℂ) (ψ : Cfg N d → ℂ) :
    inner ℂ (toLp 2 ψ) (Matrix.toEuclideanLin H (toLp 2 ψ)) = ∑ σ, ∑ τ, star (ψ σ) * H σ τ * ψ τ := by
  rw [Matrix.toLpLin_toLp, EuclideanSpace.inner_toLp_toLp]
  simp only [dotProduct, Matrix.toLin'_apply, Matrix.mulVec, Pi.star_apply, Finset.sum_mul]
  refine Finset.sum_congr rfl (fun σ _ => Finset.sum_congr rfl (fun τ _ => ?_))
  ring

/-- the reported energy is the inner product `⟨ψ, Hψ⟩` -/
theorem energy_eq_inner (P : Params ℂ (Matrix (Fin d) (Fin d) ℂ)) (hU : ∀ i j, P.U i j = P.U j i)
    (hN : 2 ≤ N) (hP : P.N = N) (As : List (Site ℂ)) (hA : validChain d As = true) (hlen : As.length = N) :
    expect As (hamMPO d P) = some (inner ℂ (stateVec N d As) (Hlin P N hN (stateVec N d As))) := by
  rw [energy_eq_dense_hamiltonian P hU hN hP As hA hlen, stateVec, Hlin, inner_toEuclideanLin]

/-- `⟨ψ|ψ⟩ = 1` in the sense of C13Mps (`denseNormSq`) is `‖ψ‖ = 1` in the Euclidean space -/
theorem norm_stateVec (As : List (Site ℂ)) (hlen : As.length = N) (hn : MpsObs.denseNormSq d As = 1) :
    ‖stateVec N d As‖ = 1 := by
  have h1 : (∑ σ : Cfg N d, star (amp As (strOf σ)) * amp As (strOf σ)) = 1 := by
    rw [← hn, MpsObs.denseNormSq, hlen, sumStrings_eq_sum]
    rfl
  have h2 : ‖stateVec N d As‖ ^ 2 = 1 := by
    rw [EuclideanSpace.norm_sq_eq]
    have : ((∑ σ : Cfg N d, ‖amp As (strOf σ)‖ ^ 2 : ℝ) : ℂ) = 1 := by
      rw [← h1]
      push_cast
      refine Finset.sum_congr rfl (fun σ _ => ?_)
      rw [Complex.star_def, Complex.conj_mul']
    exact_mod_cast this
  exact (pow_eq_one_iff_of_nonneg (norm_nonneg _) two_ne_zero).mp h2

/-- **Variational bound for the reported energy.**  For a normalised MPS (`⟨ψ|ψ⟩ = 1`: what `fill_results`
establishes before calling the callbacks) the energy emu-mps reports (`.real` of `MPO.expect`) is at least the
ground energy of the dense Hamiltonian `Hmat P` — the infimum of its Rayleigh quotient, which for a Hermitian
Hamiltonian is its least eigenvalue (`ground_energy_is_least_eigenvalue`). -/
theorem energy_ge_ground_energy (P : Params ℂ (Matrix (Fin d) (Fin d) ℂ)) (hU : ∀ i j, P.U i j = P.U j i)
    (hN : 2 ≤ N) (hP : P.N = N) (As : List (Site ℂ)) (hA : validChain d As = true) (hlen : As.length = N)
    (hn : MpsObs.denseNormSq d As = 1) (e : ℂ) (he : expect As (hamMPO d P) = some e) :
    groundEnergy (Hlin P N hN) ≤ e.re := by
  rw [energy_eq_inner P hU hN hP As hA hlen] at he
  have he' := Option.some.inj he
  have hb := EmuVerif.Props.C09.variational_bound_unit (Hlin P N hN) (stateVec N d As) (norm_stateVec As hlen hn)
  have : RCLike.re (inner ℂ (Hlin P N hN (stateVec N d As)) (stateVec N d As)) = e.re := by
    rw [← he']
    exact inner_re_symm (𝕜 := ℂ) _ _
  rw [← this]
  exact hb

/-- entries of the dense Hamiltonian through the executable builder -/
theorem Hmat_apply (P : Params ℂ (Matrix (Fin d) (Fin d) ℂ)) (hN : 2 ≤ N) (hP : P.N = N) (σ τ : Cfg N d) :
    Hmat P N hN σ τ = denseElem P matEnt id (strOf σ) (strOf τ) := by
  rw [Hmat, denseElem_eq_Hdense (by omega) P hP]

/-- Hermitian single-site terms and local operators, real couplings ⇒ the dense Hamiltonian is Hermitian. -/
theorem Hmat_isHermitian (P : Params ℂ (Matrix (Fin d) (Fin d) ℂ)) (hN : 2 ≤ N) (hP : P.N = N)
    (hh : ∀ m, (P.h m).IsHermitian) (hop : ∀ k, (P.op k).IsHermitian)
    (hreal : ∀ i j, star (P.c * P.U i j) = P.c * P.U i j) : (Hmat P N hN).IsHermitian := by
  rw [Matrix.IsHermitian.ext_iff]
  intro σ τ
  have hent : ∀ (M : Matrix (Fin d) (Fin d) ℂ), M.IsHermitian → ∀ o i, star (matEnt M i o) = matEnt M o i := by
    intro M hM o i
    unfold matEnt
    by_cases h : o < d ∧ i < d
    · rw [dif_pos h, dif_pos ⟨h.2, h.1⟩]
      exact Matrix.IsHermitian.apply hM _ _
    · rw [dif_neg h, dif_neg (fun h' => h ⟨h'.2, h'.1⟩), star_zero]
  have hag : ∀ i j, agreeOff N i j (strOf τ) (strOf σ) = agreeOff N i j (strOf σ) (strOf τ) := by
    intro i j
    rw [Bool.eq_iff_iff, agreeOff_strOf, agreeOff_strOf]
    exact ⟨fun h m a b => (h m a b).symm, fun h m a b => (h m a b).symm⟩
  rw [Hmat_apply P hN hP, Hmat_apply P hN hP]
  subst hP
  unfold denseElem denseSingle densePair
  simp only [sumTo_eq, star_add, star_sum, id]
  congr 1
  · refine Finset.sum_congr rfl (fun m _ => ?_)
    rw [hag m m]
    split
    · exact hent _ (hh m) _ _
    · exact star_zero _
  · refine Finset.sum_congr rfl (fun j _ => Finset.sum_congr rfl (fun i _ => Finset.sum_congr rfl (fun k _ => ?_)))
    rw [hag i j]
    split
    · rw [star_mul', hreal, star_mul', hent _ (hop k), hent _ (hop k)]
    · exact star_zero _

/-- **for a Hermitian Hamiltonian the bound is the least eigenvalue**: `groundEnergy` of the dense Hamiltonian is
an eigenvalue and no eigenvalue is smaller (C09's `variational_bound`), so `energy_ge_ground_energy` reads
"the reported energy of a normalised MPS is ≥ λ_min(H_dense)". -/
theorem ground_energy_is_least_eigenvalue (P : Params ℂ (Matrix (Fin d) (Fin d) ℂ)) (hN : 2 ≤ N) (hP : P.N = N)
    (hd : 0 < d) (hh : ∀ m, (P.h m).IsHermitian) (hop : ∀ k, (P.op k).IsHermitian)
    (hreal : ∀ i j, star (P.c * P.U i j) = P.c * P.U i j) :
    Module.End.HasEigenvalue (Hlin P N hN) ((groundEnergy (Hlin P N hN) : ℝ) : ℂ)
      ∧ ∀ ν : ℝ, Module.End.HasEigenvalue (Hlin P N hN) (ν : ℂ) → groundEnergy (Hlin P N hN) ≤ ν := by
  have : Nonempty (Cfg N d) := ⟨fun _ => ⟨0, hd⟩⟩
  have hsym : (Hlin P N hN).IsSymmetric :=
    Matrix.isSymmetric_toEuclideanLin_iff.mpr (Hmat_isHermitian P hN hP hh hop hreal)
  obtain ⟨a, b, _⟩ := EmuVerif.Props.C09.variational_bound (Hlin P N hN) hsym
  exact ⟨a, b⟩

/-- … and then the reported energy is real (`.real` drops nothing). -/
theorem energy_real (P : Params ℂ (Matrix (Fin d) (Fin d) ℂ)) (hU : ∀ i j, P.U i j = P.U j i)
    (hN : 2 ≤ N) (hP : P.N = N) (hh : ∀ m, (P.h m).IsHermitian) (hop : ∀ k, (P.op k).IsHermitian)
    (hreal : ∀ i j, star (P.c * P.U i j) = P.c * P.U i j)
    (As : List (Site ℂ)) (hA : validChain d As = true) (hlen : As.length = N) (e : ℂ)
    (he : expect As (hamMPO d P) = some e) : e.im = 0 := by
  rw [energy_eq_inner P hU hN hP As hA hlen] at he
  have he' := Option.some.inj he
  have hsym : (Hlin P N hN).IsSymmetric :=
    Matrix.isSymmetric_toEuclideanLin_iff.mpr (Hmat_isHermitian P hN hP hh hop hreal)
  have := hsym.im_inner_self_apply (stateVec N d As)
  rw [← he', ← inner_conj_symm]
  simpa using this

end variational

/-! ## non-vacuity -/

section examples
open EmuVerif.Dmrg (groundEnergy)

/-- three atoms, couplings of both signs, one absent (`U₀₂ = 0`) -/
def exU {K : Type} [Ring K] : ℕ → ℕ → K := fun i j =>
  if (i = 0 ∧ j = 1) ∨ (i = 1 ∧ j = 0) then 3 else if (i = 1 ∧ j = 2) ∨ (i = 2 ∧ j = 1) then -2 else 0

theorem exU_symm {K : Type} [Ring K] : ∀ i j, exU (K := K) i j = exU j i := by
  intro i j
  unfold exU
  simp only [@and_comm (i = 0), @and_comm (i = 1), @and_comm (i = 2), @or_comm (j = 1 ∧ i = 0),
    @or_comm (j = 2 ∧ i = 1)]

/-- `n = |1⟩⟨1|` -/
def exN {K : Type} [Ring K] : Matrix (Fin 2) (Fin 2) K := Matrix.of fun p q => if p = 1 ∧ q = 1 then 1 else 0

/-- a non-Hermitian single-site term over ℚ (drive + a "noise" block) -/
def exPq : Params ℚ (Matrix (Fin 2) (Fin 2) ℚ) :=
  mkRyd 3 exU exN (fun m => Matrix.of fun p q => (m : ℚ) + 2 * p.val - 3 * q.val)

/-- hypotheses of `ham_opAmp_eq_dense` / `ham_mpo_valid` hold for a concrete, non-trivial instance -/
example : ∀ σ τ : Cfg 3 2, opAmp 2 (hamMPO 2 exPq) (strOf σ) (strOf τ) = Hmat exPq 3 (by omega) σ τ :=
  ham_opAmp_eq_dense exPq exU_symm (by omega) rfl
example : validChain 4 (hamMPO 2 exPq) = true := ham_mpo_valid exPq exU_symm (by simp [exPq, mkRyd])

/-- the same Hamiltonian over the Gaussian integers (the scalars of the exact correspondence runs), with a
complex single-site term -/
def exPz : Params (Cx ℤ) (Matrix (Fin 2) (Fin 2) (Cx ℤ)) :=
  mkRyd 3 exU exN (fun m => Matrix.of fun p q => ⟨(m : ℤ) + 2 * p.val, (q.val : ℤ) - p.val⟩)

/-- an entangled, unnormalised, non-canonical MPS of bond dimension 2 over the Gaussian integers -/
def exS : List (Site (Cx ℤ)) :=
  [{ dl := 1, d := 2, dr := 2, t := fun x _ r => ⟨(x : ℤ) + r, 1⟩ },
   { dl := 2, d := 2, dr := 2, t := fun x l r => ⟨(x : ℤ) * l - r, (l : ℤ)⟩ },
   { dl := 2, d := 2, dr := 1, t := fun x l _ => ⟨1, (x : ℤ) - l⟩ }]

example : validChain 2 exS = true := by decide

/-- `energy_eq_denseEnergy` applies to the instance … -/
example : expect exS (hamMPO 2 exPz) = some (denseEnergy 2 3 (denseElem exPz matEnt id) exS) :=
  energy_eq_denseEnergy exPz exU_symm (by simp [exPz, mkRyd]) exS (by decide) rfl

/-- … and (a *test* of the definitions, evaluated by the kernel) both sides are the same non-zero number
(complex: the single-site terms of this instance are not Hermitian) -/
example : expect exS (hamMPO 2 exPz) = some ⟨2883, 80⟩ ∧
    denseEnergy 2 3 (denseElem exPz matEnt id) exS = (⟨2883, 80⟩ : Cx ℤ) := by
  constructor <;> decide +kernel

/-- over ℂ: Hermitian data (real detunings on the diagonal), real couplings -/
noncomputable def exPc : Params ℂ (Matrix (Fin 2) (Fin 2) ℂ) :=
  mkRyd 3 exU exN (fun m => Matrix.of fun p q => if p = q then ((m : ℂ) + p.val) else 1)

/-- `|0⟩ ⊗ |1⟩ ⊗ |0⟩`, a normalised product state -/
noncomputable def exPsi : List (Site ℂ) :=
  [basisSite 2 0, basisSite 2 1, basisSite 2 0]

theorem exPsi_valid : validChain 2 exPsi = true := by
  simp [validChain, chainOk, exPsi, basisSite]

theorem exPsi_norm : MpsObs.denseNormSq 2 exPsi = 1 := by
  unfold MpsObs.denseNormSq
  have h : ∀ s : List ℕ, amp exPsi s = if s = [0, 1, 0] then 1 else 0 :=
    fun s => EmuVerif.Props.C11.basis_amp_kronecker 2 [0, 1, 0] s
  have hi := sumStrings_indicator (K := ℂ) 2 [0, 1, 0] (by decide) (fun _ => 1)
  refine Eq.trans (sumStrings_congr _ _ _ _ (fun s _ => ?_)) hi
  rw [h s]
  split <;> simp [conj_eq_star]

theorem exPc_hermitian : (∀ m, (exPc.h m).IsHermitian) ∧ (∀ k, (exPc.op k).IsHermitian)
    ∧ ∀ i j, star (exPc.c * exPc.U i j) = exPc.c * exPc.U i j := by
  refine ⟨fun m => ?_, fun k => ?_, fun i j => ?_⟩
  · rw [Matrix.IsHermitian.ext_iff]
    intro p q
    simp only [exPc, mkRyd, Matrix.of_apply]
    by_cases h : p = q
    · subst h; simp
    · rw [if_neg h, if_neg (fun e => h e.symm)]; simp
  · rw [Matrix.IsHermitian.ext_iff]
    intro p q
    simp only [exPc, mkRyd, exN, Matrix.of_apply]
    by_cases h : p = 1 ∧ q = 1
    · rw [if_pos h, if_pos ⟨h.2, h.1⟩]; simp
    · rw [if_neg h, if_neg (fun e => h ⟨e.2, e.1⟩)]; simp
  · simp only [exPc, mkRyd, exU, one_mul]
    split
    · simp
    · split <;> simp

/-- every hypothesis of `energy_ge_ground_energy` / `ground_energy_is_least_eigenvalue` / `energy_real` is
satisfiable: the energy of the product state is real and ≥ the least eigenvalue of the 8 × 8 Hamiltonian -/
example : ∃ e : ℂ, expect exPsi (hamMPO 2 exPc) = some e ∧ e.im = 0
    ∧ groundEnergy (Hlin exPc 3 (by omega)) ≤ e.re
    ∧ Module.End.HasEigenvalue (Hlin exPc 3 (by omega)) ((groundEnergy (Hlin exPc 3 (by omega)) : ℝ) : ℂ) := by
  obtain ⟨hh, hop, hreal⟩ := exPc_hermitian
  have h2 : 2 ≤ 3 := by omega
  have he := energy_eq_inner (N := 3) exPc exU_symm h2 rfl exPsi exPsi_valid rfl
  exact ⟨_, he, energy_real (N := 3) exPc exU_symm h2 rfl hh hop hreal exPsi exPsi_valid rfl _ he,
    energy_ge_ground_energy (N := 3) exPc exU_symm h2 rfl exPsi exPsi_valid rfl exPsi_norm _ he,
    (ground_energy_is_least_eigenvalue (N := 3) exPc h2 rfl (by omega) hh hop hreal).1⟩

/-- dark-atom padding: the hypotheses of `padded_energy_eq_dense` on the Gaussian-integer instance (mask with a
dark atom in position 1) -/
example : ∃ gs hs, Dark.extendedMps exS [true, false, true, true] = some gs ∧
    Dark.extendedMpo (hamMPO 2 exPz) [true, false, true, true] = some hs ∧
    expect gs hs = some (∑ σ : Cfg 3 2, ∑ τ : Cfg 3 2,
      star (amp exS (strOf σ)) * Hmat exPz 3 (by omega) σ τ * amp exS (strOf τ)) := by
  have h1 : ∃ gs, Dark.extendedMps exS [true, false, true, true] = some gs := ⟨_, rfl⟩
  have h2 : ∃ hs, Dark.extendedMpo (hamMPO 2 exPz) [true, false, true, true] = some hs := by
    unfold Dark.extendedMpo
    rw [if_neg (by rw [ham_mpo_length exPz (by simp [exPz, mkRyd])]; decide)]
    exact ⟨_, rfl⟩
  obtain ⟨gs, hg⟩ := h1
  obtain ⟨hs, hh⟩ := h2
  exact ⟨gs, hs, hg, hh, padded_energy_eq_dense (N := 3) exPz exU_symm (by omega) rfl (by omega) exS gs hs
    [true, false, true, true] (by decide) rfl hg hh⟩

end examples

end EmuVerif.Props.C13Energy
