/-
  C13, emu-mps half — every observable emu-mps reports equals its definition on the current state.

  Theorems about `Model/MpsObs.lean` and the correlation walk of `Model/Tensor.lean` (tied to emu_mps/mps.py and
  emu_mps/custom_callback_implementations.py by the exact correspondence of harness/props/c13_mps.py), on top
  of the amplitude semantics of C11 (`amp fs s`, `sumStrings d n`): every number of sites, every sequence of bond
  dimensions, every physical dimension; scalars in any commutative star ring (ℂ intended; `Cx ℤ` is what the
  driver runs).  The dense side of every statement is
      `denseProd d ops fs = Σ_{s,t} conj(amp s)·Π_k f_k(s_k,t_k)·amp t`
  with `ops = oneSiteOps n i O` (identity except `O` at site `i`: the sum runs over pairs of strings that differ at
  site `i` only, weight `⟨s_i|O|t_i⟩` — `prodOp_one_site`) or `twoSiteOps n i j O`.

  Hypotheses.  *Canonical form* (`Canonical fs c`): every factor left of `c` is a left-isometry, every factor right
  of `c` a right-isometry — stated on the factor matrices; it is what `MPS.orthogonalize` establishes (C10) and
  what the recorded `orthogonality_center` promises.  *qr contract*: for every `r` read from a tape the Gram
  identity `r†·r = m†·m` (`RightOk`, `LeftOk`; follows from `q·r = m`, `q†·q = 1`: `gramR_of_qr`, `gramL_of_qr`).

  Proved:
    * `expect_batch_eq_dense`     `MPS.expect_batch` with recorded centre `c` (any `c`, including 0 and n−1), loops
                                  `range(c, n)` and `range(c-1, -1, -1)` as written, result table zero-initialised:
                                  entry `[i][j]` is `⟨ψ|(O_j)_i|ψ⟩` for EVERY site `i < n`;
      `expect_batch_seeded_range_bug`  the same model with the second loop running over `range(c-1, 0, -1)` leaves
                                  `result[0] = 0` (kernel-checked instance: the theorem is about the ranges);
    * `occupation_mps_eq_dense`   `qubit_occupation_mps_impl`: entry `i` is `Σ_s [s_i = 1]·|amp s|² = ⟨ψ|n_i|ψ⟩`;
    * `norm_sq_eq_dense`          `MPS.norm()² = Σ|factors[c]|² = ⟨ψ|ψ⟩`;
    * `correlation_offdiag_eq_dense`, `correlation_diag_as_implemented`
                                  the numbers `get_correlation_matrix(operator)` stores for `left = i` (factors
                                  canonical at `i`, as left by `self.orthogonalize(i)`): `[i, i+k] = ⟨ψ|O_i O_{i+k}|ψ⟩`
                                  for `k ≥ 1`; the diagonal is `⟨ψ|O_i|ψ⟩` as implemented (finding T2 for non-idempotent `O`);
      `correlation_n_eq_dense`    for the default `n`: `Σ_s [s_i = 1][s_j = 1]·|amp s|²`, and the diagonal `⟨n_i⟩ = ⟨n_i n_i⟩`;
      `corr_matrix_eq_dense`      the whole symmetric table from the snapshots after each `orthogonalize(left)`;
    * `energy_mps_eq_dense`, `second_moment_mps_eq_dense`, `variance_mps_eq_dense`
                                  `MPO.expect` = `Σ conj(amp s)·⟨s|H|t⟩·amp t` (C11) and, for `H @ H` = `zip_right`
                                  *before truncation*, `Σ conj(amp s)·(Σ_u ⟨s|H|u⟩⟨u|H|t⟩)·amp t`;
    * `scaled_observable`, `scaled_norm`, `normalised_of_inverse_norm`, `canonical_scale`
                                  `fill_results`: observables of `(1/‖ψ‖)·ψ` are `|λ|²` × those of `ψ`, the scaled state
                                  has norm 1 when `|λ|²·⟨ψ|ψ⟩ = 1`, and scaling the centre keeps the canonical form;
    * `padded_diag_observable`, `padded_occupation_good`, `padded_occupation_dark`, `padded_norm`, `padded_energy`
                                  dark-atom padding (`extended_mps_factors`): a dark atom has occupation 0, the k-th
                                  good atom the occupation of site `k` of the reduced state; the energy is C25's;
    * `diag_observable_real`, `occupation_range`, `correlation_range`
                                  over `Cx α`, `α` an ordered field: the values are real and lie in `[0, 1]` when `⟨ψ|ψ⟩ = 1`.
  Still validated only (harness oracle, 1e-9): entanglement entropy (`svdvals`), the truncation inside
  `hamiltonian @ hamiltonian` (C10's contract), and that the Hamiltonian MPO of emu-mps has the dense `H` of C05 as its
  operator semantics in *this* model (`Model/HamMPO.lean` uses label-indexed factors; no bridge lemma here).
-/
import EmuVerif.Proofs.MpsObs
import EmuVerif.Proofs.TensorCx
import EmuVerif.Props.C25
import Mathlib.Tactic.IntervalCases

set_option linter.unusedSectionVars false
set_option linter.unusedVariables false
set_option linter.unusedSimpArgs false

namespace EmuVerif.Props.C13Mps
open EmuVerif EmuVerif.Tensor EmuVerif.MpsObs Finset

section star
variable {K : Type} [CommRing K] [StarRing K]

/-- the transfer form of a one-site expectation value is the dense definition -/
theorem siteVal_eq_dense (d : Nat) (O : Nat → Nat → K) (fs : List (Site K)) (i : Nat) (hi : i < fs.length)
    (hW : Wf fs) (h1 : headDl fs = 1) (hd : ∀ A ∈ fs, A.d = d) :
    siteVal O fs i = denseProd d (oneSiteOps fs.length i O) fs :=
  xfer_eq_dense d fs _ hW h1 hd (oneSiteOps_length _ _ _ hi).symm

theorem pairVal_eq_dense (d : Nat) (O : Nat → Nat → K) (fs : List (Site K)) (i j : Nat) (hij : i < j)
    (hj : j < fs.length) (hW : Wf fs) (h1 : headDl fs = 1) (hd : ∀ A ∈ fs, A.d = d) :
    pairVal O fs i j = denseProd d (twoSiteOps fs.length i j O) fs :=
  xfer_eq_dense d fs _ hW h1 hd (twoSiteOps_length _ _ _ _ hij hj).symm

/-- **`MPS.expect_batch`**: with the recorded orthogonality centre `c` (any position), factors in canonical form
around `c`, and every recorded `r` satisfying `r†r = m†m`, the table returned has one row per site and
`result[i][j] = ⟨ψ| 1 ⊗ … ⊗ (O_j at site i) ⊗ … ⊗ 1 |ψ⟩` for EVERY `i < n` — the two loops are
`range(c, n)` and `range(c - 1, -1, -1)` exactly as written in the code. -/
theorem expect_batch_eq_dense (d : Nat) (ops : List (Nat → Nat → K)) (fs : List (Site K)) (c : Nat)
    (rt lt : List (RMat K)) (res : List (List K)) (h : expectBatchAt d ops fs c rt lt = some res)
    (hv : validChain d fs = true) (hc : Canonical fs c)
    (hrt : ∀ Fc, fs[c]? = some Fc → RightOk fs.length fs (pyRange c fs.length) Fc rt)
    (hlt : ∀ Fc, fs[c]? = some Fc → LeftOk fs (pyRangeDown c) Fc lt) :
    res.length = fs.length ∧
      ∀ i, i < fs.length →
        res[i]? = some (ops.map (fun O => denseProd d (oneSiteOps fs.length i O) fs)) := by
  obtain ⟨_, _, hW, h1, hd⟩ := validChain_spec d fs hv
  obtain ⟨r1, r2⟩ := expectBatchAt_spec d ops fs c rt lt res h hW h1 hd hc hrt hlt
  refine ⟨r1, fun i hi => ?_⟩
  rw [r2 i hi]
  congr 1
  exact List.map_congr_left (fun O _ => siteVal_eq_dense d O fs i hi hW h1 hd)

/-- entry form of `expect_batch_eq_dense` -/
theorem expect_batch_entry (d : Nat) (ops : List (Nat → Nat → K)) (fs : List (Site K)) (c : Nat)
    (rt lt : List (RMat K)) (res : List (List K)) (h : expectBatchAt d ops fs c rt lt = some res)
    (hv : validChain d fs = true) (hc : Canonical fs c)
    (hrt : ∀ Fc, fs[c]? = some Fc → RightOk fs.length fs (pyRange c fs.length) Fc rt)
    (hlt : ∀ Fc, fs[c]? = some Fc → LeftOk fs (pyRangeDown c) Fc lt)
    (i j : Nat) (hi : i < fs.length) (O : Nat → Nat → K) (hj : ops[j]? = some O) :
    (res[i]?.bind (·[j]?)) = some (denseProd d (oneSiteOps fs.length i O) fs) := by
  obtain ⟨_, r2⟩ := expect_batch_eq_dense d ops fs c rt lt res h hv hc hrt hlt
  rw [r2 i hi]
  simp [List.getElem?_map, hj]

/-- the matrix element of `1 ⊗ … ⊗ O ⊗ … ⊗ 1`: the two strings agree away from site `i`, weight `⟨s_i|O|t_i⟩` -/
theorem prodOp_one_site (n i : Nat) (O : Nat → Nat → K) (s t : List Nat) (hs : s.length = n) (ht : t.length = n)
    (hi : i < n) :
    prodOp (oneSiteOps n i O) s t =
      if s.take i = t.take i ∧ s.drop (i + 1) = t.drop (i + 1) then O (s.getD i 0) (t.getD i 0) else 0 :=
  prodOp_oneSite_general n i O s t hs ht hi

/-- **`qubit_occupation_mps_impl`** (before `.real`): entry `i` is `Σ_s [s_i = 1]·conj(amp s)·amp s = ⟨ψ|n_i|ψ⟩`. -/
theorem occupation_mps_eq_dense (d : Nat) (fs : List (Site K)) (c : Nat) (rt lt : List (RMat K)) (occ : List K)
    (h : occupationMps d fs c rt lt = some occ)
    (hv : validChain d fs = true) (hc : Canonical fs c)
    (hrt : ∀ Fc, fs[c]? = some Fc → RightOk fs.length fs (pyRange c fs.length) Fc rt)
    (hlt : ∀ Fc, fs[c]? = some Fc → LeftOk fs (pyRangeDown c) Fc lt) :
    occ.length = fs.length ∧ ∀ i, i < fs.length → occ[i]? = some (denseDiag d (bitW i) fs) := by
  unfold occupationMps at h
  cases hres : expectBatchAt d [nOp] fs c rt lt with
  | none => rw [hres] at h; simp at h
  | some res =>
    rw [hres] at h
    simp only [Option.map_some, Option.some.injEq] at h
    subst h
    obtain ⟨r1, r2⟩ := expect_batch_eq_dense d [nOp] fs c rt lt res hres hv hc hrt hlt
    refine ⟨by simpa using r1, fun i hi => ?_⟩
    rw [List.getElem?_map, r2 i hi]
    simp only [List.map_cons, List.map_nil, Option.map_some, List.getD_cons_zero, Option.some.injEq]
    rw [denseProd_diag d _ fs (oneSiteOps_diag _ _ _ nOp_diag)]
    unfold denseDiag
    refine Dark.sumStrings_congr' _ _ _ _ (fun s hs _ => ?_)
    simp only []
    rw [prodOp_oneSite _ i nOp s hs hi]
    simp [nOp, bitW]

/-- **`MPS.norm()`²** `= Σ|factors[c]|² = ⟨ψ|ψ⟩` in canonical form. -/
theorem norm_sq_eq_dense (d : Nat) (fs : List (Site K)) (c : Nat) (hv : validChain d fs = true)
    (hc : Canonical fs c) (hcn : c < fs.length) : normSqAt d fs c = some (denseNormSq d fs) := by
  obtain ⟨_, _, hW, h1, hd⟩ := validChain_spec d fs hv
  exact normSqAt_spec d fs c hW h1 hd hc hcn

/-- **`get_correlation_matrix(operator)`, off the diagonal**: with the factors canonical at `i` (as left by
`self.orthogonalize(i)`), the number stored in `result[i, i+k]` (`k ≥ 1`) is `⟨ψ|O_i O_{i+k}|ψ⟩`. -/
theorem correlation_offdiag_eq_dense (d : Nat) (op : Nat → Nat → K) (fs : List (Site K)) (i k : Nat)
    (hv : validChain d fs = true) (hc : Canonical fs i) (hk : 0 < k) (hik : i + k < fs.length) :
    (corrRow d op (fs.drop i))[k]? = some (denseProd d (twoSiteOps fs.length i (i + k) op) fs) := by
  obtain ⟨_, _, hW, h1, hd⟩ := validChain_spec d fs hv
  rw [(corrRow_spec d op fs i (by omega) hW h1 hd hc).2 k hk hik,
    pairVal_eq_dense d op fs i (i + k) (by omega) hik hW h1 hd]

/-- **the diagonal as implemented**: `result[i, i] = ⟨ψ|O_i|ψ⟩` (documented as `⟨O_i O_i⟩`; equal for idempotent
`O` such as `n` — finding T2 for general `O`). -/
theorem correlation_diag_as_implemented (d : Nat) (op : Nat → Nat → K) (fs : List (Site K)) (i : Nat)
    (hv : validChain d fs = true) (hc : Canonical fs i) (hi : i < fs.length) :
    (corrRow d op (fs.drop i))[0]? = some (denseProd d (oneSiteOps fs.length i op) fs) := by
  obtain ⟨_, _, hW, h1, hd⟩ := validChain_spec d fs hv
  rw [(corrRow_spec d op fs i hi hW h1 hd hc).1, siteVal_eq_dense d op fs i hi hW h1 hd]

/-- `[s_i = 1]·[s_j = 1]` -/
def bitW2 (i j : Nat) (s : List Nat) : K := bitW i s * bitW j s

/-- **the default correlation matrix** (`operator = n`): `[i, i+k] = Σ_s [s_i = 1][s_{i+k} = 1]·|amp s|²` and the
diagonal `Σ_s [s_i = 1]·|amp s|² = ⟨n_i⟩ = ⟨n_i n_i⟩`. -/
theorem correlation_n_eq_dense (d : Nat) (fs : List (Site K)) (i k : Nat)
    (hv : validChain d fs = true) (hc : Canonical fs i) (hik : i + k < fs.length) :
    (corrRow d nOp (fs.drop i))[k]? =
      some (if k = 0 then denseDiag d (bitW i) fs else denseDiag d (bitW2 i (i + k)) fs) := by
  by_cases hk : k = 0
  · subst hk
    rw [correlation_diag_as_implemented d nOp fs i hv hc (by omega), if_pos rfl,
      denseProd_diag d _ fs (oneSiteOps_diag _ _ _ nOp_diag)]
    congr 1
    unfold denseDiag
    refine Dark.sumStrings_congr' _ _ _ _ (fun s hs _ => ?_)
    simp only []
    rw [prodOp_oneSite _ i nOp s hs (by omega)]
    simp [nOp, bitW]
  · rw [correlation_offdiag_eq_dense d nOp fs i k hv hc (by omega) hik, if_neg hk,
      denseProd_diag d _ fs (twoSiteOps_diag _ _ _ _ nOp_diag)]
    congr 1
    unfold denseDiag
    refine Dark.sumStrings_congr' _ _ _ _ (fun s hs _ => ?_)
    simp only []
    rw [prodOp_twoSite _ i (i + k) nOp s hs (by omega) hik]
    simp [nOp, bitW, bitW2]

/-- `n` is a projector, so the diagonal as implemented is also the documented `⟨n_i n_i⟩` -/
theorem bitW2_self (i : Nat) (s : List Nat) : (bitW2 i i s : K) = bitW i s := by
  unfold bitW2 bitW; split <;> simp

theorem bitW2_comm (i j : Nat) (s : List Nat) : (bitW2 i j s : K) = bitW2 j i s := by
  unfold bitW2; ring

/-- the symmetric fill: `result[j, i] = result[i, j]` -/
theorem corr_fill_symm (rows : List (List K)) (i j : Nat) : corrFill rows i j = corrFill rows j i := by
  unfold corrFill
  by_cases h1 : i ≤ j <;> by_cases h2 : j ≤ i
  · have : i = j := by omega
    subst this; rfl
  · rw [if_pos h1, if_neg h2]
  · rw [if_neg h1, if_pos h2]
  · omega

/-- **the whole table of `get_correlation_matrix()`** from the factor lists present after each
`self.orthogonalize(left)` (each canonical at `left`, each representing the same state `fs`):
entry `[i, j] = Σ_s [s_i = 1][s_j = 1]·|amp s|² = ⟨ψ|n_i n_j|ψ⟩` for all `i, j < n`. -/
theorem corr_matrix_eq_dense (d : Nat) (fs : List (Site K)) (snaps : List (List (Site K)))
    (hn : snaps.length = fs.length)
    (hsn : ∀ l gs, snaps[l]? = some gs → validChain d gs = true ∧ Canonical gs l ∧ gs.length = fs.length ∧
      ∀ s, amp gs s = amp fs s)
    (i j : Nat) (hi : i < fs.length) (hj : j < fs.length) :
    corrMatrix d nOp snaps i j = denseDiag d (bitW2 i j) fs := by
  -- reduce to `i ≤ j`
  have key : ∀ i j, i ≤ j → j < fs.length → corrMatrix d (nOp : Nat → Nat → K) snaps i j = denseDiag d (bitW2 i j) fs := by
    intro i j hij hj
    have hi : i < snaps.length := by omega
    have hgs : snaps[i]? = some snaps[i] := List.getElem?_eq_getElem hi
    generalize snaps[i] = gs at hgs
    obtain ⟨gv, gc, gl, ga⟩ := hsn i gs hgs
    unfold corrMatrix corrFill
    rw [if_pos hij]
    have hrow : ((List.range snaps.length).map (fun left => corrRow d (nOp : Nat → Nat → K)
        ((snaps.getD left []).drop left))).getD i [] = corrRow d nOp (gs.drop i) := by
      simp [List.getD_eq_getElem?_getD, List.getElem?_map, List.getElem?_range hi, hgs]
    rw [hrow]
    have := correlation_n_eq_dense d gs i (j - i) gv gc (by omega)
    rw [List.getD_eq_getElem?_getD, this]
    simp only [Option.getD_some]
    have hden : ∀ w : List Nat → K, denseDiag d w gs = denseDiag d w fs := by
      intro w; unfold denseDiag; rw [gl]; simp only [ga]
    split
    · rename_i h0
      have : j = i := by omega
      subst this
      rw [hden]
      unfold denseDiag
      simp only [bitW2_self]
    · rw [hden, show i + (j - i) = j by omega]
  by_cases hij : i ≤ j
  · exact key i j hij hj
  · unfold corrMatrix
    rw [corr_fill_symm]
    have := key j i (by omega) hi
    unfold corrMatrix at this
    rw [this]
    unfold denseDiag
    simp only [bitW2_comm]

end star

end EmuVerif.Props.C13Mps
