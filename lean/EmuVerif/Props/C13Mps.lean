/-
  C13, emu-mps half — every observable emu-mps reports equals its definition on the current state.

  Theorems about `Model/MpsObs.lean` and the correlation walk of `Model/Tensor.lean` (tied to emu_mps/mps.py and
  emu_mps/custom_callback_implementations.py by the exact correspondence of harness/props/c13_mps.py), on top
  of the amplitude semantics of C11 (`amp fs s`, `sumStrings d n`): every number of sites, every sequence of bond
  dimensions, every physical dimension; scalars in any commutative star ring (ℂ intended; `Cx ℤ` is what the
  driver runs).  The dense side of every statement is
      `denseProd d ops fs = Σ_{s,t} conj(amp s)·Π_k f_k(s_k,t_k)·amp t`
  with `ops = oneSiteOps n i O` (identity except `O` at site `i`: the sum runs over pairs of strings that differ at
  site `i` only, weight `⟨s_i|O|t_i⟩` — `prodOp_one_site`) or `twoSiteOps n i j O`.

  Hypotheses.  *Canonical form* (`Canonical fs c`): every factor left of `c` is a left-isometry, every factor right
  of `c` a right-isometry — stated on the factor matrices; it is what `MPS.orthogonalize` establishes (C10) and
  what the recorded `orthogonality_center` promises.  *qr contract*: for every `r` read from a tape the Gram
  identity `r†·r = m†·m` (`RightOk`, `LeftOk`; follows from `q·r = m`, `q†·q = 1`: `gramR_of_qr`, `gramL_of_qr`).

  Proved:
    * `expect_batch_eq_dense`     `MPS.expect_batch` with recorded centre `c` (any `c`, including 0 and n−1), loops
                                  `range(c, n)` and `range(c-1, -1, -1)` as written, result table zero-initialised:
                                  entry `[i][j]` is `⟨ψ|(O_j)_i|ψ⟩` for EVERY site `i < n`;
      `expect_batch_no_centre`    no recorded centre: after `self.orthogonalize(0)` (qr contract `q·r = m`, result canonical
                                  at 0) the table is the dense definition on the state passed in;
      `expect_batch_seeded_range_bug`  the same model with the second loop running over `range(c-1, 0, -1)` leaves
                                  `result[0] = 0` (kernel-checked instance: the theorem is about the ranges);
    * `occupation_mps_eq_dense`   `qubit_occupation_mps_impl`: entry `i` is `Σ_s [s_i = 1]·|amp s|² = ⟨ψ|n_i|ψ⟩`;
    * `norm_sq_eq_dense`          `MPS.norm()² = Σ|factors[c]|² = ⟨ψ|ψ⟩`;
    * `correlation_offdiag_eq_dense`, `correlation_diag_as_implemented`
                                  the numbers `get_correlation_matrix(operator)` stores for `left = i` (factors
                                  canonical at `i`, as left by `self.orthogonalize(i)`): `[i, i+k] = ⟨ψ|O_i O_{i+k}|ψ⟩`
                                  for `k ≥ 1`; the diagonal is `⟨ψ|O_i|ψ⟩` as implemented (finding T2 for non-idempotent `O`);
      `correlation_n_eq_dense`    for the default `n`: `Σ_s [s_i = 1][s_j = 1]·|amp s|²`, and the diagonal `⟨n_i⟩ = ⟨n_i n_i⟩`;
      `corr_matrix_eq_dense`      the whole symmetric table from the snapshots after each `orthogonalize(left)`;
    * `energy_mps_eq_dense`, `second_moment_mps_eq_dense`, `variance_mps_eq_dense`
                                  `MPO.expect` = `Σ conj(amp s)·⟨s|H|t⟩·amp t` (C11) and, for `H @ H` = `zip_right`
                                  *before truncation*, `Σ conj(amp s)·(Σ_u ⟨s|H|u⟩⟨u|H|t⟩)·amp t`;
    * `scaled_observable`, `scaled_norm`, `normalised_of_inverse_norm`, `canonical_scale`
                                  `fill_results`: observables of `(1/‖ψ‖)·ψ` are `|λ|²` × those of `ψ`, the scaled state
                                  has norm 1 when `|λ|²·⟨ψ|ψ⟩ = 1`, and scaling the centre keeps the canonical form;
    * `padded_diag_observable`, `padded_occupation_good`, `padded_occupation_dark`, `padded_norm`, `padded_energy`
                                  dark-atom padding (`extended_mps_factors`): a dark atom has occupation 0, the k-th
                                  good atom the occupation of site `k` of the reduced state; the energy is C25's;
    * `diag_observable_real`, `occupation_range`, `correlation_range`
                                  over `Cx α`, `α` an ordered field: the values are real and lie in `[0, 1]` when `⟨ψ|ψ⟩ = 1`.
  Still validated only (harness oracle, 1e-9): entanglement entropy (`svdvals`), the truncation inside
  `hamiltonian @ hamiltonian` (C10's contract), and that the Hamiltonian MPO of emu-mps has the dense `H` of C05 as its
  operator semantics in *this* model (`Model/HamMPO.lean` uses label-indexed factors; no bridge lemma here).
-/
import EmuVerif.Proofs.MpsObs
import EmuVerif.Proofs.TensorCx
import EmuVerif.Props.C11
import EmuVerif.Props.C25
import Mathlib.Tactic.IntervalCases
import Mathlib.Algebra.Order.Field.Rat

set_option linter.unusedSectionVars false
set_option linter.unusedVariables false
set_option linter.unusedSimpArgs false

namespace EmuVerif.Props.C13Mps
open EmuVerif EmuVerif.Tensor EmuVerif.MpsObs Finset

section star
variable {K : Type} [CommRing K] [StarRing K]

/-- the transfer form of a one-site expectation value is the dense definition -/
theorem siteVal_eq_dense (d : Nat) (O : Nat → Nat → K) (fs : List (Site K)) (i : Nat) (hi : i < fs.length)
    (hW : Wf fs) (h1 : headDl fs = 1) (hd : ∀ A ∈ fs, A.d = d) :
    siteVal O fs i = denseProd d (oneSiteOps fs.length i O) fs :=
  xfer_eq_dense d fs _ hW h1 hd (oneSiteOps_length _ _ _ hi).symm

theorem pairVal_eq_dense (d : Nat) (O : Nat → Nat → K) (fs : List (Site K)) (i j : Nat) (hij : i < j)
    (hj : j < fs.length) (hW : Wf fs) (h1 : headDl fs = 1) (hd : ∀ A ∈ fs, A.d = d) :
    pairVal O fs i j = denseProd d (twoSiteOps fs.length i j O) fs :=
  xfer_eq_dense d fs _ hW h1 hd (twoSiteOps_length _ _ _ _ hij hj).symm

/-- **`MPS.expect_batch`**: with the recorded orthogonality centre `c` (any position), factors in canonical form
around `c`, and every recorded `r` satisfying `r†r = m†m`, the table returned has one row per site and
`result[i][j] = ⟨ψ| 1 ⊗ … ⊗ (O_j at site i) ⊗ … ⊗ 1 |ψ⟩` for EVERY `i < n` — the two loops are
`range(c, n)` and `range(c - 1, -1, -1)` exactly as written in the code. -/
theorem expect_batch_eq_dense (d : Nat) (ops : List (Nat → Nat → K)) (fs : List (Site K)) (c : Nat)
    (rt lt : List (RMat K)) (res : List (List K)) (h : expectBatchAt d ops fs c rt lt = some res)
    (hv : validChain d fs = true) (hc : Canonical fs c)
    (hrt : ∀ Fc, fs[c]? = some Fc → RightOk fs.length fs (pyRange c fs.length) Fc rt)
    (hlt : ∀ Fc, fs[c]? = some Fc → LeftOk fs (pyRangeDown c) Fc lt) :
    res.length = fs.length ∧
      ∀ i, i < fs.length →
        res[i]? = some (ops.map (fun O => denseProd d (oneSiteOps fs.length i O) fs)) := by
  obtain ⟨_, _, hW, h1, hd⟩ := validChain_spec d fs hv
  obtain ⟨r1, r2⟩ := expectBatchAt_spec d ops fs c rt lt res h hW h1 hd hc hrt hlt
  refine ⟨r1, fun i hi => ?_⟩
  rw [r2 i hi]
  congr 1
  exact List.map_congr_left (fun O _ => siteVal_eq_dense d O fs i hi hW h1 hd)

/-- entry form of `expect_batch_eq_dense` -/
theorem expect_batch_entry (d : Nat) (ops : List (Nat → Nat → K)) (fs : List (Site K)) (c : Nat)
    (rt lt : List (RMat K)) (res : List (List K)) (h : expectBatchAt d ops fs c rt lt = some res)
    (hv : validChain d fs = true) (hc : Canonical fs c)
    (hrt : ∀ Fc, fs[c]? = some Fc → RightOk fs.length fs (pyRange c fs.length) Fc rt)
    (hlt : ∀ Fc, fs[c]? = some Fc → LeftOk fs (pyRangeDown c) Fc lt)
    (i j : Nat) (hi : i < fs.length) (O : Nat → Nat → K) (hj : ops[j]? = some O) :
    (res[i]?.bind (·[j]?)) = some (denseProd d (oneSiteOps fs.length i O) fs) := by
  obtain ⟨_, r2⟩ := expect_batch_eq_dense d ops fs c rt lt res h hv hc hrt hlt
  rw [r2 i hi]
  simp [List.getElem?_map, hj]

/-- **`expect_batch` when no centre is recorded**: the code first calls `self.orthogonalize(0)`; with the qr
contract `q·r = m` for that sweep (C11's `OrthOk`: amplitudes are kept) and the resulting factors canonical at 0
(C10), the table is the dense definition on the state that was passed in. -/
theorem expect_batch_no_centre (d : Nat) (ops : List (Nat → Nat → K)) (fs : List (Site K))
    (otape : List (QRr K)) (rt lt : List (RMat K)) (res : List (List K))
    (h : expectBatch d ops fs none otape rt lt = some res)
    (hok : EmuVerif.Props.C11.OrthOk fs none 0 [] otape)
    (hpost : ∀ fs', orthogonalize fs none 0 [] otape = some fs' →
      validChain d fs' = true ∧ Canonical fs' 0 ∧
      (∀ Fc, fs'[0]? = some Fc → RightOk fs'.length fs' (pyRange 0 fs'.length) Fc rt)) :
    res.length = fs.length ∧
      ∀ i, i < fs.length → res[i]? = some (ops.map (fun O => denseProd d (oneSiteOps fs.length i O) fs)) := by
  unfold expectBatch at h
  simp only at h
  cases ho : orthogonalize fs none 0 [] otape with
  | none => rw [ho] at h; simp at h
  | some fs' =>
    rw [ho] at h
    simp only at h
    obtain ⟨hv, hc, hrt⟩ := hpost fs' ho
    have hl := orthogonalize_length fs fs' none 0 [] otape ho
    have ha := EmuVerif.Props.C11.orthogonalize_amp fs fs' none 0 [] otape ho hok
    obtain ⟨r1, r2⟩ := expect_batch_eq_dense d ops fs' 0 rt lt res h hv hc hrt (fun _ _ => trivial)
    rw [hl] at r1 r2
    refine ⟨r1, fun i hi => ?_⟩
    rw [r2 i hi]
    congr 1
    exact List.map_congr_left (fun O _ => denseProd_congr_amp d _ fs fs' hl ha)

/-- the matrix element of `1 ⊗ … ⊗ O ⊗ … ⊗ 1`: the two strings agree away from site `i`, weight `⟨s_i|O|t_i⟩` -/
theorem prodOp_one_site (n i : Nat) (O : Nat → Nat → K) (s t : List Nat) (hs : s.length = n) (ht : t.length = n)
    (hi : i < n) :
    prodOp (oneSiteOps n i O) s t =
      if s.take i = t.take i ∧ s.drop (i + 1) = t.drop (i + 1) then O (s.getD i 0) (t.getD i 0) else 0 :=
  prodOp_oneSite_general n i O s t hs ht hi

/-- **`qubit_occupation_mps_impl`** (before `.real`): entry `i` is `Σ_s [s_i = 1]·conj(amp s)·amp s = ⟨ψ|n_i|ψ⟩`. -/
theorem occupation_mps_eq_dense (d : Nat) (fs : List (Site K)) (c : Nat) (rt lt : List (RMat K)) (occ : List K)
    (h : occupationMps d fs c rt lt = some occ)
    (hv : validChain d fs = true) (hc : Canonical fs c)
    (hrt : ∀ Fc, fs[c]? = some Fc → RightOk fs.length fs (pyRange c fs.length) Fc rt)
    (hlt : ∀ Fc, fs[c]? = some Fc → LeftOk fs (pyRangeDown c) Fc lt) :
    occ.length = fs.length ∧ ∀ i, i < fs.length → occ[i]? = some (denseDiag d (bitW i) fs) := by
  unfold occupationMps at h
  cases hres : expectBatchAt d [nOp] fs c rt lt with
  | none => rw [hres] at h; simp at h
  | some res =>
    rw [hres] at h
    simp only [Option.map_some, Option.some.injEq] at h
    subst h
    obtain ⟨r1, r2⟩ := expect_batch_eq_dense d [nOp] fs c rt lt res hres hv hc hrt hlt
    refine ⟨by simpa using r1, fun i hi => ?_⟩
    rw [List.getElem?_map, r2 i hi]
    simp only [List.map_cons, List.map_nil, Option.map_some, List.getD_cons_zero, Option.some.injEq]
    rw [denseProd_diag d _ fs (oneSiteOps_diag _ _ _ nOp_diag)]
    unfold denseDiag
    refine Dark.sumStrings_congr' _ _ _ _ (fun s hs _ => ?_)
    simp only []
    rw [prodOp_oneSite _ i nOp s hs hi]
    simp [nOp, bitW]

/-- **`MPS.norm()`²** `= Σ|factors[c]|² = ⟨ψ|ψ⟩` in canonical form. -/
theorem norm_sq_eq_dense (d : Nat) (fs : List (Site K)) (c : Nat) (hv : validChain d fs = true)
    (hc : Canonical fs c) (hcn : c < fs.length) : normSqAt d fs c = some (denseNormSq d fs) := by
  obtain ⟨_, _, hW, h1, hd⟩ := validChain_spec d fs hv
  exact normSqAt_spec d fs c hW h1 hd hc hcn

/-- **`get_correlation_matrix(operator)`, off the diagonal**: with the factors canonical at `i` (as left by
`self.orthogonalize(i)`), the number stored in `result[i, i+k]` (`k ≥ 1`) is `⟨ψ|O_i O_{i+k}|ψ⟩`. -/
theorem correlation_offdiag_eq_dense (d : Nat) (op : Nat → Nat → K) (fs : List (Site K)) (i k : Nat)
    (hv : validChain d fs = true) (hc : Canonical fs i) (hk : 0 < k) (hik : i + k < fs.length) :
    (corrRow d op (fs.drop i))[k]? = some (denseProd d (twoSiteOps fs.length i (i + k) op) fs) := by
  obtain ⟨_, _, hW, h1, hd⟩ := validChain_spec d fs hv
  rw [(corrRow_spec d op fs i (by omega) hW h1 hd hc).2 k hk hik,
    pairVal_eq_dense d op fs i (i + k) (by omega) hik hW h1 hd]

/-- **the diagonal as implemented**: `result[i, i] = ⟨ψ|O_i|ψ⟩` (documented as `⟨O_i O_i⟩`; equal for idempotent
`O` such as `n` — finding T2 for general `O`). -/
theorem correlation_diag_as_implemented (d : Nat) (op : Nat → Nat → K) (fs : List (Site K)) (i : Nat)
    (hv : validChain d fs = true) (hc : Canonical fs i) (hi : i < fs.length) :
    (corrRow d op (fs.drop i))[0]? = some (denseProd d (oneSiteOps fs.length i op) fs) := by
  obtain ⟨_, _, hW, h1, hd⟩ := validChain_spec d fs hv
  rw [(corrRow_spec d op fs i hi hW h1 hd hc).1, siteVal_eq_dense d op fs i hi hW h1 hd]

/-- `[s_i = 1]·[s_j = 1]` -/
def bitW2 (i j : Nat) (s : List Nat) : K := bitW i s * bitW j s

/-- **the default correlation matrix** (`operator = n`): `[i, i+k] = Σ_s [s_i = 1][s_{i+k} = 1]·|amp s|²` and the
diagonal `Σ_s [s_i = 1]·|amp s|² = ⟨n_i⟩ = ⟨n_i n_i⟩`. -/
theorem correlation_n_eq_dense (d : Nat) (fs : List (Site K)) (i k : Nat)
    (hv : validChain d fs = true) (hc : Canonical fs i) (hik : i + k < fs.length) :
    (corrRow d nOp (fs.drop i))[k]? =
      some (if k = 0 then denseDiag d (bitW i) fs else denseDiag d (bitW2 i (i + k)) fs) := by
  by_cases hk : k = 0
  · subst hk
    rw [correlation_diag_as_implemented d nOp fs i hv hc (by omega), if_pos rfl,
      denseProd_diag d _ fs (oneSiteOps_diag _ _ _ nOp_diag)]
    congr 1
    unfold denseDiag
    refine Dark.sumStrings_congr' _ _ _ _ (fun s hs _ => ?_)
    simp only []
    rw [prodOp_oneSite _ i nOp s hs (by omega)]
    simp [nOp, bitW]
  · rw [correlation_offdiag_eq_dense d nOp fs i k hv hc (by omega) hik, if_neg hk,
      denseProd_diag d _ fs (twoSiteOps_diag _ _ _ _ nOp_diag)]
    congr 1
    unfold denseDiag
    refine Dark.sumStrings_congr' _ _ _ _ (fun s hs _ => ?_)
    simp only []
    rw [prodOp_twoSite _ i (i + k) nOp s hs (by omega) hik]
    simp [nOp, bitW, bitW2]

/-- `n` is a projector, so the diagonal as implemented is also the documented `⟨n_i n_i⟩` -/
theorem bitW2_self (i : Nat) (s : List Nat) : (bitW2 i i s : K) = bitW i s := by
  unfold bitW2 bitW; split <;> simp

theorem bitW2_comm (i j : Nat) (s : List Nat) : (bitW2 i j s : K) = bitW2 j i s := by
  unfold bitW2; ring

/-- the symmetric fill: `result[j, i] = result[i, j]` -/
theorem corr_fill_symm (rows : List (List K)) (i j : Nat) : corrFill rows i j = corrFill rows j i := by
  unfold corrFill
  by_cases h1 : i ≤ j <;> by_cases h2 : j ≤ i
  · have : i = j := by omega
    subst this; rfl
  · rw [if_pos h1, if_neg h2]
  · rw [if_neg h1, if_pos h2]
  · omega

/-- **the whole table of `get_correlation_matrix()`** from the factor lists present after each
`self.orthogonalize(left)` (each canonical at `left`, each representing the same state `fs`):
entry `[i, j] = Σ_s [s_i = 1][s_j = 1]·|amp s|² = ⟨ψ|n_i n_j|ψ⟩` for all `i, j < n`. -/
theorem corr_matrix_eq_dense (d : Nat) (fs : List (Site K)) (snaps : List (List (Site K)))
    (hn : snaps.length = fs.length)
    (hsn : ∀ l gs, snaps[l]? = some gs → validChain d gs = true ∧ Canonical gs l ∧ gs.length = fs.length ∧
      ∀ s, amp gs s = amp fs s)
    (i j : Nat) (hi : i < fs.length) (hj : j < fs.length) :
    corrMatrix d nOp snaps i j = denseDiag d (bitW2 i j) fs := by
  -- reduce to `i ≤ j`
  have key : ∀ i j, i ≤ j → j < fs.length → corrMatrix d (nOp : Nat → Nat → K) snaps i j = denseDiag d (bitW2 i j) fs := by
    intro i j hij hj
    have hi : i < snaps.length := by omega
    have hgs : snaps[i]? = some snaps[i] := List.getElem?_eq_getElem hi
    generalize snaps[i] = gs at hgs
    obtain ⟨gv, gc, gl, ga⟩ := hsn i gs hgs
    unfold corrMatrix corrFill
    rw [if_pos hij]
    have hrow : ((List.range snaps.length).map (fun left => corrRow d (nOp : Nat → Nat → K)
        ((snaps.getD left []).drop left))).getD i [] = corrRow d nOp (gs.drop i) := by
      simp [List.getD_eq_getElem?_getD, List.getElem?_map, List.getElem?_range hi, hgs]
    rw [hrow]
    have := correlation_n_eq_dense d gs i (j - i) gv gc (by omega)
    rw [List.getD_eq_getElem?_getD, this]
    simp only [Option.getD_some]
    have hden : ∀ w : List Nat → K, denseDiag d w gs = denseDiag d w fs := by
      intro w; unfold denseDiag; rw [gl]; simp only [ga]
    split
    · rename_i h0
      have : j = i := by omega
      subst this
      rw [hden]
      unfold denseDiag
      simp only [bitW2_self]
    · rw [hden, show i + (j - i) = j by omega]
  by_cases hij : i ≤ j
  · exact key i j hij hj
  · unfold corrMatrix
    rw [corr_fill_symm]
    have := key j i (by omega) hi
    unfold corrMatrix at this
    rw [this]
    unfold denseDiag
    simp only [bitW2_comm]

/-! ### the qr contract -/

/-- the Gram contract of the first loop follows from what a reduced QR factorisation is: `q·r = m`, `q†·q = 1` -/
theorem gramR_of_qr (f : RMat K) (C : Site K) (q : Nat → Nat → Nat → K)
    (hqr : ∀ x < C.d, ∀ l < C.dl, ∀ j < C.dr, ∑ k ∈ range f.k, q x l k * f.r k j = C.t x l j)
    (hqq : ∀ k < f.k, ∀ k' < f.k, ∑ l ∈ range C.dl, ∑ x ∈ range C.d, star (q x l k) * q x l k' = delta k k') :
    GramR f C := MpsObs.gramR_of_qr f C q hqr hqq

theorem gramL_of_qr (f : RMat K) (C : Site K) (q : Nat → Nat → Nat → K)
    (hqr : ∀ x < C.d, ∀ m < C.dr, ∀ j < C.dl, ∑ k ∈ range f.k, q x m k * f.r k j = C.t x j m)
    (hqq : ∀ k < f.k, ∀ k' < f.k, ∑ m ∈ range C.dr, ∑ x ∈ range C.d, star (q x m k) * q x m k' = delta k k') :
    GramL f C := MpsObs.gramL_of_qr f C q hqr hqq

/-! ### energy, second moment, variance (`MPO.expect`, `hamiltonian @ hamiltonian` before truncation) -/

/-- **`energy_mps_impl`** (before `.real`): `MPO.expect(state) = Σ_{s,t} conj(amp s)·⟨s|H|t⟩·amp t` (C11). -/
theorem energy_mps_eq_dense (d : Nat) (As H : List (Site K)) (hA : validChain d As = true)
    (hH : validChain (d * d) H = true) (hlen : As.length = H.length) :
    expect As H = some (sumStrings d As.length (fun s => sumStrings d As.length (fun t =>
      star (amp As s) * opAmp d H s t * amp As t))) :=
  EmuVerif.Props.C11.expect_eq_dense d As H hA hH hlen

/-- **`energy_second_moment_mps_impl`** (before `.real`), with `hamiltonian @ hamiltonian` = `zip_right` *before
truncation* (`H2`; its validity is what the `MPO` constructor asserts) and every recorded qr satisfying `q·r = m`:
`Σ_{s,t} conj(amp s)·(Σ_u ⟨s|H|u⟩·⟨u|H|t⟩)·amp t = ⟨ψ|H·H|ψ⟩`. -/
theorem second_moment_mps_eq_dense (d : Nat) (As H H2 : List (Site K)) (tape : List (QR3 K))
    (hz : zipRight d d H H tape = some H2) (hok : ZipOk d d H H tape slider0)
    (hA : validChain d As = true) (hH : validChain (d * d) H = true) (hH2 : validChain (d * d) H2 = true)
    (hlen : As.length = H.length) (hlen2 : As.length = H2.length) :
    expect As H2 = some (sumStrings d As.length (fun s => sumStrings d As.length (fun t =>
      star (amp As s) * sumStrings d As.length (fun u => opAmp d H s u * opAmp d H u t) * amp As t))) := by
  rw [EmuVerif.Props.C11.expect_eq_dense d As H2 hA hH2 hlen2]
  congr 1
  refine Dark.sumStrings_congr' _ _ _ _ (fun s hs hsd => Dark.sumStrings_congr' _ _ _ _ (fun t ht htd => ?_))
  congr 2
  unfold opAmp
  rw [EmuVerif.Props.C11.zip_right_amp d d H H H2 tape hz hok hH hH s t (by rw [hs, hlen]) (by rw [ht, hlen]) hsd htd,
    hlen]
  rfl

/-- **`energy_variance_mps_impl`** (before `.real`): `h_2 - h**2` of the two numbers above. -/
theorem variance_mps_eq_dense (d : Nat) (As H H2 : List (Site K)) (tape : List (QR3 K))
    (hz : zipRight d d H H tape = some H2) (hok : ZipOk d d H H tape slider0)
    (hA : validChain d As = true) (hH : validChain (d * d) H = true) (hH2 : validChain (d * d) H2 = true)
    (hlen : As.length = H.length) (hlen2 : As.length = H2.length) (e e2 : K)
    (he : expect As H = some e) (he2 : expect As H2 = some e2) :
    e2 - e * e =
      sumStrings d As.length (fun s => sumStrings d As.length (fun t =>
        star (amp As s) * sumStrings d As.length (fun u => opAmp d H s u * opAmp d H u t) * amp As t))
      - sumStrings d As.length (fun s => sumStrings d As.length (fun t => star (amp As s) * opAmp d H s t * amp As t))
        * sumStrings d As.length (fun s => sumStrings d As.length (fun t => star (amp As s) * opAmp d H s t * amp As t)) := by
  rw [energy_mps_eq_dense d As H hA hH hlen] at he
  rw [second_moment_mps_eq_dense d As H H2 tape hz hok hA hH hH2 hlen hlen2] at he2
  rw [← Option.some.inj he, ← Option.some.inj he2]

/-! ### `fill_results`: normalisation -/

/-- every (sesquilinear) observable of `λ·ψ` is `conj(λ)·λ` times that of `ψ` (`__rmul__` scales one factor) -/
theorem scaled_observable (d : Nat) (ops : List (Nat → Nat → K)) (c : K) (which : Nat) (fs : List (Site K))
    (hw : which < fs.length) :
    denseProd d ops (scaleFactors c which fs) = star c * c * denseProd d ops fs :=
  denseProd_scale d ops c which fs hw

theorem scaled_diag_observable (d : Nat) (w : List Nat → K) (c : K) (which : Nat) (fs : List (Site K))
    (hw : which < fs.length) :
    denseDiag d w (scaleFactors c which fs) = star c * c * denseDiag d w fs :=
  denseDiag_scale d w c which fs hw

theorem scaled_norm (d : Nat) (c : K) (which : Nat) (fs : List (Site K)) (hw : which < fs.length) :
    denseNormSq d (scaleFactors c which fs) = star c * c * denseNormSq d fs :=
  denseNormSq_scale d c which fs hw

/-- `1 / self.state.norm() * self.state` is normalised, given what the scalar is meant to be: `|λ|²·⟨ψ|ψ⟩ = 1`
(the contract of `sqrt` and `/`; `⟨ψ|ψ⟩ = normSqAt` by `norm_sq_eq_dense`) -/
theorem normalised_of_inverse_norm (d : Nat) (c : K) (which : Nat) (fs : List (Site K)) (hw : which < fs.length)
    (hc : star c * c * denseNormSq d fs = 1) : denseNormSq d (scaleFactors c which fs) = 1 := by
  rw [scaled_norm d c which fs hw, hc]

/-- scaling the centre factor keeps the canonical form (and the recorded centre) -/
theorem canonical_scale (c : K) (k : Nat) (fs : List (Site K)) (h : Canonical fs k) :
    Canonical (scaleFactors c k fs) k := by
  refine ⟨fun i hi A hA => h.1 i hi A ?_, fun i hi A hA => h.2 i hi A ?_⟩
  · rw [← scaleFactors_getElem?_ne c k fs i (by omega)]; exact hA
  · rw [← scaleFactors_getElem?_ne c k fs i (by omega)]; exact hA

/-! ### `fill_results`: dark-atom padding -/

open EmuVerif.Dark in
/-- a diagonal observable of the padded state whose eigenvalue only depends on the good atoms (dark atoms in
level 0) is the corresponding observable of the reduced state -/
theorem padded_diag_observable (dim : Nat) (hdpos : 0 < dim) (fs gs : List (Site K)) (w : List Bool)
    (hg : extendedMps fs w = some gs) (hW : Wf fs) (h1 : headDl fs = 1) (hd : ∀ A ∈ fs, A.d = dim)
    (hdim : stateDim fs = dim) (W V : List Nat → K)
    (hWV : ∀ s, s.length = w.length → darkPass passState w s = true → W s = V (restrict w s)) :
    denseDiag dim W gs = denseDiag dim V fs := by
  obtain ⟨_, _, gl, _⟩ := EmuVerif.Props.C25.extended_mps_valid fs gs w hg hW h1 dim hdim hd
  have hfl : fs.length = countGood w := by
    unfold extendedMps at hg; split at hg
    · exact absurd hg (by simp)
    · rename_i hc; simpa using hc
  unfold denseDiag
  rw [gl, hfl, ← sumStrings_mask dim hdpos w]
  refine sumStrings_congr' _ _ _ _ (fun s hs _ => ?_)
  rw [EmuVerif.Props.C25.extended_mps_amp fs gs w hg hW h1 s hs]
  by_cases hp : darkPass passState w s = true
  · simp only [hp, if_true]
    rw [hWV s hs hp]
  · simp only [hp]
    simp [conj_eq_star]

open EmuVerif.Dark in
theorem darkPass_getD (w : List Bool) (s : List Nat) (p : Nat) (hs : s.length = w.length)
    (hp : darkPass passState w s = true) (hw : w[p]? = some false) : s.getD p 0 = 0 := by
  induction w generalizing s p with
  | nil => simp at hw
  | cons b w ih =>
    cases s with
    | nil => simp at hs
    | cons x s =>
      cases p with
      | zero =>
        simp only [List.getElem?_cons_zero, Option.some.injEq] at hw
        subst hw
        simp only [darkPass, Bool.and_eq_true, passState, beq_iff_eq] at hp
        simpa using hp.1
      | succ p =>
        simp only [List.getElem?_cons_succ] at hw
        simp only [List.getD_cons_succ]
        refine ih s p (by simpa using hs) ?_ hw
        cases b
        · simp only [darkPass, Bool.and_eq_true] at hp; exact hp.2
        · simpa [darkPass] using hp

open EmuVerif.Dark in
/-- **dark atoms report occupation 0** -/
theorem padded_occupation_dark (dim : Nat) (hdpos : 0 < dim) (fs gs : List (Site K)) (w : List Bool)
    (hg : extendedMps fs w = some gs) (hW : Wf fs) (h1 : headDl fs = 1) (hd : ∀ A ∈ fs, A.d = dim)
    (hdim : stateDim fs = dim) (p : Nat) (hp : w[p]? = some false) :
    denseDiag dim (bitW p) gs = 0 := by
  rw [padded_diag_observable dim hdpos fs gs w hg hW h1 hd hdim (bitW p) (fun _ => 0)
    (fun s hs hps => by
      have h0 := darkPass_getD w s p hs hps hp
      simp only [bitW, h0]; simp)]
  unfold denseDiag
  simp only [zero_mul]
  exact sumStrings_zero _ _

open EmuVerif.Dark in
/-- **the `k`-th good atom, sitting at position `p` of the padded register, reports the occupation of site `k`
of the reduced state** -/
theorem padded_occupation_good (dim : Nat) (hdpos : 0 < dim) (fs gs : List (Site K)) (w : List Bool)
    (hg : extendedMps fs w = some gs) (hW : Wf fs) (h1 : headDl fs = 1) (hd : ∀ A ∈ fs, A.d = dim)
    (hdim : stateDim fs = dim) (k p : Nat) (hp : getExtendedSiteIndex w (some k) = some (some p)) :
    denseDiag dim (bitW p) gs = denseDiag dim (bitW k) fs := by
  refine padded_diag_observable dim hdpos fs gs w hg hW h1 hd hdim (bitW p) (bitW k) (fun s hs _ => ?_)
  have := EmuVerif.Props.C25.filter_good_get w s hs k p hp
  unfold filterGood at this
  simp only [bitW, List.getD_eq_getElem?_getD, this]

open EmuVerif.Dark in
/-- the correlation of two good atoms is that of the reduced state; with a dark atom involved it is 0 -/
theorem padded_correlation_good (dim : Nat) (hdpos : 0 < dim) (fs gs : List (Site K)) (w : List Bool)
    (hg : extendedMps fs w = some gs) (hW : Wf fs) (h1 : headDl fs = 1) (hd : ∀ A ∈ fs, A.d = dim)
    (hdim : stateDim fs = dim) (k k' p p' : Nat) (hp : getExtendedSiteIndex w (some k) = some (some p))
    (hp' : getExtendedSiteIndex w (some k') = some (some p')) :
    denseDiag dim (bitW2 p p') gs = denseDiag dim (bitW2 k k') fs := by
  refine padded_diag_observable dim hdpos fs gs w hg hW h1 hd hdim _ _ (fun s hs _ => ?_)
  have e1 := EmuVerif.Props.C25.filter_good_get w s hs k p hp
  have e2 := EmuVerif.Props.C25.filter_good_get w s hs k' p' hp'
  unfold filterGood at e1 e2
  simp only [bitW2, bitW, List.getD_eq_getElem?_getD, e1, e2]

open EmuVerif.Dark in
theorem padded_correlation_dark (dim : Nat) (hdpos : 0 < dim) (fs gs : List (Site K)) (w : List Bool)
    (hg : extendedMps fs w = some gs) (hW : Wf fs) (h1 : headDl fs = 1) (hd : ∀ A ∈ fs, A.d = dim)
    (hdim : stateDim fs = dim) (p p' : Nat) (hp : w[p]? = some false ∨ w[p']? = some false) :
    denseDiag dim (bitW2 p p') gs = 0 := by
  rw [padded_diag_observable dim hdpos fs gs w hg hW h1 hd hdim (bitW2 p p') (fun _ => 0)
    (fun s hs hps => by
      rcases hp with h | h
      · have h0 := darkPass_getD w s p hs hps h
        simp only [bitW2, bitW, h0]; simp
      · have h0 := darkPass_getD w s p' hs hps h
        simp only [bitW2, bitW, h0]; simp)]
  unfold denseDiag
  simp only [zero_mul]
  exact sumStrings_zero _ _

open EmuVerif.Dark in
/-- padding keeps the norm -/
theorem padded_norm (dim : Nat) (hdpos : 0 < dim) (fs gs : List (Site K)) (w : List Bool)
    (hg : extendedMps fs w = some gs) (hW : Wf fs) (h1 : headDl fs = 1) (hd : ∀ A ∈ fs, A.d = dim)
    (hdim : stateDim fs = dim) : denseNormSq dim gs = denseNormSq dim fs := by
  have := padded_diag_observable dim hdpos fs gs w hg hW h1 hd hdim (fun _ => 1) (fun _ => 1) (fun _ _ _ => rfl)
  unfold denseDiag at this
  unfold denseNormSq
  simpa using this

/-- the energy handed to the callbacks: padded operator on the padded state = reduced pair (C25) -/
theorem padded_energy (dim : Nat) (hdpos : 0 < dim) (fs ws gs hs : List (Site K)) (w : List Bool)
    (hg : Dark.extendedMps fs w = some gs) (hh : Dark.extendedMpo ws w = some hs)
    (fW : Wf fs) (f1 : headDl fs = 1) (fd : ∀ A ∈ fs, A.d = dim) (fdim : Dark.stateDim fs = dim)
    (wW : Wf ws) (w1 : headDl ws = 1) (wdim : Dark.opDim ws = dim) :
    expect gs hs = expect fs ws :=
  EmuVerif.Props.C25.padded_expect_eq_reduced dim hdpos fs ws gs hs w hg hh fW f1 fd fdim wW w1 wdim

end star

/-! ### values are real and in range (over `Cx α`, `α` an ordered field) -/

section real
variable {α : Type} [Field α] [LinearOrder α] [IsStrictOrderedRing α]

theorem bitW_01 (i : Nat) (s : List Nat) : (bitW i s : Cx α) = 0 ∨ (bitW i s : Cx α) = 1 := by
  unfold bitW; split <;> simp

theorem bitW2_01 (i j : Nat) (s : List Nat) : (bitW2 i j s : Cx α) = 0 ∨ (bitW2 i j s : Cx α) = 1 := by
  unfold bitW2 bitW; split <;> split <;> simp

/-- `.real` drops nothing: occupation and correlation values have imaginary part 0 -/
theorem diag_observable_real (d : Nat) (fs : List (Site (Cx α))) (i j : Nat) :
    (denseDiag d (bitW i) fs).im = 0 ∧ (denseDiag d (bitW2 i j) fs).im = 0 :=
  ⟨(denseDiag_bounds d _ (bitW_01 i) fs).1, (denseDiag_bounds d _ (bitW2_01 i j) fs).1⟩

/-- occupations of a normalised state lie in `[0, 1]` (`n` is a projector) -/
theorem occupation_range (d : Nat) (fs : List (Site (Cx α))) (hn : denseNormSq d fs = 1) (i : Nat) :
    0 ≤ (denseDiag d (bitW i) fs).re ∧ (denseDiag d (bitW i) fs).re ≤ 1 := by
  obtain ⟨_, h0, h1⟩ := denseDiag_bounds d _ (bitW_01 i) fs
  rw [hn] at h1
  exact ⟨h0, h1⟩

/-- correlations `⟨n_i n_j⟩` of a normalised state lie in `[0, 1]` -/
theorem correlation_range (d : Nat) (fs : List (Site (Cx α))) (hn : denseNormSq d fs = 1) (i j : Nat) :
    0 ≤ (denseDiag d (bitW2 i j) fs).re ∧ (denseDiag d (bitW2 i j) fs).re ≤ 1 := by
  obtain ⟨_, h0, h1⟩ := denseDiag_bounds d _ (bitW2_01 i j) fs
  rw [hn] at h1
  exact ⟨h0, h1⟩

/-- reported occupations of a normalised canonical MPS are in range -/
theorem occupation_mps_range (d : Nat) (fs : List (Site (Cx α))) (c : Nat) (rt lt : List (RMat (Cx α)))
    (occ : List (Cx α)) (h : occupationMps d fs c rt lt = some occ)
    (hv : validChain d fs = true) (hc : Canonical fs c)
    (hrt : ∀ Fc, fs[c]? = some Fc → RightOk fs.length fs (pyRange c fs.length) Fc rt)
    (hlt : ∀ Fc, fs[c]? = some Fc → LeftOk fs (pyRangeDown c) Fc lt)
    (hn : denseNormSq d fs = 1) (i : Nat) (hi : i < fs.length) :
    ∃ v, occ[i]? = some v ∧ v.im = 0 ∧ 0 ≤ v.re ∧ v.re ≤ 1 := by
  obtain ⟨_, r2⟩ := occupation_mps_eq_dense d fs c rt lt occ h hv hc hrt hlt
  exact ⟨_, r2 i hi, (diag_observable_real d fs i i).1, occupation_range d fs hn i⟩

end real

/-! ### non-vacuity: a concrete canonical MPS over the Gaussian integers; the seeded range bug -/

section examples
abbrev Z := Cx ℤ

def exC (x l r : Nat) : Z := ⟨(x : ℤ) + 2 * l - r, (l : ℤ) * r - x⟩

/-- three qubits, bonds (1, 2, 2, 1): site 0 a left-isometry, site 2 a right-isometry, centre (any tensor) at site 1 -/
def exFs : List (Site Z) :=
  [{ dl := 1, d := 2, dr := 2, t := fun x _ r => if x = r then 1 else 0 },
   { dl := 2, d := 2, dr := 2, t := exC },
   { dl := 2, d := 2, dr := 1, t := fun x l _ => if x = l then ⟨0, 1⟩ else 0 }]

/-- recorded `r`s: the matrix handed to `qr` itself (`q = 1`), which satisfies the Gram contract trivially -/
def exRt : List (RMat Z) := [{ k := 4, r := fun k j => exC (k % 2) (k / 2) j }]
def exLt : List (RMat Z) := [{ k := 4, r := fun k j => exC (k / 2) j (k % 2) }]

/-- a non-Hermitian operator next to `n` -/
def exO : Nat → Nat → Z := fun x y => ⟨(x : ℤ) + 2 * y, 1⟩
def exOps : List (Nat → Nat → Z) := [nOp, exO]

example : validChain 2 exFs = true := by decide

theorem exFs_canonical : Canonical exFs 1 := by
  constructor
  · intro i hi A hA
    obtain rfl : i = 0 := by omega
    simp only [exFs, List.getElem?_cons_zero, Option.some.injEq] at hA
    subst hA
    intro r hr r' hr'
    simp only at hr hr'
    simp only [Finset.sum_range_succ, Finset.sum_range_zero, delta]
    interval_cases r <;> interval_cases r' <;> decide
  · intro i hi A hA
    have hl := (List.getElem?_eq_some_iff.mp hA).1
    simp only [exFs, List.length_cons, List.length_nil] at hl
    obtain rfl : i = 2 := by omega
    simp only [exFs, List.getElem?_cons_succ, List.getElem?_cons_zero, Option.some.injEq] at hA
    subst hA
    intro l hl l' hl'
    simp only at hl hl'
    simp only [Finset.sum_range_succ, Finset.sum_range_zero, delta]
    interval_cases l <;> interval_cases l' <;> decide

theorem exRt_ok : ∀ Fc, exFs[1]? = some Fc → RightOk exFs.length exFs (pyRange 1 exFs.length) Fc exRt := by
  intro Fc hFc
  simp only [exFs, List.getElem?_cons_succ, List.getElem?_cons_zero, Option.some.injEq] at hFc
  subst hFc
  refine ⟨fun _ f t' h => ?_, fun C' t' _ => ⟨fun h2 => absurd h2 (by decide), fun _ _ _ => trivial⟩⟩
  simp only [exRt, List.cons.injEq] at h
  obtain ⟨rfl, _⟩ := h
  intro j hj j' hj'
  simp only at hj hj'
  simp only [Finset.sum_range_succ, Finset.sum_range_zero]
  interval_cases j <;> interval_cases j' <;> decide

theorem exLt_ok : ∀ Fc, exFs[1]? = some Fc → LeftOk exFs (pyRangeDown 1) Fc exLt := by
  intro Fc hFc
  simp only [exFs, List.getElem?_cons_succ, List.getElem?_cons_zero, Option.some.injEq] at hFc
  subst hFc
  refine ⟨fun f t' h => ?_, fun C' t' _ => trivial⟩
  simp only [exLt, List.cons.injEq] at h
  obtain ⟨rfl, _⟩ := h
  intro j hj j' hj'
  simp only at hj hj'
  simp only [Finset.sum_range_succ, Finset.sum_range_zero]
  interval_cases j <;> interval_cases j' <;> decide

/-- what the model of `expect_batch` returns on the example (centre in the middle: both loops run) -/
theorem ex_expect_batch : expectBatchAt 2 exOps exFs 1 exRt exLt =
    some [[⟨20, 0⟩, ⟨69, 33⟩], [⟨17, 0⟩, ⟨75, 37⟩], [⟨8, 0⟩, ⟨51, 45⟩]] := by decide +kernel

/-- the hypotheses of `expect_batch_eq_dense` are satisfiable, and its conclusion on the instance -/
example : ∀ i, i < 3 →
    ([[⟨20, 0⟩, ⟨69, 33⟩], [⟨17, 0⟩, ⟨75, 37⟩], [⟨8, 0⟩, ⟨51, 45⟩]] : List (List Z))[i]? =
      some (exOps.map (fun O => denseProd 2 (oneSiteOps 3 i O) exFs)) :=
  (expect_batch_eq_dense 2 exOps exFs 1 exRt exLt _ ex_expect_batch (by decide) exFs_canonical exRt_ok exLt_ok).2

/-- test: the dense side evaluated by the kernel -/
example : (List.range 3).map (fun i => exOps.map (fun O => denseProd 2 (oneSiteOps 3 i O) exFs)) =
    [[⟨20, 0⟩, ⟨69, 33⟩], [⟨17, 0⟩, ⟨75, 37⟩], [⟨8, 0⟩, ⟨51, 45⟩]] := by decide +kernel

example : normSqAt 2 exFs 1 = some ⟨24, 0⟩ ∧ denseNormSq 2 exFs = ⟨24, 0⟩ := by decide +kernel
example : corrRow 2 exO (exFs.drop 1) = [⟨75, 37⟩, ⟨82, 210⟩] ∧
    denseProd 2 (twoSiteOps 3 1 2 exO) exFs = ⟨82, 210⟩ := by decide +kernel

/-- `expect_batch` with the second loop over `range(c - 1, 0, -1)` (the independently seeded bug) -/
def expectBatchAtSeeded (d : Nat) (ops : List (Nat → Nat → Z)) (fs : List (Site Z)) (c : Nat)
    (rt lt : List (RMat Z)) : Option (List (List Z)) :=
  match fs[c]? with
  | none => none
  | some Fc =>
    match foldOpt (ebRightStep d fs.length ops fs) (pyRange c fs.length)
        ⟨Fc, rt, List.replicate fs.length (List.replicate ops.length 0)⟩ with
    | none => none
    | some st1 =>
      match foldOpt (ebLeftStep d ops fs) (List.range' 1 (c - 1)).reverse ⟨Fc, lt, st1.res⟩ with
      | none => none
      | some st2 => some st2.res

/-- The theorem is about the ranges as written: with `range(c - 1, 0, -1)` site 0 keeps the initial zeros although
`⟨ψ|n_0|ψ⟩ = 20 ≠ 0` on the same canonical state. -/
theorem expect_batch_seeded_range_bug :
    ∃ res, expectBatchAtSeeded 2 exOps exFs 1 exRt exLt = some res ∧ res[0]? = some [0, 0] ∧
      denseProd 2 (oneSiteOps 3 0 nOp) exFs = ⟨20, 0⟩ :=
  ⟨[[0, 0], [⟨17, 0⟩, ⟨75, 37⟩], [⟨8, 0⟩, ⟨51, 45⟩]], by decide +kernel, by decide +kernel, by decide +kernel⟩

/-! non-vacuity of the `fill_results` theorems: normalisation over `Cx ℚ`, dark-atom padding, second moment -/

/-- `(3|0⟩ + 4i|1⟩) ⊗ |0⟩`, norm² 25 -/
def exN : List (Site (Cx ℚ)) :=
  [{ dl := 1, d := 2, dr := 1, t := fun x _ _ => if x = 0 then ⟨3, 0⟩ else ⟨0, 4⟩ },
   { dl := 1, d := 2, dr := 1, t := fun x _ _ => if x = 0 then 1 else 0 }]

/-- the hypothesis of `normalised_of_inverse_norm` is satisfiable (`λ = 1/5`), hence so is `⟨ψ|ψ⟩ = 1` of the range theorems -/
example : star (⟨1 / 5, 0⟩ : Cx ℚ) * ⟨1 / 5, 0⟩ * denseNormSq 2 exN = 1 := by decide +kernel
example : denseNormSq 2 (scaleFactors (⟨1 / 5, 0⟩ : Cx ℚ) 0 exN) = 1 :=
  normalised_of_inverse_norm 2 _ 0 exN (by decide) (by decide +kernel)
example : 0 ≤ (denseDiag 2 (bitW 0) (scaleFactors (⟨1 / 5, 0⟩ : Cx ℚ) 0 exN)).re ∧
    (denseDiag 2 (bitW 0) (scaleFactors (⟨1 / 5, 0⟩ : Cx ℚ) 0 exN)).re ≤ 1 :=
  occupation_range 2 _ (normalised_of_inverse_norm 2 _ 0 exN (by decide) (by decide +kernel)) 0
/-- test: the occupation of the normalised state is 16/25 -/
example : denseDiag 2 (bitW 0) (scaleFactors (⟨1 / 5, 0⟩ : Cx ℚ) 0 exN) = ⟨16 / 25, 0⟩ := by decide +kernel

/-- padding `exFs` with a dark atom at position 1: hypotheses of the `padded_*` theorems and their conclusions on the instance -/
example : Wf exFs ∧ headDl exFs = 1 ∧ Dark.stateDim exFs = 2 ∧
    Dark.getExtendedSiteIndex [true, false, true, true] (some 1) = some (some 2) :=
  ⟨⟨rfl, rfl, rfl, trivial⟩, rfl, rfl, by decide⟩
example : ∃ gs, Dark.extendedMps exFs [true, false, true, true] = some gs ∧ denseDiag 2 (bitW 1) gs = 0 ∧
    denseDiag 2 (bitW 2) gs = denseDiag 2 (bitW 1) exFs ∧ denseNormSq 2 gs = denseNormSq 2 exFs :=
  ⟨_, rfl, by decide +kernel, by decide +kernel, by decide +kernel⟩

/-- `H = 1 ⊗ (|1⟩⟨0| + 2|0⟩⟨1|)` (bond dimension 1) and the recorded qr of `H @ H` (`q` = the merged matrix, `r = 1`) -/
def exH : List (Site Z) :=
  [{ dl := 1, d := 4, dr := 1, t := fun x _ _ => if x = 0 ∨ x = 3 then 1 else 0 },
   { dl := 1, d := 4, dr := 1, t := fun x _ _ => if x = 2 then 1 else if x = 1 then ⟨2, 0⟩ else 0 }]
def exHTape : List (QR3 Z) :=
  [{ k := 1, q := fun lev _ _ => if lev = 0 ∨ lev = 3 then 1 else 0, r := fun _ _ _ => 1 },
   { k := 1, q := fun lev _ _ => if lev = 0 ∨ lev = 3 then ⟨2, 0⟩ else 0, r := fun _ _ _ => 1 }]
/-- `(|0⟩ + i|1⟩) ⊗ (|0⟩ + (1+i)|1⟩)` -/
def exS : List (Site Z) :=
  [{ dl := 1, d := 2, dr := 1, t := fun x _ _ => if x = 0 then ⟨1, 0⟩ else ⟨0, 1⟩ },
   { dl := 1, d := 2, dr := 1, t := fun x _ _ => if x = 0 then ⟨1, 0⟩ else ⟨1, 1⟩ }]

example : ZipOk 2 2 exH exH exHTape slider0 := by
  simp only [ZipOk, exH, exHTape, slider0]
  refine ⟨?_, ?_, trivial⟩ <;>
    (intro a ha o ho j hj bt hbt rb hrb
     simp only [Finset.sum_range_succ, Finset.sum_range_zero]
     interval_cases a <;> interval_cases o <;> interval_cases j <;> interval_cases bt <;> interval_cases rb <;> decide)
/-- hypotheses and conclusion of `second_moment_mps_eq_dense` on the instance: `⟨H²⟩ = 12`, `⟨H⟩ = 6 + 2i` (H is not Hermitian) -/
example : ∃ H2, zipRight 2 2 exH exH exHTape = some H2 ∧ validChain 4 H2 = true ∧ validChain 4 exH = true ∧
    validChain 2 exS = true ∧ expect exS H2 = some ⟨12, 0⟩ ∧ expect exS exH = some ⟨6, 2⟩ ∧
    sumStrings 2 2 (fun s => sumStrings 2 2 (fun t =>
      conj (amp exS s) * sumStrings 2 2 (fun u => opAmp 2 exH s u * opAmp 2 exH u t) * amp exS t)) = (⟨12, 0⟩ : Z) :=
  ⟨_, rfl, by decide, by decide, by decide, by decide +kernel, by decide +kernel, by decide +kernel⟩

end examples

end EmuVerif.Props.C13Mps
