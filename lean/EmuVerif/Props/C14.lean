/-
  C14 — Observables are recorded exactly at their requested times.

  Statement (properties.jsonl): for any set of evaluation times in [0,1] (per observable or
  config default) and any dt, each observable appears in the results exactly once per requested
  time and at no other time, in increasing order. Each value is computed from the state at
  exactly that time, including times that are not multiples of dt and time 0.

  Model: `Model.TimeGrid` — the grid of C21, the back-ends' `_is_evaluation_time` (tolerance
  `tol1 = 1e-10`), pulser's `Observable.__call__` filter (tolerance `tol2 = 0.5/int(duration)`),
  `Results._store_raw` (raises on a repeated or non-increasing time), and the call sites (t = 0
  before the loop, after each step) of emu-sv and emu-mps (the DMRG solver shares
  `timestep_complete`/`fill_results` with TDVP). The state is abstract: a record carries the
  index `k` of the grid point whose state was handed to `apply`.

  Setting of the theorems: any linear ordered field; `Hyp` of C21 (D > 0, dt > 0, requested
  times in [0,1], 0 ≤ relTol < 1, floor); `G` the grid; `T` the times the observable is tested
  against (its own, else the config default), strictly increasing (pulser validates this) and
  among the collected times; `relTol ≤ tol1 ≤ tol2`, i.e. `int(duration) ≤ 5·10⁹ ns`.

  Proved without any separation hypothesis:
    * `run_is_selection`         – the run never raises; its records are the grid fractions that pass
                                   both filters, tagged with their grid index;
    * `records_increasing`       – record times strictly increasing (no time twice);
    * `record_from_its_grid_index` – a record `(t,k)` has `G[k] = g`, `t = g/D`: the value is computed
                                   from the state of grid index `k`, i.e. at time `t·D`;
    * `every_request_recorded_near` – each requested τ has a record within `relTol` of τ;
    * `every_record_near_request`  – each record is within `tol1` of a requested time.
  Proved under *SepObs* (every other grid candidate is further than `tol1·D` from each requested
  time of the observable):
    * `records_exact`            – the list of record times **is** `T`: every requested time exactly
                                   once, nothing else, in increasing order, at exactly `τ`
                                   (`recorded_at_grid_point`: from the state of the grid point `τ·D`).
  *SepObs* is needed: `sep_needed` (a dt multiple `5·10⁻¹¹` below a requested time gives a second
  record). Two documented counterexamples for the code as found before its repairs:
  `lost_before_a740bae` (D7c: merge tolerance 1e-9 > tol1) and `spurious_before_cd44121` (D20:
  default times let through for an observable with its own times).
  Not in the theorems: binary64 rounding of `τ·D/D` (the recorded float can differ from τ by an
  ulp) — measured in harness/props/c14.py.
-/
import EmuVerif.Props.C21

set_option linter.unusedSectionVars false
set_option linter.unusedVariables false

namespace EmuVerif.Props.C14
open EmuVerif EmuVerif.TimeGrid EmuVerif.Props.C21

variable {α : Type} [Field α] [LinearOrder α] [IsStrictOrderedRing α]

theorem abs_frac {D : α} (hD : 0 < D) (τ g tol : α) :
    |τ - g / D| ≤ tol ↔ |g - τ * D| ≤ tol * D := by
  have h : τ - g / D = -((g - τ * D) / D) := by
    rw [sub_div, mul_div_cancel_right₀ _ (ne_of_gt hD)]; ring
  rw [h, abs_neg, abs_div, abs_of_pos hD, div_le_iff₀ hD]

/-- The setting shared by the C14 theorems. -/
structure Setting (fl : α → Int) (relTol tol1 tol2 D dt : α) (obs : List α)
    (dflt own : Option (List α)) (T G : List α) : Prop where
  hyp : Hyp fl relTol D dt obs
  grid : targetTimesOf natC fl relTol D dt obs = .ok G
  eff : effTimes dflt own = some T
  sub : ∀ τ ∈ T, τ ∈ obs
  asc : T.Pairwise (· < ·)
  tol_le : relTol ≤ tol1
  tol12 : tol1 ≤ tol2

section
variable {fl : α → Int} {relTol tol1 tol2 D dt : α} {obs : List α}
  {dflt own : Option (List α)} {T G : List α}

/-- The fractional times visited by a run that takes `len − 1` steps. -/
abbrev fracs (G : List α) (D : α) : List α := G.map (· / D)

theorem fracs_sorted (S : Setting fl relTol tol1 tol2 D dt obs dflt own T G) :
    (fracs G D).Pairwise (· < ·) := by
  have hs := strictly_increasing S.hyp S.grid
  refine List.pairwise_map.2 (hs.imp (fun {a b} hab => ?_))
  rw [div_eq_mul_inv, div_eq_mul_inv]
  exact mul_lt_mul_of_pos_right hab (inv_pos.2 S.hyp.D_pos)

/-- The run never raises and records the selection of the visited fractions. -/
theorem run_is_selection (S : Setting fl relTol tol1 tol2 D dt obs dflt own T G) (mps : Bool) :
    runObs false mps tol1 tol2 dflt own G (G.length - 1) =
      .ok (sel (keepB tol1 tol2 T) 0 (fracs G D)) := by
  have hv : visitTimes mps G (G.length - 1) = some G := by
    cases mps
    · exact visits_sv S.hyp S.grid
    · exact visits_mps S.hyp S.grid
  have hl := last_duration S.hyp S.grid
  unfold runObs
  rw [hv, hl]
  simp only [fractions]
  have := runFrom_ok (tol1 := tol1) (tol2 := tol2) S.eff (fracs G D) 0 [] (fracs_sorted S)
    (by intro r hr; simp at hr)
  simpa using this

variable {rec : List (α × Nat)} {mps : Bool}

theorem rec_eq (S : Setting fl relTol tol1 tol2 D dt obs dflt own T G)
    (hr : runObs false mps tol1 tol2 dflt own G (G.length - 1) = .ok rec) :
    rec = sel (keepB tol1 tol2 T) 0 (fracs G D) := by
  rw [run_is_selection S mps] at hr
  injection hr with e
  exact e.symm

/-- Record times are strictly increasing: no time is recorded twice, order is chronological. -/
theorem records_increasing (S : Setting fl relTol tol1 tol2 D dt obs dflt own T G)
    (hr : runObs false mps tol1 tol2 dflt own G (G.length - 1) = .ok rec) :
    (rec.map Prod.fst).Pairwise (· < ·) := by
  rw [rec_eq S hr, sel_fst]
  exact (fracs_sorted S).filter _

/-- A record `(t, k)` was computed from the state of grid index `k`, whose time is `t·D`. -/
theorem record_from_its_grid_index (S : Setting fl relTol tol1 tol2 D dt obs dflt own T G)
    (hr : runObs false mps tol1 tol2 dflt own G (G.length - 1) = .ok rec)
    (t : α) (k : ℕ) (hp : (t, k) ∈ rec) : ∃ g, G[k]? = some g ∧ t = g / D ∧ g = t * D := by
  rw [rec_eq S hr] at hp
  obtain ⟨_, h2, _⟩ := sel_index _ 0 _ _ hp
  simp only [Nat.sub_zero, fracs, List.getElem?_map] at h2
  cases hg : G[k]? with
  | none => rw [hg] at h2; simp at h2
  | some g =>
    rw [hg] at h2; simp at h2
    exact ⟨g, rfl, h2.symm, by rw [← h2, div_mul_cancel₀ _ (ne_of_gt S.hyp.D_pos)]⟩

/-- Each record is within `tol1` of a requested time (and in [0,1]). -/
theorem every_record_near_request (S : Setting fl relTol tol1 tol2 D dt obs dflt own T G)
    (hr : runObs false mps tol1 tol2 dflt own G (G.length - 1) = .ok rec)
    (t : α) (k : ℕ) (hp : (t, k) ∈ rec) : ∃ τ ∈ T, |τ - t| ≤ tol1 := by
  rw [rec_eq S hr] at hp
  obtain ⟨_, _, h3⟩ := sel_index _ 0 _ _ hp
  simp only [keepB, Bool.and_eq_true, inTimes_iff] at h3
  exact h3.1.2.2

theorem frac_mem {g : α} (hg : g ∈ G) : g / D ∈ fracs G D := List.mem_map.2 ⟨g, hg, rfl⟩

theorem keep_of_near (S : Setting fl relTol tol1 tol2 D dt obs dflt own T G) {g τ : α} (hg : g ∈ G)
    (hτ : τ ∈ T) (hn : |g - τ * D| ≤ relTol * D) : keepB tol1 tol2 T (g / D) = true := by
  have hD := S.hyp.D_pos
  have hb := cand_bounds S.hyp ((mem_sortedSet _ _).1 ((spec_of S.hyp S.grid).1.sub g hg))
  have h1 : |τ - g / D| ≤ relTol := (abs_frac hD τ g relTol).2 hn
  simp only [keepB, Bool.and_eq_true, inTimes_iff]
  have h0 : 0 ≤ g / D := div_nonneg hb.1 (le_of_lt hD)
  have h1' : g / D ≤ 1 := (div_le_one hD).2 hb.2
  exact ⟨⟨h0, h1', τ, hτ, le_trans h1 S.tol_le⟩, h0, h1', τ, hτ, le_trans h1 (le_trans S.tol_le S.tol12)⟩

/-- Each requested time has a record within the merge tolerance of it. -/
theorem every_request_recorded_near (S : Setting fl relTol tol1 tol2 D dt obs dflt own T G)
    (hr : runObs false mps tol1 tol2 dflt own G (G.length - 1) = .ok rec)
    (τ : α) (hτ : τ ∈ T) : ∃ p ∈ rec, |τ - p.1| ≤ relTol := by
  obtain ⟨g, hg, hn⟩ := covers_eval_times S.hyp S.grid τ (S.sub τ hτ)
  have hk := keep_of_near S hg hτ hn
  have hmem : g / D ∈ (rec.map Prod.fst) := by
    rw [rec_eq S hr, sel_fst]
    exact List.mem_filter.2 ⟨frac_mem hg, hk⟩
  obtain ⟨p, hp, hp1⟩ := List.mem_map.1 hmem
  exact ⟨p, hp, by rw [hp1]; exact (abs_frac S.hyp.D_pos τ g relTol).2 hn⟩

/-- *SepObs*: every other grid candidate is further than `tol1·D` from each requested time. -/
def SepObs (fl : α → Int) (tol1 D dt : α) (obs T : List α) : Prop :=
  ∀ τ ∈ T, ∀ c ∈ cands fl D dt obs, c ≠ τ * D → tol1 * D < |c - τ * D|

/-- Under *SepObs* every requested time is itself a grid point. -/
theorem request_in_grid (S : Setting fl relTol tol1 tol2 D dt obs dflt own T G)
    (hsep : SepObs fl tol1 D dt obs T) (τ : α) (hτ : τ ∈ T) : τ * D ∈ G := by
  obtain ⟨g, hg, hn⟩ := covers_eval_times S.hyp S.grid τ (S.sub τ hτ)
  have hc := (mem_sortedSet _ _).1 ((spec_of S.hyp S.grid).1.sub g hg)
  by_cases e : g = τ * D
  · rw [← e]; exact hg
  · have := hsep τ hτ g hc e
    have h2 : relTol * D ≤ tol1 * D := mul_le_mul_of_nonneg_right S.tol_le (le_of_lt S.hyp.D_pos)
    linarith

/-- **C14 under SepObs**: the recorded times are exactly the requested times — each once,
nothing else, in increasing order. -/
theorem records_exact (S : Setting fl relTol tol1 tol2 D dt obs dflt own T G)
    (hsep : SepObs fl tol1 D dt obs T)
    (hr : runObs false mps tol1 tol2 dflt own G (G.length - 1) = .ok rec) :
    rec.map Prod.fst = T := by
  have hD := S.hyp.D_pos
  rw [rec_eq S hr, sel_fst]
  refine sorted_ext _ _ ((fracs_sorted S).filter _) S.asc (fun x => ⟨fun hx => ?_, fun hx => ?_⟩)
  · obtain ⟨hx1, hx2⟩ := List.mem_filter.1 hx
    obtain ⟨g, hg, rfl⟩ := List.mem_map.1 hx1
    simp only [keepB, Bool.and_eq_true, inTimes_iff] at hx2
    obtain ⟨τ, hτ, hn⟩ := hx2.1.2.2
    have hc := (mem_sortedSet _ _).1 ((spec_of S.hyp S.grid).1.sub g hg)
    have hn' := (abs_frac hD τ g tol1).1 hn
    by_cases e : g = τ * D
    · rw [e, mul_div_cancel_right₀ _ (ne_of_gt hD)]; exact hτ
    · have := hsep τ hτ g hc e
      linarith
  · have hg := request_in_grid S hsep x hx
    have hk := keep_of_near S hg hx (by
      simp; exact mul_nonneg S.hyp.tol_nonneg (le_of_lt hD))
    rw [mul_div_cancel_right₀ _ (ne_of_gt hD)] at hk
    refine List.mem_filter.2 ⟨?_, hk⟩
    have := frac_mem (D := D) hg
    rwa [mul_div_cancel_right₀ _ (ne_of_gt hD)] at this

/-- … and the record of a requested time τ is computed from the state of the grid point `τ·D`. -/
theorem recorded_at_grid_point (S : Setting fl relTol tol1 tol2 D dt obs dflt own T G)
    (hsep : SepObs fl tol1 D dt obs T)
    (hr : runObs false mps tol1 tol2 dflt own G (G.length - 1) = .ok rec)
    (τ : α) (hτ : τ ∈ T) : ∃ k, (τ, k) ∈ rec ∧ G[k]? = some (τ * D) := by
  have hmem : τ ∈ rec.map Prod.fst := by rw [records_exact S hsep hr]; exact hτ
  obtain ⟨⟨t, k⟩, hp, rfl⟩ := List.mem_map.1 hmem
  obtain ⟨g, h1, _, h3⟩ := record_from_its_grid_index S hr t k hp
  exact ⟨k, hp, by rw [h1, h3]⟩
end

/-! ### Non-vacuity -/

/-- A concrete setting: duration 10, dt 5, one observable with times [0, 3/10, 1], the code's
tolerances; *SepObs* holds and the grid is `0, 3, 5, 10`. -/
example : ∃ G : List ℚ, Setting (fun x : ℚ => ⌊x⌋) (1 / 10 ^ 12) (1 / 10 ^ 10) (1 / 20) 10 5
    [0, 3 / 10, 1] (some [1]) (some [0, 3 / 10, 1]) [0, 3 / 10, 1] G := by
  have H : Hyp (fun x : ℚ => ⌊x⌋) (1 / 10 ^ 12) 10 5 [0, 3 / 10, 1] :=
    { dt_pos := by norm_num, D_pos := by norm_num
      obs01 := by intro τ h; simp at h; rcases h with rfl | rfl | rfl <;> norm_num
      tol_nonneg := by norm_num, tol_lt_one := by norm_num
      fl_nonneg := Int.floor_nonneg.2 (by norm_num), fl_le := Int.floor_le _
      fl_lt := Int.lt_floor_add_one _ }
  obtain ⟨G, hG, _⟩ := grid_spec H
  exact ⟨G, ⟨H, hG, rfl, fun τ h => h, by simp; norm_num, by norm_num, by norm_num⟩⟩

example : SepObs (fun x : ℚ => ⌊x⌋) (1 / 10 ^ 10) 10 5 [0, 3 / 10, 1] [0, 3 / 10, 1] := by
  have hf : ⌊(10 : ℚ) / 5⌋ = 2 := by norm_num
  intro τ hτ c hc hne
  simp only [cands, absCands, relCands, relGrid, hf, natC] at hc
  simp [List.range_succ] at hc hτ
  rcases hτ with rfl | rfl | rfl <;> rcases hc with rfl | rfl | rfl | rfl | rfl | rfl | rfl <;>
    first
    | (exfalso; norm_num at hne; done)
    | norm_num [abs_of_pos, abs_of_neg]

/-! ### *SepObs* is needed; the two former defects -/

/-- The code's tolerances at ℚ. -/
abbrev tolMerge : ℚ := 2 / 10 ^ 12
abbrev tolEval : ℚ := 1 / 10 ^ 10

/-- Without *SepObs*: duration 10, dt 5, one observable at τ = 1/2 + 5·10⁻¹¹. The sorted
candidates are `0, 5, 5 + 5·10⁻¹⁰, 10`; nothing is merged (gap 5·10⁻¹⁰ > 2·10⁻¹¹), and the
observable is recorded twice: at the dt multiple 1/2 (within 10⁻¹⁰ of τ) and at τ. -/
theorem sep_needed :
    mergeGrid (tolMerge * 10) [0, 5, 5 + 5 / 10 ^ 10, 10] = some [0, 5, 5 + 5 / 10 ^ 10, 10] ∧
    runObs false false tolEval (1 / 20) (some [1]) (some [1 / 2 + 5 / 10 ^ 11])
      [0, 5, 5 + 5 / 10 ^ 10, 10] 3 = .ok [(1 / 2, 1), (1 / 2 + 5 / 10 ^ 11, 2)] := by
  constructor
  · norm_num [mergeGrid, mergeDesc, mergeStep, fixFirst]
  · decide +kernel

/-- D7c (before a740bae the merge tolerance was 10⁻⁹ > 10⁻¹⁰): duration 10, dt 5, τ = 1/2 − 5·10⁻¹⁰.
The requested point `5 − 5·10⁻⁹` is merged into 5, and 1/2 is further than 10⁻¹⁰ from τ: the
observable is never recorded. With the current tolerance it is kept and recorded once. -/
theorem lost_before_a740bae :
    mergeGrid ((1 / 10 ^ 9 : ℚ) * 10) [0, 5 - 5 / 10 ^ 9, 5, 10] = some [0, 5, 10] ∧
    runObs false false tolEval (1 / 20) (some [1]) (some [1 / 2 - 5 / 10 ^ 10]) [0, 5, 10] 2 = .ok [] ∧
    mergeGrid (tolMerge * 10) [0, 5 - 5 / 10 ^ 9, 5, 10] = some [0, 5 - 5 / 10 ^ 9, 5, 10] ∧
    runObs false false tolEval (1 / 20) (some [1]) (some [1 / 2 - 5 / 10 ^ 10])
      [0, 5 - 5 / 10 ^ 9, 5, 10] 3 = .ok [(1 / 2 - 5 / 10 ^ 10, 1)] := by
  refine ⟨?_, ?_, ?_, ?_⟩
  · norm_num [mergeGrid, mergeDesc, mergeStep, fixFirst]
  · decide +kernel
  · norm_num [mergeGrid, mergeDesc, mergeStep, fixFirst]
  · decide +kernel

/-- D20 (before cd44121 `_is_evaluation_time` also accepted the default times): duration 10,
dt 5, default times (1.0,), one observable at 0.96. `old = true` records it at 0.96 *and* at 1.0
(|1 − 0.96| ≤ 0.5/10); the current code records it at 0.96 only. -/
theorem spurious_before_cd44121 :
    runObs true false tolEval (1 / 20) (some [1]) (some [24 / 25]) [0, 5, 48 / 5, 10] 3
      = .ok [(24 / 25, 2), (1, 3)] ∧
    runObs false false tolEval (1 / 20) (some [1]) (some [24 / 25]) [0, 5, 48 / 5, 10] 3
      = .ok [(24 / 25, 2)] := by
  constructor <;> decide +kernel

end EmuVerif.Props.C14
