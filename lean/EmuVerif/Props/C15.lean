/-
  C15 — Sampled bitstrings follow the state's measurement distribution.

  Statement (properties.jsonl): for any state, the sampled bitstrings have exactly the requested total
  count, use the register's atom order with '1' meaning the excited state, and are distributed as the
  Born-rule probabilities. Read-out errors flip 0→1 with the false-positive rate and 1→0 with the
  false-negative rate, independently per bit.

  All theorems are about `Model/Sampling.lean` (tied to emu_mps / emu_sv / emu_base by the deterministic
  tape-driven correspondence of harness/props/c15.py: `torch.multinomial`, `random.random` replaced by
  tapes; model and code must produce the same Counter and the same weights).

  Randomness enters through two kernels whose *contracts are assumptions* (validated statistically by
  the harness at a fixed family-wise error, never proved):
    (M) `torch.multinomial(w, …)` draws index `x` with probability `w_x / Σ w`, independently per row/draw;
    (U) `random.random()` is uniform on [0,1): `P(u < p) = p` for `0 ≤ p ≤ 1`, draws independent.

  Proved (for every number of sites / shots / batch size / bond dimensions):
    * `sample_total_count`     the `while shots_done < num_shots` loop returns exactly `num_shots` counts
                               (loop invariant; every `num_shots`, every `max_batch_size ≥ 1`),
      `batch_sizes_spec`       the batches have sizes in `1..max_batch_size` adding up to `num_shots`;
    * `weights_telescope`      for a right-orthonormal factor the conditional weights of all outcomes add up to
                               the squared norm of the accumulator (the marginalisation step);
    * `sample_prob_born`       under (M), with the tail right-orthonormal (what `orthogonalize(0)` establishes,
                               C10), the probability of the level string `s` is `|amp s|² / Σ_s' |amp s'|²`
                               — the product of the code's conditional probabilities telescopes;
      `shot_prob_general`      the general (no orthonormality) form: the product the code realises;
    * `bit_of_level`, `bits_atom_order`, `bits_injective_qubit`, `bits_leak_reads_zero`
                               outcome → character: '1' iff level 1; character `i` belongs to site `i`;
                               for qubits the map is injective (push-forward = relabelling); the qutrit
                               leakage level reads as '0' (push-forward adds the two probabilities);
    * `readout_flip_spec`      a '0' becomes '1' iff `u < p_false_pos`, a '1' becomes '0' iff `u < p_false_neg`,
      `readout_independent`    character `i` of the output depends on character `i` and on draw `i` only
                               (one fresh draw per character, so under (U) flips are independent with
                               exactly those probabilities), `readout_total_preserved`;
      `readout_rate_zero`, `readout_rate_one`  the boundary rates;
    * `mps_guard_as_written`   the `or/and` precedence of the guard in `MPS.sample`, `mps_raises_iff`;
    * `sv_weights_born`, `index_bits_msb_first`  state vectors: weights `|ψ_i|²`, bit `i` of the string is
                               binary digit `n-1-i` of the basis index (qubit 0 most significant).
-/
import EmuVerif.Proofs.Sampling
import EmuVerif.Proofs.TensorValid
import Mathlib.Tactic.IntervalCases
import Mathlib.Tactic.NormNum
import Mathlib.Algebra.Star.Rat

set_option linter.unusedSectionVars false
set_option linter.unusedVariables false
set_option linter.unusedSimpArgs false

namespace EmuVerif.Props.C15
open EmuVerif EmuVerif.Tensor EmuVerif.Sampling Finset

/-! ### total count -/

/-- Loop invariant of `MPS.sample`: whatever the tape, if the loop returns it has counted exactly
`num_shots` strings — for every `num_shots` and every batch size. -/
theorem sample_total_count (maxB nSites numShots : Nat) (tape : List (List Nat)) (c : Counter)
    (h : sampleLoop maxB nSites numShots 0 tape [] = some c) : counterTotal c = numShots := by
  have := sampleLoop_total maxB nSites numShots (numShots - 0) 0 tape [] c rfl h
  simpa [counterTotal] using this

/-- from any intermediate state of the loop -/
theorem sample_count_invariant (maxB nSites numShots done : Nat) (tape : List (List Nat)) (ctr c : Counter)
    (hd : done ≤ numShots) (hc : counterTotal ctr = done)
    (h : sampleLoop maxB nSites numShots done tape ctr = some c) : counterTotal c = numShots := by
  rw [sampleLoop_total maxB nSites numShots _ done tape ctr c rfl h, hc]; omega

theorem batch_sizes_spec (maxB numShots : Nat) (hB : 0 < maxB) :
    (batchSizes maxB numShots 0).sum = numShots ∧ ∀ b ∈ batchSizes maxB numShots 0, 0 < b ∧ b ≤ maxB := by
  simpa using batchSizes_spec maxB numShots hB (numShots - 0) 0 rfl

/-! ### outcome → bit -/

theorem bit_of_level (x : Nat) : bitOf x = '1' ↔ x = 1 := bitOf_eq_one_iff x

/-- the leakage level `x` (level 2) and the ground level both read as '0' -/
theorem bits_leak_reads_zero : bitOf 2 = '0' ∧ bitOf 0 = '0' ∧ bitOf 1 = '1' := by decide

/-- character `i` of the bitstring is the outcome at site `i` (atom order = factor order) -/
theorem bits_atom_order (row : List Nat) (i : Nat) : (bitsOf row).toList[i]? = row[i]?.map bitOf := by
  simp [bitsOf]

theorem bits_injective_qubit (r1 r2 : List Nat) (h1 : ∀ x ∈ r1, x < 2) (h2 : ∀ x ∈ r2, x < 2)
    (h : bitsOf r1 = bitsOf r2) : r1 = r2 := by
  have h' : r1.map bitOf = r2.map bitOf := by
    have := congrArg String.toList h
    simpa [bitsOf] using this
  induction r1 generalizing r2 with
  | nil => cases r2 <;> simp_all
  | cons x r1 ih =>
    cases r2 with
    | nil => simp at h'
    | cons y r2 =>
      simp only [List.map_cons, List.cons.injEq] at h'
      have hxy := bitOf_injOn_qubit x y (h1 x (List.mem_cons_self ..)) (h2 y (List.mem_cons_self ..)) h'.1
      subst hxy
      congr 1
      exact ih r2 (fun z hz => h1 z (List.mem_cons_of_mem _ hz)) (fun z hz => h2 z (List.mem_cons_of_mem _ hz))
        (by simp [bitsOf, h'.2]) h'.2

/-! ### Born rule -/

section born
variable {K : Type} [Field K] [StarRing K]

/-- marginalisation step: over a right-orthonormal factor, `Σ_x ‖acc·A[x]‖² = ‖acc‖²` -/
theorem weights_telescope (A : Site K) (h : RightOrth A) (acc : Nat → K) :
    ∑ x ∈ range A.d, weightF acc A x = normV A.dl acc := weights_sum_eq_norm A h acc

/-- The general form the code realises: `shotProb` (the model's executable definition, chain rule over
the weights handed to `torch.multinomial`) is the product of `w_k(x_k)/Σ_x w_k(x)` — no orthonormality. -/
theorem shot_prob_general (fs : List (Site K)) (s : List Nat) (acc : Arr K)
    (hs : ∀ A ∈ fs, ∀ x ∈ s, x < A.d) : shotProb fs s acc = shotProbF fs s acc.get :=
  shotProb_eq fs s acc hs

/-- Born rule for `MPS.sample`: a valid chain `A₀ :: tail` whose tail is right-orthonormal (the state
after `orthogonalize(0)`); `s` a reachable level string.  Under the multinomial contract its probability
is `|amp s|² / Σ_{s'} |amp s'|²` (`= |amp s|²/‖ψ‖²`). -/
theorem sample_prob_born (d : Nat) (A0 : Site K) (tail : List (Site K))
    (hv : validChain d (A0 :: tail) = true) (ho : ∀ A ∈ tail, RightOrth A)
    (s : List Nat) (hlen : s.length = (A0 :: tail).length) (hs : ∀ x ∈ s, x < d)
    (hp : PathPos (A0 :: tail) s (fun _ => 1))
    (hZ : (∑ x ∈ range d, weightF (fun _ => 1) A0 x) ≠ 0) :
    shotProb (A0 :: tail) s ones1 = nsq (amp (A0 :: tail) s) /
      sumStrings d (A0 :: tail).length (fun s' => nsq (amp (A0 :: tail) s')) := by
  obtain ⟨_, _, hw, h1, hd⟩ := validChain_spec d _ hv
  have hA0d : A0.d = d := hd A0 (List.mem_cons_self ..)
  rw [shotProb_eq _ _ _ (fun A hA x hx => by rw [hd A hA]; exact hs x hx)]
  have hones : (ones1 : Arr K).get = fun _ => 1 := by funext i; simp [ones1]
  rw [hones]
  -- denominator: Σ_s |amp s|² = Σ_x w₀(x)
  have hden : sumStrings d (A0 :: tail).length (fun s' => nsq (amp (A0 :: tail) s'))
      = ∑ x ∈ range d, weightF (fun _ => 1) A0 x := by
    simp only [List.length_cons, sumStrings, sumTo_eq, amp_eq, ampVecF]
    refine Finset.sum_congr rfl (fun x _ => ?_)
    rw [norm_total_orth d tail hw.2 ho (fun B hB => hd B (List.mem_cons_of_mem _ hB))]
    unfold weightF normV; rw [hw.1]
  rw [hden]
  cases s with
  | nil => simp at hlen
  | cons x xs =>
    simp only [shotProbF, amp_eq, ampVecF, hA0d]
    obtain ⟨_, hp2⟩ := hp
    rw [shotProbF_orth tail hw.2 ho xs (by simpa using hlen) _ hp2]
    have hwx : weightF (fun _ => 1) A0 x = normV (headDl tail) (rowStepF (fun _ => 1) A0 x) := by
      unfold weightF normV; rw [hw.1]
    have hne : normV (headDl tail) (rowStepF (fun _ => (1 : K)) A0 x) ≠ 0 := by
      cases tail with
      | nil => simpa [PathPos] using hp2
      | cons B fs' =>
        cases xs with
        | nil => simp at hlen
        | cons y ys => exact hp2.1
    rw [hwx]
    field_simp

/-- state vectors: the weights handed to `torch.multinomial` are `|ψ_i|²` -/
theorem sv_weights_born (psi : List K) (i : Nat) (hi : i < psi.length) :
    (svWeights psi)[i]? = some (star psi[i] * psi[i]) := by
  simp [svWeights, hi, nsq_eq]

/-- density matrices: the weights are `|ρ_ii|`; for a diagonal on which the modulus is the identity
(real non-negative, as for every density matrix) they are the populations `ρ_ii` -/
theorem dm_weights_diag (absf : K → K) (dim : Nat) (rho : Nat → Nat → K) (i : Nat) (hi : i < dim)
    (habs : absf (rho i i) = rho i i) : (dmWeights absf dim rho)[i]? = some (rho i i) := by
  simp [dmWeights, hi, habs]

end born

/-! ### read-out errors -/

section readout
variable {β : Type} [LinearOrder β] [Zero β]

/-- the two flips of `readout_with_error`, as a function of the uniform draw `u` -/
theorem readout_flip_spec (u pfp pfn : β) :
    (readoutWithError '0' u pfp pfn = '1' ↔ u < pfp) ∧ (readoutWithError '1' u pfp pfn = '0' ↔ u < pfn) ∧
    (∀ c, c ≠ '0' → c ≠ '1' → readoutWithError c u pfp pfn = c) := by
  refine ⟨?_, ?_, ?_⟩
  · unfold readoutWithError; by_cases h : u < pfp <;> simp [h]
  · unfold readoutWithError; by_cases h : u < pfn <;> simp [h]
  · intro c h0 h1; unfold readoutWithError; simp [h0, h1]

/-- one fresh draw per character, used for that character only -/
theorem readout_independent (pfp pfn : β) (cs : List Char) (us : List β) (cs' : List Char) (rest : List β)
    (h : flipChars pfp pfn cs us = some (cs', rest)) (i : Nat) (hi : i < cs.length) :
    ∃ (hu : i < us.length) (hc : i < cs'.length), cs'[i] = readoutWithError cs[i] us[i] pfp pfn := by
  obtain ⟨h1, _, h3⟩ := flipChars_spec pfp pfn cs us cs' rest h
  subst h1
  exact ⟨by omega, by simp; omega, by simp⟩

/-- a string of length `L` consumes exactly `L` draws -/
theorem readout_draws_consumed (pfp pfn : β) (cs : List Char) (us : List β) (cs' : List Char) (rest : List β)
    (h : flipChars pfp pfn cs us = some (cs', rest)) : rest = us.drop cs.length ∧ cs'.length = cs.length := by
  obtain ⟨h1, h2, h3⟩ := flipChars_spec pfp pfn cs us cs' rest h
  exact ⟨h2, by subst h1; simp; omega⟩

/-- `apply_measurement_errors` keeps the number of shots -/
theorem readout_total_preserved (pfp pfn : β) (c c' : Counter) (us : List β)
    (h : applyErrors pfp pfn c us = some c') : counterTotal c' = counterTotal c := by
  unfold applyErrors at h
  cases h1 : applyErrorsAux pfp pfn c us [] with
  | none => simp [h1] at h
  | some p =>
    obtain ⟨r, u⟩ := p
    simp only [h1, Option.map_some, Option.some.injEq] at h
    subst h
    simpa [counterTotal] using applyErrorsAux_total pfp pfn c us [] r u h1

/-- rate 0 never flips (draws are ≥ 0) -/
theorem readout_rate_zero (c : Char) (u : β) (hu : ¬ u < 0) : readoutWithError c u 0 0 = c := by
  unfold readoutWithError; simp [hu]

/-- rate 1 always flips (draws are < 1) -/
theorem readout_rate_one (u one : β) (hu : u < one) :
    readoutWithError '0' u one one = '1' ∧ readoutWithError '1' u one one = '0' := by
  unfold readoutWithError; simp [hu]

/-- The guard of `MPS.sample`, `if p_false_neg > 0 or p_false_pos > 0 and self.dim == 2`, as Python
parses it: `p_false_neg > 0 or (p_false_pos > 0 and dim == 2)`. -/
theorem mps_guard_as_written (dim : Nat) (pfp pfn : β) :
    mpsErrorsApplied dim pfp pfn = true ↔ (0 < pfn ∨ (0 < pfp ∧ dim = 2)) := by
  simp [mpsErrorsApplied]

theorem mps_raises_iff (dim : Nat) (pfp : β) : mpsRaises dim pfp = true ↔ (0 < pfp ∧ 2 < dim) := by
  simp [mpsRaises]

/-- consequences for qutrits: a false-positive rate raises (after the errors have been applied when a
false-negative rate is also given); with only a false-negative rate the errors are applied. -/
theorem mps_readout_qutrit (pfp pfn : β) (c : Counter) (us : List β) :
    (0 < pfp → ¬ 0 < pfn → mpsReadout 3 pfp pfn c us = .notImplemented) ∧
    (¬ 0 < pfp → 0 < pfn → ∀ c', applyErrors pfp pfn c us = some c' → mpsReadout 3 pfp pfn c us = .ok c') ∧
    (¬ 0 < pfp → ¬ 0 < pfn → mpsReadout 3 pfp pfn c us = .ok c) := by
  refine ⟨?_, ?_, ?_⟩
  · intro h1 h2; simp [mpsReadout, mpsErrorsApplied, mpsRaises, h1, h2]
  · intro h1 h2 c' h3; simp [mpsReadout, mpsErrorsApplied, mpsRaises, h1, h2, h3]
  · intro h1 h2; simp [mpsReadout, mpsErrorsApplied, mpsRaises, h1, h2]

end readout

/-! ### state-vector bit order -/

/-- `index_to_bitstring`: character `i` is binary digit `n-1-i` of the index — qubit 0 is the most
significant digit, the convention of the state-vector amplitudes. -/
theorem index_bits_msb_first (n idx : Nat) (s : String) (h : indexToBits n idx = some s) (i : Nat) (hi : i < n) :
    s.toList[i]? = some (if idx.testBit (n - 1 - i) then '1' else '0') := by
  unfold indexToBits at h
  split at h
  · simp only [Option.some.injEq] at h
    subst h
    simp [hi, Nat.testBit_eq_decide_div_mod_eq]
  · exact absurd h (by simp)

theorem index_bits_defined_iff (n idx : Nat) : (indexToBits n idx).isSome ↔ idx < 2 ^ n := by
  unfold indexToBits; split <;> simp_all

/-! ### non-vacuity -/

example : sampleLoop 2 2 3 0 [[0, 1], [1, 1], [1], [0]] [] = some [("01", 1), ("11", 1), ("10", 1)] := by
  simp [sampleLoop, batchRows, bitsOf, bitOf, counterAddAll, counterAdd, List.range_succ]
example : batchSizes 32 70 0 = [32, 32, 6] := by simp [batchSizes]

/-- a right-orthonormal tail factor (the identity on one qubit) and a reachable string -/
def exChain : List (Site ℚ) :=
  [{ dl := 1, d := 2, dr := 2, t := fun x _ r => if x = r then (x : ℚ) + 1 else 0 },
   { dl := 2, d := 2, dr := 1, t := fun x l _ => if x = l then 1 else 0 }]

example : validChain 2 exChain = true := by decide
example : ∀ A ∈ exChain.tail, RightOrth A := by
  intro A hA
  simp [exChain] at hA
  subst hA
  intro l hl l' hl'
  simp only [Finset.sum_range_succ, Finset.sum_range_zero]
  simp at hl hl'
  interval_cases l <;> interval_cases l' <;> simp
example : shotProb exChain [1, 1] ones1 = 4 / 5 := by
  simp [shotProb, exChain, condWeights, rowStep, ones1, nsq, sumTo, conj, List.range_succ]
  norm_num

example : readoutWithError '0' (0.25 : ℚ) 0.5 0.1 = '1' ∧ readoutWithError '1' (0.25 : ℚ) 0.5 0.1 = '1' := by
  constructor <;> (unfold readoutWithError; norm_num)
example : flipChars (0.5 : ℚ) 0.5 ['0', '1'] [0.25, 0.75, 0.1] = some (['1', '1'], [0.1]) := by
  simp [flipChars, readoutWithError]; norm_num
example : indexToBits 3 5 = some "101" := by decide

end EmuVerif.Props.C15
