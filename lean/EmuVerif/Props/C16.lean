/-
  C16 — emu-sv open-system runs solve the Lindblad equation and stay physical. **PARTIAL.**

  Statement (properties.jsonl): for every sequence with Lindbladian noise, emu-sv's density
  matrix at each evaluation time equals exact evolution of the piecewise-constant Lindblad
  generator to within the Krylov tolerance, and agrees with Pulser's master-equation reference;
  it stays Hermitian, trace one and positive semidefinite throughout.

  Proved here (dense picture, every dimension, every family of jump operators):
    * `generator_traceless`      – `tr 𝓛(ρ) = 0` for all `H`, `L_k`, `ρ`;
    * `generator_adjoint`        – `𝓛(ρ)† = 𝓛(ρ†)` for Hermitian `H`;
    * `code_evaluates_generator` – what `RydbergLindbladian.__matmul__` computes and
                                   `EvolveDensityMatrix.apply` scales,
                                   `-1j·dt·(Heff ρ − (Heff ρ)† + 1j Σ LρL†)` with
                                   `Heff = H − 0.5j Σ L†L`, **equals `dt·𝓛(ρ)` for Hermitian ρ**
                                   (factors of i and dt exactly as in the code);
    * `code_needs_hermitian_rho` – kernel-checked counterexample: for a non-Hermitian `ρ` the
                                   shortcut is *not* the generator (so Hermiticity of every
                                   Krylov vector matters; see `iterate_hermitian`);
    * `iterate_hermitian`, `iterate_traceless` – every power `𝓛ᵏρ` of a Hermitian `ρ` is
                                   Hermitian, and traceless for `k ≥ 1` (so every real-coefficient
                                   polynomial in `𝓛` — a Taylor or Krylov approximant — keeps
                                   Hermiticity and the trace);
    * `flow_preserves_trace`, `flow_preserves_hermitian` – the **exact flow** `exp(t·𝓛)`
                                   (exponential series in the Banach algebra of ℝ-linear maps on
                                   the matrices) preserves the trace and maps Hermitian matrices
                                   to Hermitian matrices — proved for the exponential itself, not
                                   only at generator level;
    * the schedule theorem of C01 (`Props.C01.run_schedule`) applies verbatim: the loop is the
      same code with `stepper = EvolveDensityMatrix`.
  Assumed / not proved:
    * **positivity** (`PositivityAssumed`: the flow maps PSD to PSD — Lindblad's theorem) is not
      proved; validated numerically (minimum eigenvalue) on every run;
    * accuracy of the Arnoldi exponential (C07 contract); no end-to-end bound is derived for the
      open system because the flow is not an isometry in the norm the tolerance is measured in;
    * C06 (the matrix-free operator is this dense generator, jump operators embedded per qubit).
  "Agrees with Pulser's master-equation reference": QuTiP is not installed; replaced in the
  harness by a dense Liouvillian `expm`. The full statement is `FullClaim`; it is *not* proved.
-/
import EmuVerif.Proofs.IdealLindblad
import EmuVerif.Proofs.IdealFlow
import Mathlib.LinearAlgebra.Matrix.PosDef

set_option linter.unusedSectionVars false

namespace EmuVerif.Props.C16
open EmuVerif EmuVerif.Lindblad Matrix
open scoped ComplexOrder

variable {n ι : Type} [Fintype n] [DecidableEq n] [Fintype ι]

/-- **`tr 𝓛(ρ) = 0`.** -/
theorem generator_traceless (H : Matrix n n ℂ) (L : ι → Matrix n n ℂ) (ρ : Matrix n n ℂ) :
    trace (lind H L ρ) = 0 := trace_lind H L ρ

/-- **`𝓛(ρ)† = 𝓛(ρ†)`** for Hermitian `H`. -/
theorem generator_adjoint {H : Matrix n n ℂ} (hH : H.IsHermitian) (L : ι → Matrix n n ℂ)
    (ρ : Matrix n n ℂ) : (lind H L ρ)ᴴ = lind H L ρᴴ := conjTranspose_lind hH L ρ

/-- **The code's `Heff`-shortcut is the Lindblad generator on Hermitian `ρ`** (with the factor
`-1j * dt` of `EvolveDensityMatrix.apply`). -/
theorem code_evaluates_generator (dt : ℝ) {H ρ : Matrix n n ℂ} (hH : H.IsHermitian)
    (hρ : ρ.IsHermitian) (L : ι → Matrix n n ℂ) :
    codeOp dt H L ρ = (dt : ℂ) • lind H L ρ := codeOp_eq_lind dt hH hρ L

theorem iterate_hermitian {H : Matrix n n ℂ} (hH : H.IsHermitian) (L : ι → Matrix n n ℂ)
    {ρ : Matrix n n ℂ} (hρ : ρ.IsHermitian) (k : ℕ) : ((lind H L)^[k] ρ).IsHermitian := by
  induction k generalizing ρ with
  | zero => exact hρ
  | succ k ih =>
    rw [Function.iterate_succ_apply]
    apply ih
    unfold Matrix.IsHermitian
    rw [conjTranspose_lind hH, hρ.eq]

theorem iterate_traceless (H : Matrix n n ℂ) (L : ι → Matrix n n ℂ) (ρ : Matrix n n ℂ) (k : ℕ) :
    trace ((lind H L)^[k + 1] ρ) = 0 := by
  rw [Function.iterate_succ_apply']
  exact trace_lind H L _

/-- **The exact flow preserves the trace.** -/
theorem flow_preserves_trace (H : Matrix n n ℂ) (L : ι → Matrix n n ℂ) (t : ℝ)
    (ρ : Matrix n n ℂ) : trace (flow H L t ρ) = trace ρ := trace_flow H L t ρ

/-- **The exact flow preserves Hermiticity.** -/
theorem flow_preserves_hermitian {H : Matrix n n ℂ} (hH : H.IsHermitian) (L : ι → Matrix n n ℂ)
    (t : ℝ) {ρ : Matrix n n ℂ} (hρ : ρ.IsHermitian) : (flow H L t ρ).IsHermitian := by
  unfold Matrix.IsHermitian
  rw [conjTranspose_flow hH, hρ.eq]

/-- a whole piecewise-constant run of the exact flow (list of `(dt, H, L)` windows) keeps the trace
and Hermiticity — the statement at every evaluation time -/
theorem run_preserves (steps : List (ℝ × Matrix n n ℂ × (ι → Matrix n n ℂ)))
    (hH : ∀ s ∈ steps, s.2.1.IsHermitian) {ρ : Matrix n n ℂ} (hρ : ρ.IsHermitian) :
    trace (steps.foldl (fun ρ s => flow s.2.1 s.2.2 s.1 ρ) ρ) = trace ρ
    ∧ (steps.foldl (fun ρ s => flow s.2.1 s.2.2 s.1 ρ) ρ).IsHermitian := by
  induction steps generalizing ρ with
  | nil => exact ⟨rfl, hρ⟩
  | cons s l ih =>
    have h1 := hH s List.mem_cons_self
    have := ih (fun x hx => hH x (List.mem_cons_of_mem _ hx))
      (flow_preserves_hermitian h1 s.2.2 s.1 hρ)
    simp only [List.foldl_cons]
    exact ⟨this.1.trans (flow_preserves_trace _ _ _ _), this.2⟩

/-- **Assumed, not proved** (Lindblad's theorem): the flow maps positive semidefinite matrices
to positive semidefinite matrices. -/
def PositivityAssumed (H : Matrix n n ℂ) (L : ι → Matrix n n ℂ) : Prop :=
  ∀ (t : ℝ), 0 ≤ t → ∀ ρ : Matrix n n ℂ, ρ.PosSemidef → (flow H L t ρ).PosSemidef

/-- **Full statement of C16 for a concrete stepper** `arnoldi` (emu-sv's
`EvolveDensityMatrix.apply`): after every prefix of a piecewise-constant run the density matrix
is within `δ k` (entry-wise) of the exact flow, and is Hermitian, of trace one and positive
semidefinite. NOT proved: needs the Arnoldi accuracy contract (C07) and `PositivityAssumed`. -/
def FullClaim (arnoldi : ℝ → Matrix n n ℂ → (ι → Matrix n n ℂ) → Matrix n n ℂ → Matrix n n ℂ)
    (δ : ℕ → ℝ) : Prop :=
  ∀ (steps : List (ℝ × Matrix n n ℂ × (ι → Matrix n n ℂ))) (ρ₀ : Matrix n n ℂ),
    (∀ s ∈ steps, s.2.1.IsHermitian ∧ 0 ≤ s.1) → ρ₀.PosSemidef → trace ρ₀ = 1 →
    ∀ k, let ρc := (steps.take k).foldl (fun ρ s => arnoldi s.1 s.2.1 s.2.2 ρ) ρ₀
         let ρe := (steps.take k).foldl (fun ρ s => flow s.2.1 s.2.2 s.1 ρ) ρ₀
         (∀ i j, ‖ρc i j - ρe i j‖ ≤ δ k) ∧ ρc.IsHermitian ∧ ‖trace ρc - 1‖ ≤ δ k
           ∧ ρe.PosSemidef

/-! ### Non-vacuity and the counterexample (2×2, relaxation channel) -/

/-- σx -/
def σx : Matrix (Fin 2) (Fin 2) ℂ := !![0, 1; 1, 0]
/-- the relaxation jump operator `|g⟩⟨r|` (emu-sv index order g = 0, r = 1) -/
def σm : Matrix (Fin 2) (Fin 2) ℂ := !![0, 1; 0, 0]
/-- `|r⟩⟨r|` -/
def ρr : Matrix (Fin 2) (Fin 2) ℂ := !![0, 0; 0, 1]

theorem σx_hermitian : σx.IsHermitian := by
  ext i j; fin_cases i <;> fin_cases j <;> simp [σx]
theorem ρr_hermitian : ρr.IsHermitian := by
  ext i j; fin_cases i <;> fin_cases j <;> simp [ρr]

/-- the generator is not trivially zero on this instance: relaxation moves population
`r → g` at unit rate (`𝓛(|r⟩⟨r|)₀₀ = 1`) -/
example : lind σx (fun _ : Fin 1 => σm) ρr 0 0 = 1 := by
  simp [lind, dissip, σx, σm, ρr, Matrix.mul_apply, Fin.sum_univ_two, Matrix.add_apply,
    Matrix.sub_apply, Matrix.smul_apply, Matrix.vecMul, dotProduct, Matrix.conjTranspose_apply]

example (dt : ℝ) : codeOp dt σx (fun _ : Fin 1 => σm) ρr = (dt : ℂ) • lind σx (fun _ : Fin 1 => σm) ρr :=
  code_evaluates_generator dt σx_hermitian ρr_hermitian _

/-- **Counterexample**: with the non-Hermitian `ρ = |g⟩⟨r|`, no jump operators, `H = σx`, the
code's expression vanishes while `𝓛(ρ) = −i[H,ρ] ≠ 0`: Hermiticity of `ρ` cannot be dropped from
`code_evaluates_generator`. -/
theorem code_needs_hermitian_rho :
    ¬ (∀ ρ : Matrix (Fin 2) (Fin 2) ℂ,
        codeOp 1 σx (fun _ : Fin 0 => (0 : Matrix (Fin 2) (Fin 2) ℂ)) ρ
          = ((1 : ℝ) : ℂ) • lind σx (fun _ : Fin 0 => (0 : Matrix (Fin 2) (Fin 2) ℂ)) ρ) := by
  intro h
  have h00 := congrFun (congrFun (h σm) 0) 0
  simp [codeOp, codeGen, heff, ksum, lind, σx, σm, Matrix.sub_apply, Matrix.smul_apply,
    Matrix.conjTranspose_apply] at h00
  exact Complex.I_ne_zero h00.symm

end EmuVerif.Props.C16
