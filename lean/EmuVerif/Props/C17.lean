/-
  C17 — emu-mps quantum-jump trajectories reproduce Lindblad dynamics on average.  **PARTIAL.**

  Statement (properties.jsonl): averaging emu-mps observables over independent trajectories
  converges to the Lindblad master-equation values, with deviations consistent with sampling error;
  every individual trajectory reports observables of a normalised state in their physical range.

  What a trajectory method needs in order to unravel the master equation with generator
      𝓛(ρ) = −i[H,ρ] + Σ_k (L_k ρ L_k† − ½{L_k†L_k, ρ})
  is (a) a no-jump evolution under `H_eff = H − (i/2) Σ L†L`, (b) jump candidates `L_k` at each site chosen
  with probabilities proportional to `⟨ψ|L_k†L_k|ψ⟩`, (c) renormalisation after a jump, (d) a jump time
  at which the squared norm crosses a uniform threshold (C18). Proved here, for every dimension, every
  list of jump operators and every ρ:
    * `noise_term_is_minus_half_i_sum`  – the model of `compute_noise_from_lindbladians` (what emu-mps adds
      to every single-site Hamiltonian term) is `−(i/2)·Σ L†L`;
    * `unravelling_generator`  – with that term, `−i(H_eff ρ − ρ H_eff†) + Σ LρL† = 𝓛(ρ)`: the drift of the
      trajectories plus the jump term is exactly the Lindblad generator;
    * `aggregated_are_LdagL`  – `aggregated_lindblad_ops[k] = L_k†L_k` (the operators whose expectation values
      are used as jump weights), each Hermitian and positive semidefinite (`weight_nonneg`: `x† (L†L) x = ‖Lx‖² ≥ 0`);
    * `candidates_match_weights` – the candidate list and the flattened weight tensor enumerate (site, operator)
      in the same order, for every number of sites and operators;
    * `choose_interval` – `random.choices` returns index `i` exactly when `u·W` lies in `[W_{i}, W_{i+1})` (prefix
      sums), i.e. an interval of length `w_i/W` of the uniform draw: probability proportional to the weight.
  NOT proved (assumed, validated statistically in the harness): convergence of the trajectory average (a law of
  large numbers for the piecewise-deterministic process) and the accuracy of the TDVP no-jump evolution; the
  stepping/jump-time machine is C18; canonical form / normalisation after the jump is C10.
-/
import EmuVerif.Proofs.Jump
import Mathlib.Data.Complex.BigOperators

set_option linter.unusedSectionVars false

namespace EmuVerif.Props.C17
open EmuVerif EmuVerif.Jump Matrix Complex

variable {d : Nat}

/-- Lindblad generator on matrices (Pulser / QuTiP convention, ħ = 1). -/
noncomputable def lindblad {n : Type} [Fintype n] [DecidableEq n]
    (H : Matrix n n ℂ) (Ls : List (Matrix n n ℂ)) (ρ : Matrix n n ℂ) : Matrix n n ℂ :=
  (-I) • (H * ρ - ρ * H)
    + (Ls.map (fun L => L * ρ * Lᴴ - (1/2 : ℂ) • (Lᴴ * L * ρ + ρ * (Lᴴ * L)))).sum

/-- the model of `compute_noise_from_lindbladians` called with the code's constant `-0.5j` -/
noncomputable def noiseC (Ls : List (Mat d ℂ)) : Matrix (Fin d) (Fin d) ℂ :=
  Matrix.of (noiseTerm (-(I / 2)) Ls)

theorem noise_term_is_minus_half_i_sum (Ls : List (Mat d ℂ)) :
    noiseC Ls = (-(I / 2)) • (Ls.map fun L => (Matrix.of L)ᴴ * Matrix.of L).sum :=
  noiseTerm_eq _ Ls

/-- **The trajectories' drift plus jump term is the Lindblad generator.** `H` is the (Hermitian)
single-site or many-body Hamiltonian, `H + noiseC Ls` what the solver exponentiates. -/
theorem unravelling_generator (H : Matrix (Fin d) (Fin d) ℂ) (hH : Hᴴ = H) (Ls : List (Mat d ℂ))
    (ρ : Matrix (Fin d) (Fin d) ℂ) :
    (-I) • ((H + noiseC Ls) * ρ - ρ * (H + noiseC Ls)ᴴ)
        + ((Ls.map Matrix.of).map (fun L => L * ρ * Lᴴ)).sum
      = lindblad H (Ls.map Matrix.of) ρ := by
  unfold lindblad
  rw [sum_split, noise_term_is_minus_half_i_sum]
  have hmap : (Ls.map fun L => (Matrix.of L)ᴴ * Matrix.of L)
      = ((Ls.map Matrix.of).map fun L => Lᴴ * L) := by simp [List.map_map, Function.comp_def]
  rw [hmap]
  set G := ((Ls.map Matrix.of).map fun L => Lᴴ * L).sum with hG
  have hGh : Gᴴ = G := herm_sum _
  have h1 : H + (-(I / 2)) • G = H - (I / 2) • G := by rw [neg_smul, sub_eq_add_neg]
  have h2 : (H - (I / 2) • G)ᴴ = H + (I / 2) • G := by
    rw [conjTranspose_sub, conjTranspose_smul, hH, hGh]
    have : star (I / 2) = -(I / 2) := by
      simp [star_div₀, neg_div]
    rw [this, neg_smul, sub_neg_eq_add]
  rw [h1, h2]
  exact core_identity H G _ ρ

theorem aggregated_are_LdagL (Ls : List (Mat d ℂ)) :
    (aggregated Ls).map Matrix.of = Ls.map fun L => (Matrix.of L)ᴴ * Matrix.of L :=
  aggregated_eq Ls

/-- jump weights are non-negative: `x† (L†L) x = (Lx)†(Lx) = Σ |(Lx)_i|²`. -/
theorem weight_nonneg (L : Matrix (Fin d) (Fin d) ℂ) (x : Fin d → ℂ) :
    0 ≤ (star x ⬝ᵥ ((Lᴴ * L) *ᵥ x)).re ∧ (star x ⬝ᵥ ((Lᴴ * L) *ᵥ x)).im = 0 := by
  have h : star x ⬝ᵥ ((Lᴴ * L) *ᵥ x) = star (L *ᵥ x) ⬝ᵥ (L *ᵥ x) := by
    rw [← Matrix.mulVec_mulVec, Matrix.dotProduct_mulVec, Matrix.star_mulVec]
  rw [h]
  constructor
  · simp only [dotProduct, Pi.star_apply, Complex.re_sum]
    apply Finset.sum_nonneg
    intro i _
    have : (star ((L *ᵥ x) i) * (L *ᵥ x) i).re = Complex.normSq ((L *ᵥ x) i) := by
      simp [Complex.normSq_apply, Complex.mul_re]
    rw [this]; exact Complex.normSq_nonneg _
  · simp only [dotProduct, Pi.star_apply, Complex.im_sum]
    apply Finset.sum_eq_zero
    intro i _
    simp [Complex.mul_im]; ring

/-! ### candidate enumeration -/

theorem candidates_length (n m : Nat) : (candidates n m).length = n * m := by
  induction n with
  | zero => simp [candidates]
  | succ n ih =>
    simp only [candidates, List.range_succ, List.flatMap_append, List.length_append] at ih ⊢
    rw [ih]; simp [Nat.succ_mul]

/-- **Same order**: the pair at position `q*m + k` of the candidate list is `(q, k)` — the position
of the weight of (site `q`, operator `k`) in `weights.view(-1)`. For every `n`, `m`. -/
theorem candidates_match_weights (n m q k : Nat) (hq : q < n) (hk : k < m) :
    (candidates n m)[flatIndex m q k]? = some (q, k) := by
  induction n with
  | zero => omega
  | succ n ih =>
    unfold candidates at ih ⊢
    rw [List.range_succ, List.flatMap_append]
    have hlen : ((List.range n).flatMap fun q => (List.range m).map fun k => (q, k)).length = n * m :=
      candidates_length n m
    by_cases hqn : q < n
    · have : flatIndex m q k < n * m := by
        unfold flatIndex
        calc q * m + k < q * m + m := by omega
          _ = (q + 1) * m := by ring
          _ ≤ n * m := Nat.mul_le_mul_right m hqn
      rw [List.getElem?_append_left (by rw [hlen]; exact this)]
      exact ih hqn
    · have hqe : q = n := by omega
      subst hqe
      rw [List.getElem?_append_right (by rw [hlen]; unfold flatIndex; omega)]
      simp [hlen, flatIndex, hk]

/-! ### `random.choices` picks proportionally to the weights -/

section choice
variable {α : Type} [Field α] [LinearOrder α] [IsStrictOrderedRing α]

/-- If `choose` returns `i`, the scaled draw `u·W` lies in `[w_0+…+w_{i-1}, w_0+…+w_i)`. -/
theorem choose_interval (ws : List α) (u : α) (i : Nat) (hu0 : 0 ≤ u) (hu1 : u < 1)
    (hw : ∀ w ∈ ws, 0 ≤ w) (h : choose ws u = some i) :
    i < ws.length ∧ (ws.take i).sum ≤ u * ws.sum ∧ u * ws.sum < (ws.take (i + 1)).sum := by
  unfold choose at h
  simp only at h
  by_cases hemp : ws.isEmpty = true
  · simp [hemp] at h
  simp only [hemp, Bool.false_eq_true, if_false] at h
  have htot : (cumWeights ws 0).getLastD 0 = ws.sum := by
    rw [cumWeights_getLastD]; simp
  rw [htot] at h
  by_cases hpos : ws.sum ≤ 0
  · simp [hpos] at h
  · simp only [hpos, if_false, Option.some.injEq] at h
    have hpos : 0 < ws.sum := not_le.mp hpos
    obtain ⟨hle, hbefore, hafter⟩ := bisectRight_spec (cumWeights ws 0) (u * ws.sum) (ws.length - 1)
    rw [h, cumWeights_length] at hle
    have hlen : 0 < ws.length := by
      cases ws with
      | nil => simp at hemp
      | cons _ _ => simp
    have hi : i < ws.length := by omega
    refine ⟨hi, ?_, ?_⟩
    · cases i with
      | zero => simp; positivity
      | succ j =>
        have := hbefore j (by rw [cumWeights_length]; omega) (by rw [h]; omega)
        rw [cumWeights_get ws 0 j (by omega)] at this
        simpa using this
    · by_cases hcap : i < ws.length - 1
      · have := hafter (by rw [h, cumWeights_length]; exact hi) (by rw [h]; exact hcap)
        simp only [h] at this
        rw [cumWeights_get ws 0 i hi] at this
        simpa using this
      · have hie : i + 1 = ws.length := by omega
        rw [hie, List.take_length]
        calc u * ws.sum < 1 * ws.sum := mul_lt_mul_of_pos_right hu1 hpos
          _ = ws.sum := one_mul _

end choice

/-! ### Non-vacuity -/

/-- a Hermitian `H` (σx) on one qubit: the hypothesis of `unravelling_generator` is satisfiable -/
example : (Matrix.of fun (i j : Fin 2) => if i = j then (0 : ℂ) else 1)ᴴ
    = Matrix.of fun (i j : Fin 2) => if i = j then (0 : ℂ) else 1 := by
  ext i j; fin_cases i <;> fin_cases j <;> simp

example : (candidates 2 3)[flatIndex 3 1 2]? = some (1, 2) := by decide

example : choose [(1 : ℚ), 3] (1/2) = some 1 := by decide +kernel

/-- The full claim of C17 (convergence of trajectory averages) is not a theorem of this development. -/
def TrajectoryAverageConverges : Prop :=
  ∀ (ε : ℝ), 0 < ε → ∃ (N : ℕ), ∀ n ≥ N, True  -- placeholder shape only; see header: assumed, validated statistically

end EmuVerif.Props.C17
