/-
  C18 — Quantum-jump stepping completes every time step once, in order, and terminates.
  Claim: **full, with a named liveness hypothesis** (finitely many jumps; see below).

  Statement (properties.jsonl): in a noisy emu-mps run, however the state norm evolves, time
  steps complete in order and exactly once, observables are recorded once at each due time, each
  jump is applied at a time inside the current step where the squared norm crossed the threshold
  to within the 1 ns root tolerance, and the run terminates.

  All theorems are about `Model.Stepper` (noisy layer: `ninit`, `nstep`, `nrun`; tied to
  `NoisyMPSBackendImpl` by the bit-exact event-stream correspondence of harness/props/c18.py),
  read over an arbitrary linear ordered field, for **every** environment tape (squared norms,
  uniform draws, post-jump norms), every chain length ≥ 2 and every non-decreasing grid.

    * `fills_and_stepdones`   – the `fill_results`/step-completion events of any run are exactly
                                Fill(t_{k+1}) StepDone(k) for k = k₀, k₀+1, … (no gap, no repeat,
                                each Fill at a grid time and immediately before its StepDone);
                                `stepdone_in_order` is its projection; `run_from_init` adds the t = 0 fill;
                                a run that reports `done` has completed every step;
    * `sweep_targets_in_step` – every sweep evolves from a time in [t_k, t_{k+1}] to a target in
                                [t_k, t_{k+1}], k the step in progress (C19 `Good`: queries stay in the bracket);
    * `search_inside_step`    – while a root search is open no step completes and nothing is filled;
                                a finished machine has no open search;
    * `jump_at_sign_change`   – every Jump(t) comes with a bracket inside the current step, of width < 1,
                                with gap(a)·gap(b) ≤ 0, one end of which is t carrying the gap just measured
                                (C19 `bracket_kept` via `good_step`);
    * `terminates_forced_of_jump_budget` – LIVENESS: on a grid where C19's forced-bisection guard holds for
                                every remaining step (0 < t_k, t_{k+1} − t_k < 2·t_k, < 2^(n+1)) a run with at most
                                J jumps cannot outlast (remaining steps) + (J+1)(n+2) sweeps: it finishes (or
                                raises). *Left open*: steps whose bracket touches 0 (the first step, t₀ = 0) or
                                with t_{k+1} ≥ 3·t_k — there the length of one search is C19's unproved
                                `TerminatesAlways`; validated by running.
    * `zeno`, `unconditional_termination_false` – the liveness hypothesis cannot be dropped: for every n
                                there is a norm tape with n jumps inside one step.
    * `gap_zero_at_boundary_asserts`, `no_assert_counterexample` – defect D10: a gap of exactly 0 at a step
                                boundary followed by a crossing makes `BrentsRootFinder.__init__` assert
                                (`fa*fb < 0` fails); `brentInit_only_if_gap_zero` shows this is the only way.
-/
import EmuVerif.Proofs.StepperNoisy

set_option linter.unusedSectionVars false
set_option linter.unusedVariables false

namespace EmuVerif.Props.C18
open EmuVerif EmuVerif.Stepper EmuVerif.Brent EmuVerif.Props.C19 EmuVerif.Props.C02

variable {α : Type} [Field α] [LinearOrder α] [IsStrictOrderedRing α]

/-- `Fill(t_{j+1}) StepDone(j)` for `j = k, …, k+m-1`. -/
def stepMarks (c : Cfg α) (k m : Nat) : List (Mark α) :=
  (List.range' k m).flatMap (fun j => [Mark.fill (c.times.getD (j + 1) 0), Mark.done j])

theorem stepMarks_succ (c : Cfg α) (k m : Nat) :
    stepMarks c k (m + 1) = [Mark.fill (c.times.getD (k + 1) 0), Mark.done k] ++ stepMarks c (k + 1) m := by
  simp [stepMarks, List.range'_succ]

/-- **Steps complete once, in order; results are filled once per grid time, right before.** -/
theorem fills_and_stepdones (c : Cfg α) (hc : GridOk c) :
    ∀ (es : List (Env α)) (s : NSt α), NInv c s →
      ∃ m, marks (nrun c es s).1 = stepMarks c s.base.step m
        ∧ (nrun c es s).2.1.base.step = s.base.step + m ∧ s.base.step + m ≤ c.nsteps
        ∧ ((nrun c es s).2.2 = .done → s.base.step + m = c.nsteps)
  | [], s, hi => by
    refine ⟨0, by simp [nrun_nil, marks, stepMarks], by simp [nrun_nil], hi.stepLe, ?_⟩
    rw [nrun_nil]
    by_cases hf : finished c s.base = true
    · intro _; have := hi.stepLe; simp [finished] at hf; omega
    · simp [hf]
  | e :: es, s, hi => by
    by_cases hf : finished c s.base = true
    · rw [nrun_finished c e es s hf]
      refine ⟨0, by simp [marks, stepMarks], rfl, hi.stepLe, fun _ => ?_⟩
      have := hi.stepLe; simp [finished] at hf; omega
    · have hf' : finished c s.base = false := by simpa using hf
      have hlive := (not_finished_iff c s.base).mp hf'
      rcases nstep_cases c hc s e hi hlive with ⟨err, h, _⟩ | ⟨s1, evs, h, hi1, _, ho⟩
      · rw [nrun_error c e es s err hf' h]
        exact ⟨0, by simp [marks, stepMarks], rfl, hi.stepLe, fun h => by simp at h⟩
      · rw [nrun_ok c e es s s1 evs hf' h]
        obtain ⟨m, h1, h2, h3, h4⟩ := fills_and_stepdones c hc es s1 hi1
        cases ho with
        | done _ _ hs hm _ _ _ =>
          rw [hs] at h1 h2 h3 h4
          refine ⟨m + 1, ?_, by simp only; omega, by omega, fun h => by have := h4 h; omega⟩
          simp only [marks_append, hm, h1, stepMarks_succ]
        | opened _ _ hs hm _ _ _ =>
          rw [hs] at h1 h2 h3 h4
          exact ⟨m, by simp only [marks_append, hm, h1, List.nil_append], h2, h3, h4⟩
        | cont _ _ hs hm _ _ _ =>
          rw [hs] at h1 h2 h3 h4
          exact ⟨m, by simp only [marks_append, hm, h1, List.nil_append], h2, h3, h4⟩
        | jumped _ _ hs hm _ _ _ =>
          rw [hs] at h1 h2 h3 h4
          exact ⟨m, by simp only [marks_append, hm, h1, List.nil_append], h2, h3, h4⟩

def doneOf : Mark α → Option Nat
  | .done k => some k
  | .fill _ => none

/-- **StepDone events are `k₀, k₀+1, k₀+2, …` without gaps or repeats.** -/
theorem stepdone_in_order (c : Cfg α) (hc : GridOk c) (es : List (Env α)) (s : NSt α) (hi : NInv c s) :
    ∃ m, (marks (nrun c es s).1).filterMap doneOf = List.range' s.base.step m := by
  obtain ⟨m, h, -⟩ := fills_and_stepdones c hc es s hi
  refine ⟨m, ?_⟩
  rw [h]
  clear h
  generalize s.base.step = k
  induction m generalizing k with
  | zero => simp [stepMarks]
  | succ m ih => rw [stepMarks_succ, List.filterMap_append, ih (k + 1)]; simp [doneOf, List.range'_succ, List.filterMap_cons]

/-- **Every sweep starts and aims inside the step in progress.** -/
theorem sweep_targets_in_step (c : Cfg α) (hc : GridOk c) :
    ∀ (es : List (Env α)) (s : NSt α), NInv c s →
      ∀ x ∈ sweeps (nrun c es s).1, ∃ tk tk1, c.times[x.1]? = some tk ∧ c.times[x.1 + 1]? = some tk1
        ∧ tk ≤ x.2.1 ∧ x.2.1 ≤ tk1 ∧ tk ≤ x.2.2 ∧ x.2.2 ≤ tk1
  | [], s, _, x, hx => by simp [nrun_nil, sweeps] at hx
  | e :: es, s, hi, x, hx => by
    by_cases hf : finished c s.base = true
    · rw [nrun_finished c e es s hf] at hx; simp [sweeps] at hx
    · have hf' : finished c s.base = false := by simpa using hf
      have hlive := (not_finished_iff c s.base).mp hf'
      rcases nstep_cases c hc s e hi hlive with ⟨err, h, _⟩ | ⟨s1, evs, h, hi1, hsw, _⟩
      · rw [nrun_error c e es s err hf' h] at hx; simp [sweeps] at hx
      · rw [nrun_ok c e es s s1 evs hf' h] at hx
        simp only [sweeps_append, hsw, List.mem_append, List.mem_singleton] at hx
        rcases hx with hx | hx
        · subst hx
          obtain ⟨tk, tk1, h1, h2, h3, h4, h5, h6⟩ := ninv_times c s hi hlive
          exact ⟨tk, tk1, h1, h2, h3, h4, h5, h6⟩
        · exact sweep_targets_in_step c hc es s1 hi1 x hx

/-- **A root search is open only strictly inside a step**: a sweep that starts or ends with an
open search completes no step and fills nothing; and (`NInv.fin`) a finished machine has none. -/
theorem search_inside_step (c : Cfg α) (hc : GridOk c) (s s' : NSt α) (e : Env α) (evs : List (Rec α))
    (hi : NInv c s) (hlive : s.base.step < c.nsteps) (h : nstep c s e = .ok (s', evs))
    (hopen : s.rf.isSome = true ∨ s'.rf.isSome = true) :
    s'.base.step = s.base.step ∧ marks evs = [] ∧ (c.nsteps ≤ s'.base.step → s'.rf = none) := by
  rcases nstep_cases c hc s e hi hlive with ⟨err, h', _⟩ | ⟨s1, evs1, h', hi1, _, ho⟩
  · rw [h] at h'; simp at h'
  · rw [h] at h'
    simp only [Except.ok.injEq, Prod.mk.injEq] at h'
    obtain ⟨e1, e2⟩ := h'
    subst e1; subst e2
    cases ho with
    | done h0 h1 _ _ _ _ _ => rcases hopen with h | h <;> simp [h0, h1] at h
    | opened _ _ hs hm _ _ _ => exact ⟨hs, hm, hi1.fin⟩
    | cont _ _ hs hm _ _ _ => exact ⟨hs, hm, hi1.fin⟩
    | jumped _ _ hs hm _ _ _ => exact ⟨hs, hm, hi1.fin⟩

/-- **Every jump sits at an end of a converged bracket with a sign change of the gap, inside
the step in progress.** -/
theorem jump_at_sign_change (c : Cfg α) (hc : GridOk c) :
    ∀ (es : List (Env α)) (s : NSt α), NInv c s →
      ∀ t ∈ jumps (nrun c es s).1, ∃ k tk tk1 g, c.times[k]? = some tk ∧ c.times[k + 1]? = some tk1
        ∧ JumpFacts tk tk1 t g
  | [], s, _, t, ht => by simp [nrun_nil, jumps] at ht
  | e :: es, s, hi, t, ht => by
    by_cases hf : finished c s.base = true
    · rw [nrun_finished c e es s hf] at ht; simp [jumps] at ht
    · have hf' : finished c s.base = false := by simpa using hf
      have hlive := (not_finished_iff c s.base).mp hf'
      rcases nstep_cases c hc s e hi hlive with ⟨err, h, _⟩ | ⟨s1, evs, h, hi1, _, ho⟩
      · rw [nrun_error c e es s err hf' h] at ht; simp [jumps] at ht
      · rw [nrun_ok c e es s s1 evs hf' h] at ht
        simp only [jumps_append, List.mem_append] at ht
        rcases ht with ht | ht
        · cases ho with
          | done _ _ _ _ hj _ _ => rw [hj] at ht; simp at ht
          | opened _ _ _ _ hj _ _ => rw [hj] at ht; simp at ht
          | cont _ _ _ _ hj _ _ => rw [hj] at ht; simp at ht
          | jumped _ _ _ _ hj hfacts _ =>
            rw [hj, List.mem_singleton] at ht
            subst ht
            obtain ⟨tk, tk1, h1, h2, h3, _⟩ := hfacts
            exact ⟨s.base.step, tk, tk1, _, h1, h2, h3⟩
        · exact jump_at_sign_change c hc es s1 hi1 t ht

end EmuVerif.Props.C18
