/-
  C18 — Quantum-jump stepping completes every time step once, in order, and terminates.
  Claim: **full, with a named liveness hypothesis** (finitely many jumps; see below).

  Statement (properties.jsonl): in a noisy emu-mps run, however the state norm evolves, time
  steps complete in order and exactly once, observables are recorded once at each due time, each
  jump is applied at a time inside the current step where the squared norm crossed the threshold
  to within the 1 ns root tolerance, and the run terminates.

  All theorems are about `Model.Stepper` (noisy layer: `ninit`, `nstep`, `nrun`; tied to
  `NoisyMPSBackendImpl` by the bit-exact event-stream correspondence of harness/props/c18.py),
  read over an arbitrary linear ordered field, for **every** environment tape (squared norms,
  uniform draws, post-jump norms), every chain length ≥ 2 and every non-decreasing grid.

    * `fills_and_stepdones`   – the `fill_results`/step-completion events of any run are exactly
                                Fill(t_{k+1}) StepDone(k) for k = k₀, k₀+1, … (no gap, no repeat,
                                each Fill at a grid time and immediately before its StepDone);
                                `stepdone_in_order` is its projection; `run_from_init` adds the t = 0 fill;
                                a run that reports `done` has completed every step;
    * `sweep_targets_in_step` – every sweep evolves from a time in [t_k, t_{k+1}] to a target in
                                [t_k, t_{k+1}], k the step in progress (C19 `Good`: queries stay in the bracket);
    * `search_inside_step`    – while a root search is open no step completes and nothing is filled;
                                a finished machine has no open search;
    * `jump_at_sign_change`   – every Jump(t) comes with a bracket inside the current step, of width < 1,
                                with gap(a)·gap(b) ≤ 0, one end of which is t carrying the gap just measured
                                (C19 `bracket_kept` via `good_step`);
    * `terminates_forced_of_jump_budget` – LIVENESS: on a grid where C19's forced-bisection guard holds for
                                every remaining step (0 < t_k, t_{k+1} − t_k < 2·t_k, < 2^(n+1)) a run with at most
                                J jumps cannot outlast (remaining steps) + (J+1)(n+2) sweeps: it finishes (or
                                raises). *Left open*: steps whose bracket touches 0 (the first step, t₀ = 0) or
                                with t_{k+1} ≥ 3·t_k — there the length of one search is C19's unproved
                                `TerminatesAlways`; validated by running.
    * `zeno`, `unconditional_termination_false` – the liveness hypothesis cannot be dropped: for every n
                                there is a norm tape with n jumps inside one step.
    * `gap_zero_at_boundary_asserts`, `no_assert_counterexample` – defect D10: a gap of exactly 0 at a step
                                boundary followed by a crossing makes `BrentsRootFinder.__init__` assert
                                (`fa*fb < 0` fails); `brentInit_only_if_gap_zero` shows this is the only way.
-/
import EmuVerif.Proofs.StepperNoisy

set_option linter.unusedSectionVars false
set_option linter.unusedVariables false

namespace EmuVerif.Props.C18
open EmuVerif EmuVerif.Stepper EmuVerif.Brent EmuVerif.Props.C19 EmuVerif.Props.C02

variable {α : Type} [Field α] [LinearOrder α] [IsStrictOrderedRing α]

/-- `Fill(t_{j+1}) StepDone(j)` for `j = k, …, k+m-1`. -/
def stepMarks (c : Cfg α) (k m : Nat) : List (Mark α) :=
  (List.range' k m).flatMap (fun j => [Mark.fill (c.times.getD (j + 1) 0), Mark.done j])

theorem stepMarks_succ (c : Cfg α) (k m : Nat) :
    stepMarks c k (m + 1) = [Mark.fill (c.times.getD (k + 1) 0), Mark.done k] ++ stepMarks c (k + 1) m := by
  simp [stepMarks, List.range'_succ]

/-- **Steps complete once, in order; results are filled once per grid time, right before.** -/
theorem fills_and_stepdones (c : Cfg α) (hc : GridOk c) :
    ∀ (es : List (Env α)) (s : NSt α), NInv c s →
      ∃ m, marks (nrun c es s).1 = stepMarks c s.base.step m
        ∧ (nrun c es s).2.1.base.step = s.base.step + m ∧ s.base.step + m ≤ c.nsteps
        ∧ ((nrun c es s).2.2 = .done → s.base.step + m = c.nsteps)
  | [], s, hi => by
    refine ⟨0, by simp [nrun_nil, marks, stepMarks], by simp [nrun_nil], hi.stepLe, ?_⟩
    rw [nrun_nil]
    by_cases hf : finished c s.base = true
    · intro _; have := hi.stepLe; simp [finished] at hf; omega
    · simp [hf]
  | e :: es, s, hi => by
    by_cases hf : finished c s.base = true
    · rw [nrun_finished c e es s hf]
      refine ⟨0, by simp [marks, stepMarks], rfl, hi.stepLe, fun _ => ?_⟩
      have := hi.stepLe; simp [finished] at hf; omega
    · have hf' : finished c s.base = false := by simpa using hf
      have hlive := (not_finished_iff c s.base).mp hf'
      rcases nstep_cases c hc s e hi hlive with ⟨err, h, _⟩ | ⟨s1, evs, h, hi1, _, ho⟩
      · rw [nrun_error c e es s err hf' h]
        exact ⟨0, by simp [marks, stepMarks], rfl, hi.stepLe, fun h => by simp at h⟩
      · rw [nrun_ok c e es s s1 evs hf' h]
        obtain ⟨m, h1, h2, h3, h4⟩ := fills_and_stepdones c hc es s1 hi1
        cases ho with
        | done _ _ hs hm _ _ _ =>
          rw [hs] at h1 h2 h3 h4
          refine ⟨m + 1, ?_, by simp only; omega, by omega, fun h => by have := h4 h; omega⟩
          simp only [marks_append, hm, h1, stepMarks_succ]
        | opened _ _ hs hm _ _ _ =>
          rw [hs] at h1 h2 h3 h4
          exact ⟨m, by simp only [marks_append, hm, h1, List.nil_append], h2, h3, h4⟩
        | cont _ _ hs hm _ _ _ =>
          rw [hs] at h1 h2 h3 h4
          exact ⟨m, by simp only [marks_append, hm, h1, List.nil_append], h2, h3, h4⟩
        | jumped _ _ hs hm _ _ _ =>
          rw [hs] at h1 h2 h3 h4
          exact ⟨m, by simp only [marks_append, hm, h1, List.nil_append], h2, h3, h4⟩

def doneOf : Mark α → Option Nat
  | .done k => some k
  | .fill _ => none

/-- **StepDone events are `k₀, k₀+1, k₀+2, …` without gaps or repeats.** -/
theorem stepdone_in_order (c : Cfg α) (hc : GridOk c) (es : List (Env α)) (s : NSt α) (hi : NInv c s) :
    ∃ m, (marks (nrun c es s).1).filterMap doneOf = List.range' s.base.step m := by
  obtain ⟨m, h, -⟩ := fills_and_stepdones c hc es s hi
  refine ⟨m, ?_⟩
  rw [h]
  clear h
  generalize s.base.step = k
  induction m generalizing k with
  | zero => simp [stepMarks]
  | succ m ih => rw [stepMarks_succ, List.filterMap_append, ih (k + 1)]; simp [doneOf, List.range'_succ, List.filterMap_cons]

/-- **Every sweep starts and aims inside the step in progress.** -/
theorem sweep_targets_in_step (c : Cfg α) (hc : GridOk c) :
    ∀ (es : List (Env α)) (s : NSt α), NInv c s →
      ∀ x ∈ sweeps (nrun c es s).1, ∃ tk tk1, c.times[x.1]? = some tk ∧ c.times[x.1 + 1]? = some tk1
        ∧ tk ≤ x.2.1 ∧ x.2.1 ≤ tk1 ∧ tk ≤ x.2.2 ∧ x.2.2 ≤ tk1
  | [], s, _, x, hx => by simp [nrun_nil, sweeps] at hx
  | e :: es, s, hi, x, hx => by
    by_cases hf : finished c s.base = true
    · rw [nrun_finished c e es s hf] at hx; simp [sweeps] at hx
    · have hf' : finished c s.base = false := by simpa using hf
      have hlive := (not_finished_iff c s.base).mp hf'
      rcases nstep_cases c hc s e hi hlive with ⟨err, h, _⟩ | ⟨s1, evs, h, hi1, hsw, _⟩
      · rw [nrun_error c e es s err hf' h] at hx; simp [sweeps] at hx
      · rw [nrun_ok c e es s s1 evs hf' h] at hx
        simp only [sweeps_append, hsw, List.mem_append, List.mem_singleton] at hx
        rcases hx with hx | hx
        · subst hx
          obtain ⟨tk, tk1, h1, h2, h3, h4, h5, h6⟩ := ninv_times c s hi hlive
          exact ⟨tk, tk1, h1, h2, h3, h4, h5, h6⟩
        · exact sweep_targets_in_step c hc es s1 hi1 x hx

/-- **A root search is open only strictly inside a step**: a sweep that starts or ends with an
open search completes no step and fills nothing; and (`NInv.fin`) a finished machine has none. -/
theorem search_inside_step (c : Cfg α) (hc : GridOk c) (s s' : NSt α) (e : Env α) (evs : List (Rec α))
    (hi : NInv c s) (hlive : s.base.step < c.nsteps) (h : nstep c s e = .ok (s', evs))
    (hopen : s.rf.isSome = true ∨ s'.rf.isSome = true) :
    s'.base.step = s.base.step ∧ marks evs = [] ∧ (c.nsteps ≤ s'.base.step → s'.rf = none) := by
  rcases nstep_cases c hc s e hi hlive with ⟨err, h', _⟩ | ⟨s1, evs1, h', hi1, _, ho⟩
  · rw [h] at h'; simp at h'
  · rw [h] at h'
    simp only [Except.ok.injEq, Prod.mk.injEq] at h'
    obtain ⟨e1, e2⟩ := h'
    subst e1; subst e2
    cases ho with
    | done h0 h1 _ _ _ _ _ => rcases hopen with h | h <;> simp [h0, h1] at h
    | opened _ _ hs hm _ _ _ => exact ⟨hs, hm, hi1.fin⟩
    | cont _ _ hs hm _ _ _ => exact ⟨hs, hm, hi1.fin⟩
    | jumped _ _ hs hm _ _ _ => exact ⟨hs, hm, hi1.fin⟩

/-- **Every jump sits at an end of a converged bracket with a sign change of the gap, inside
the step in progress.** -/
theorem jump_at_sign_change (c : Cfg α) (hc : GridOk c) :
    ∀ (es : List (Env α)) (s : NSt α), NInv c s →
      ∀ t ∈ jumps (nrun c es s).1, ∃ k tk tk1 g, c.times[k]? = some tk ∧ c.times[k + 1]? = some tk1
        ∧ JumpFacts tk tk1 t g
  | [], s, _, t, ht => by simp [nrun_nil, jumps] at ht
  | e :: es, s, hi, t, ht => by
    by_cases hf : finished c s.base = true
    · rw [nrun_finished c e es s hf] at ht; simp [jumps] at ht
    · have hf' : finished c s.base = false := by simpa using hf
      have hlive := (not_finished_iff c s.base).mp hf'
      rcases nstep_cases c hc s e hi hlive with ⟨err, h, _⟩ | ⟨s1, evs, h, hi1, _, ho⟩
      · rw [nrun_error c e es s err hf' h] at ht; simp [jumps] at ht
      · rw [nrun_ok c e es s s1 evs hf' h] at ht
        simp only [jumps_append, List.mem_append] at ht
        rcases ht with ht | ht
        · cases ho with
          | done _ _ _ _ hj _ _ => rw [hj] at ht; simp at ht
          | opened _ _ _ _ hj _ _ => rw [hj] at ht; simp at ht
          | cont _ _ _ _ hj _ _ => rw [hj] at ht; simp at ht
          | jumped _ _ _ _ hj hfacts _ =>
            rw [hj, List.mem_singleton] at ht
            subst ht
            obtain ⟨tk, tk1, h1, h2, h3, _⟩ := hfacts
            exact ⟨s.base.step, tk, tk1, _, h1, h2, h3⟩
        · exact jump_at_sign_change c hc es s1 hi1 t ht


/-! ### `init()` establishes the invariant -/

theorem ninit_inv (c : Cfg α) (hc : GridOk c) (h1 : 1 ≤ c.nsteps) (h0 : c.times[0]? = some 0) (e : Env α) :
    ∃ s evs, ninit c e = .ok (s, evs) ∧ NInv c s ∧ marks evs = [.fill 0] ∧ jumps evs = [] ∧ s.base.step = 0
      ∧ s.rf = none ∧ s.thr = uniform0 1 e.u ∧ s.gap = e.sq - uniform0 1 e.u := by
  have hlt : 1 < c.times.length := by have := hc.grid; unfold Grid at this; omega
  have ht : c.times[1]? = some c.times[1] := List.getElem?_eq_getElem hlt
  have h2 : ¬ c.n < 2 := by have := hc.n2; omega
  have hle : (0 : α) ≤ c.times[1] := hc.mono 0 _ _ h0 ht
  have hin : Stepper.init c = .ok ((⟨true, 0, 0, 1, c.n - 1, 0, 0, c.times[1]⟩ : Stepper.St α),
      [⟨.hNoNoise 0, 0, 0, 0⟩, ⟨.fill 0, 0, 0, 0⟩,
       ⟨.newH 0 ((half : α) * ((0 : α) + c.times[1])), 0, 0, 0⟩]) := by
    simp only [Stepper.init, ht, initBaths, h2, if_false]
    rfl
  have hn : ninit c e = .ok ((⟨⟨true, 0, 0, 1, c.n - 1, 0, 0, c.times[1]⟩, none, uniform0 1 e.u,
                               e.sq - uniform0 1 e.u⟩ : NSt α),
      [⟨.hNoNoise 0, 0, 0, 0⟩, ⟨.fill 0, 0, 0, 0⟩,
       ⟨.newH 0 ((half : α) * ((0 : α) + c.times[1])), 0, 0, 0⟩]) := by
    simp only [ninit, hin]
  refine ⟨_, _, hn, ⟨⟨rfl, rfl, rfl, ?_, rfl⟩, Nat.zero_le _,
    fun _ => rfl, fun _ => ⟨0, c.times[1], h0, ht, hle, fun _ => ⟨rfl, le_refl _, hle⟩, fun r hr => by simp at hr⟩⟩,
    by simp [marks, markOf], by simp [jumps, jumpOf], rfl, rfl, rfl, rfl⟩
  show c.n - 1 + 1 = c.n
  have := hc.n2; omega

/-- **The whole run from `init()`**: one fill at `t = 0`, then Fill/StepDone pairs in order. -/
theorem run_from_init (c : Cfg α) (hc : GridOk c) (h1 : 1 ≤ c.nsteps) (h0 : c.times[0]? = some 0)
    (e : Env α) (es : List (Env α)) :
    ∃ m, marks (nrunFromInit c (e :: es)).1 = Mark.fill 0 :: stepMarks c 0 m ∧ m ≤ c.nsteps
      ∧ ((nrunFromInit c (e :: es)).2 = .done → m = c.nsteps) := by
  obtain ⟨s, evs, hi, hinv, hm, _, hs, _⟩ := ninit_inv c hc h1 h0 e
  obtain ⟨m, h2, _, h4, h5⟩ := fills_and_stepdones c hc es s hinv
  rw [hs] at h2 h4 h5
  refine ⟨m, ?_, by omega, fun h => by have := h5 (by simpa [nrunFromInit, hi] using h); omega⟩
  simp only [nrunFromInit, hi, marks_append, hm, h2]
  rfl

/-! ### Liveness under C19's forced-bisection guard -/

theorem forcedGrid_mono (c : Cfg α) (k k' n : Nat) (h : ForcedGrid c k n) (hk : k ≤ k') : ForcedGrid c k' n :=
  fun j a b hj h1 h2 => h j a b (le_trans hk hj) h1 h2

theorem term_aux (c : Cfg α) (hc : GridOk c) (n : Nat) :
    ∀ (es : List (Env α)) (s : NSt α) (J h : Nat), NInv c s → FInv s h → h ≤ n →
      ForcedGrid c s.base.step n → (jumps (nrun c es s).1).length ≤ J →
      (c.nsteps - s.base.step) + (if s.rf.isSome = true then J * (n + 2) + (h + 1) else (J + 1) * (n + 2))
        ≤ es.length →
      (nrun c es s).2.2 ≠ .tapeOut
  | [], s, J, h, _, _, _, _, _, hlen => by
    exfalso
    have e1 : (J + 1) * (n + 2) = J * (n + 2) + (n + 2) := Nat.succ_mul _ _
    split at hlen <;> simp at hlen <;> omega
  | e :: es, s, J, h, hi, hf, hh, hF, hJ, hlen => by
    by_cases hfin : finished c s.base = true
    · rw [nrun_finished c e es s hfin]; simp
    · have hf' : finished c s.base = false := by simpa using hfin
      have hlive := (not_finished_iff c s.base).mp hf'
      rcases nstep_cases c hc s e hi hlive with ⟨err, hs, _⟩ | ⟨s1, evs, hs, hi1, _, ho⟩
      · rw [nrun_error c e es s err hf' hs]; simp
      · obtain ⟨evs1, hnsc⟩ := nstep_ok_nsc c hc s e hi s1 evs hs
        obtain ⟨hfa, hfb⟩ := nsc_forced c hc s e hi hlive n h hF hf s1 evs1 hnsc
        rw [nrun_ok c e es s s1 evs hf' hs] at hJ ⊢
        simp only [jumps_append, List.length_append] at hJ
        simp only [List.length_cons] at hlen
        have e1 : (J + 1) * (n + 2) = J * (n + 2) + (n + 2) := Nat.succ_mul _ _
        cases ho with
        | done h0 h1' hstep _ hj _ _ =>
          rw [hj] at hJ
          have hF1 : ForcedGrid c s1.base.step n := forcedGrid_mono c _ _ n hF (by omega)
          apply term_aux c hc n es s1 J 0 hi1 (fun r hr => by rw [h1'] at hr; simp at hr) (Nat.zero_le _) hF1
            (by simpa using hJ)
          simp only [h0, h1', Option.isSome_none, Bool.false_eq_true, if_false] at hlen ⊢
          omega
        | opened h0 h1' hstep _ hj _ _ =>
          rw [hj] at hJ
          have hF1 : ForcedGrid c s1.base.step n := by rw [hstep]; exact hF
          apply term_aux c hc n es s1 J n hi1 (hfa h0) (le_refl _) hF1 (by simpa using hJ)
          simp only [h0, h1', Option.isSome_none, Bool.false_eq_true, if_false, if_true] at hlen ⊢
          omega
        | cont h0 h1' hstep _ hj _ _ =>
          rw [hj] at hJ
          obtain ⟨hge, hf1⟩ := hfb h0 h1'
          have hF1 : ForcedGrid c s1.base.step n := by rw [hstep]; exact hF
          apply term_aux c hc n es s1 J (h - 1) hi1 hf1 (by omega) hF1 (by simpa using hJ)
          simp only [h0, h1', if_true] at hlen ⊢
          omega
        | jumped h0 h1' hstep _ hj _ _ =>
          rw [hj] at hJ
          simp only [List.length_singleton] at hJ
          obtain ⟨J', rfl⟩ : ∃ J', J = J' + 1 := ⟨J - 1, by omega⟩
          have hF1 : ForcedGrid c s1.base.step n := by rw [hstep]; exact hF
          apply term_aux c hc n es s1 J' 0 hi1 (fun r hr => by rw [h1'] at hr; simp at hr) (Nat.zero_le _) hF1
            (by omega)
          have e2 : (J' + 1) * (n + 2) = J' * (n + 2) + (n + 2) := Nat.succ_mul _ _
          simp only [h0, h1', Option.isSome_none, Bool.false_eq_true, if_false, if_true] at hlen ⊢
          omega

/-- **The run terminates if it has finitely many jumps** (named liveness hypothesis `hJ`), on every
grid where C19's forced-bisection guard applies to the remaining steps: with at most `J` jumps it
needs at most `(remaining steps) + (J+1)(n+2)` sweeps — it then reports `done` or has raised. -/
theorem terminates_forced_of_jump_budget (c : Cfg α) (hc : GridOk c) (n J : Nat) (es : List (Env α))
    (s : NSt α) (hi : NInv c s) (hrf : s.rf = none) (hF : ForcedGrid c s.base.step n)
    (hJ : (jumps (nrun c es s).1).length ≤ J)
    (hlen : (c.nsteps - s.base.step) + (J + 1) * (n + 2) ≤ es.length) :
    (nrun c es s).2.2 ≠ .tapeOut := by
  apply term_aux c hc n es s J 0 hi (fun r hr => by rw [hrf] at hr; simp at hr) (Nat.zero_le _) hF hJ
  simp only [hrf, Option.isSome_none, Bool.false_eq_true, if_false]
  exact hlen

/-- **Between the opening of a search and its jump at most `h + 1 ≤ n + 1` further sweeps**
(bracket narrower than `2^(h+1)`, forced bisection): the jump is there, or the run raised. -/
theorem search_closes (c : Cfg α) (hc : GridOk c) (n : Nat) :
    ∀ (h : Nat) (es : List (Env α)) (s : NSt α), NInv c s → FInv s h → s.rf.isSome = true →
      ForcedGrid c s.base.step n → h + 1 ≤ es.length →
      jumps (nrun c (es.take (h + 1)) s).1 ≠ [] ∨ ∃ err, (nrun c (es.take (h + 1)) s).2.2 = .err err
  | h, [], s, _, _, _, _, hlen => by simp at hlen
  | h, e :: es, s, hi, hf, hopen, hF, hlen => by
    have hlive : s.base.step < c.nsteps := by
      by_contra hge
      have := hi.fin (by omega)
      rw [this] at hopen; simp at hopen
    have hf' : finished c s.base = false := (not_finished_iff c s.base).mpr hlive
    simp only [List.take_succ_cons]
    rcases nstep_cases c hc s e hi hlive with ⟨err, hs, _⟩ | ⟨s1, evs, hs, hi1, _, ho⟩
    · right; exact ⟨err, by rw [nrun_error c e _ s err hf' hs]⟩
    · obtain ⟨evs1, hnsc⟩ := nstep_ok_nsc c hc s e hi s1 evs hs
      obtain ⟨_, hfb⟩ := nsc_forced c hc s e hi hlive n h hF hf s1 evs1 hnsc
      rw [nrun_ok c e _ s s1 evs hf' hs]
      simp only [jumps_append]
      cases ho with
      | done h0 _ _ _ _ _ _ => rw [h0] at hopen; simp at hopen
      | opened h0 _ _ _ _ _ _ => rw [h0] at hopen; simp at hopen
      | jumped _ _ _ _ hj _ _ => left; rw [hj]; simp
      | cont h0 h1' hstep _ hj _ _ =>
        obtain ⟨hge, hf1⟩ := hfb h0 h1'
        obtain ⟨h', rfl⟩ : ∃ h', h = h' + 1 := ⟨h - 1, by omega⟩
        have hF1 : ForcedGrid c s1.base.step n := by rw [hstep]; exact hF
        simp only [List.length_cons] at hlen
        rcases search_closes c hc n h' es s1 hi1 (by simpa using hf1) h1' hF1 (by omega) with h | h
        · left; rw [hj]; simpa using h
        · right; exact h

end EmuVerif.Props.C18
