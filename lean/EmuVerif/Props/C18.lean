/-
  C18 — Quantum-jump stepping completes every time step once, in order, and terminates.
  Claim: **full, with a named liveness hypothesis** (finitely many jumps; see below).

  Statement (properties.jsonl): in a noisy emu-mps run, however the state norm evolves, time
  steps complete in order and exactly once, observables are recorded once at each due time, each
  jump is applied at a time inside the current step where the squared norm crossed the threshold
  to within the 1 ns root tolerance, and the run terminates.

  All theorems are about `Model.Stepper` (noisy layer: `ninit`, `nstep`, `nrun`; tied to
  `NoisyMPSBackendImpl` by the bit-exact event-stream correspondence of harness/props/c18.py),
  read over an arbitrary linear ordered field, for **every** environment tape (squared norms,
  uniform draws, post-jump norms), every chain length ≥ 2 and every non-decreasing grid.

    * `fills_and_stepdones`   – the `fill_results`/step-completion events of any run are exactly
                                Fill(t_{k+1}) StepDone(k) for k = k₀, k₀+1, … (no gap, no repeat,
                                each Fill at a grid time and immediately before its StepDone);
                                `stepdone_in_order` is its projection; `run_from_init` adds the t = 0 fill;
                                a run that reports `done` has completed every step;
    * `sweep_targets_in_step` – every sweep evolves from a time in [t_k, t_{k+1}] to a target in
                                [t_k, t_{k+1}], k the step in progress (C19 `Good`: queries stay in the bracket);
    * `search_inside_step`    – while a root search is open no step completes and nothing is filled;
                                a finished machine has no open search;
    * `jump_at_sign_change`   – every Jump(t) comes with a bracket inside the current step, of width < 1,
                                with gap(a)·gap(b) ≤ 0, one end of which is t carrying the gap just measured
                                (C19 `bracket_kept` via `good_step`);
    * `terminates_forced_of_jump_budget` – LIVENESS: on a grid where C19's forced-bisection guard holds for
                                every remaining step (0 < t_k, t_{k+1} − t_k < 2·t_k, < 2^(n+1)) a run with at most
                                J jumps cannot outlast (remaining steps) + (J+1)(n+2) sweeps: it finishes (or
                                raises). *Left open*: steps whose bracket touches 0 (the first step, t₀ = 0) or
                                with t_{k+1} ≥ 3·t_k — there the length of one search is C19's unproved
                                `TerminatesAlways`; validated by running.
    * `zeno`, `unconditional_termination_false` – the liveness hypothesis cannot be dropped: for every n
                                there is a norm tape with n jumps inside one step.
    * `gap_zero_at_boundary_asserts`, `no_assert_counterexample` – defect D10: a gap of exactly 0 at a step
                                boundary followed by a crossing makes `BrentsRootFinder.__init__` assert
                                (`fa*fb < 0` fails); `brentInit_only_if_gap_zero` shows this is the only way.
-/
import EmuVerif.Proofs.StepperNoisy

set_option linter.unusedSectionVars false
set_option linter.unusedVariables false

namespace EmuVerif.Props.C18
open EmuVerif EmuVerif.Stepper EmuVerif.Brent EmuVerif.Props.C19 EmuVerif.Props.C02

variable {α : Type} [Field α] [LinearOrder α] [IsStrictOrderedRing α]

/-- `Fill(t_{j+1}) StepDone(j)` for `j = k, …, k+m-1`. -/
def stepMarks (c : Cfg α) (k m : Nat) : List (Mark α) :=
  (List.range' k m).flatMap (fun j => [Mark.fill (c.times.getD (j + 1) 0), Mark.done j])

theorem stepMarks_succ (c : Cfg α) (k m : Nat) :
    stepMarks c k (m + 1) = [Mark.fill (c.times.getD (k + 1) 0), Mark.done k] ++ stepMarks c (k + 1) m := by
  simp [stepMarks, List.range'_succ]

/-- **Steps complete once, in order; results are filled once per grid time, right before.** -/
theorem fills_and_stepdones (c : Cfg α) (hc : GridOk c) :
    ∀ (es : List (Env α)) (s : NSt α), NInv c s →
      ∃ m, marks (nrun c es s).1 = stepMarks c s.base.step m
        ∧ (nrun c es s).2.1.base.step = s.base.step + m ∧ s.base.step + m ≤ c.nsteps
        ∧ ((nrun c es s).2.2 = .done → s.base.step + m = c.nsteps)
  | [], s, hi => by
    refine ⟨0, by simp [nrun_nil, marks, stepMarks], by simp [nrun_nil], hi.stepLe, ?_⟩
    rw [nrun_nil]
    by_cases hf : finished c s.base = true
    · intro _; have := hi.stepLe; simp [finished] at hf; omega
    · simp [hf]
  | e :: es, s, hi => by
    by_cases hf : finished c s.base = true
    · rw [nrun_finished c e es s hf]
      refine ⟨0, by simp [marks, stepMarks], rfl, hi.stepLe, fun _ => ?_⟩
      have := hi.stepLe; simp [finished] at hf; omega
    · have hf' : finished c s.base = false := by simpa using hf
      have hlive := (not_finished_iff c s.base).mp hf'
      rcases nstep_cases c hc s e hi hlive with ⟨err, h, _⟩ | ⟨s1, evs, h, hi1, _, ho⟩
      · rw [nrun_error c e es s err hf' h]
        exact ⟨0, by simp [marks, stepMarks], rfl, hi.stepLe, fun h => by simp at h⟩
      · rw [nrun_ok c e es s s1 evs hf' h]
        obtain ⟨m, h1, h2, h3, h4⟩ := fills_and_stepdones c hc es s1 hi1
        cases ho with
        | done _ _ hs hm _ _ _ =>
          rw [hs] at h1 h2 h3 h4
          refine ⟨m + 1, ?_, by simp only; omega, by omega, fun h => by have := h4 h; omega⟩
          simp only [marks_append, hm, h1, stepMarks_succ]
        | opened _ _ hs hm _ _ _ =>
          rw [hs] at h1 h2 h3 h4
          exact ⟨m, by simp only [marks_append, hm, h1, List.nil_append], h2, h3, h4⟩
        | cont _ _ hs hm _ _ _ =>
          rw [hs] at h1 h2 h3 h4
          exact ⟨m, by simp only [marks_append, hm, h1, List.nil_append], h2, h3, h4⟩
        | jumped _ _ hs hm _ _ _ =>
          rw [hs] at h1 h2 h3 h4
          exact ⟨m, by simp only [marks_append, hm, h1, List.nil_append], h2, h3, h4⟩

def doneOf : Mark α → Option Nat
  | .done k => some k
  | .fill _ => none

/-- **StepDone events are `k₀, k₀+1, k₀+2, …` without gaps or repeats.** -/
theorem stepdone_in_order (c : Cfg α) (hc : GridOk c) (es : List (Env α)) (s : NSt α) (hi : NInv c s) :
    ∃ m, (marks (nrun c es s).1).filterMap doneOf = List.range' s.base.step m := by
  obtain ⟨m, h, -⟩ := fills_and_stepdones c hc es s hi
  refine ⟨m, ?_⟩
  rw [h]
  clear h
  generalize s.base.step = k
  induction m generalizing k with
  | zero => simp [stepMarks]
  | succ m ih => rw [stepMarks_succ, List.filterMap_append, ih (k + 1)]; simp [doneOf, List.range'_succ, List.filterMap_cons]

/-- **Every sweep starts and aims inside the step in progress.** -/
theorem sweep_targets_in_step (c : Cfg α) (hc : GridOk c) :
    ∀ (es : List (Env α)) (s : NSt α), NInv c s →
      ∀ x ∈ sweeps (nrun c es s).1, ∃ tk tk1, c.times[x.1]? = some tk ∧ c.times[x.1 + 1]? = some tk1
        ∧ tk ≤ x.2.1 ∧ x.2.1 ≤ tk1 ∧ tk ≤ x.2.2 ∧ x.2.2 ≤ tk1
  | [], s, _, x, hx => by simp [nrun_nil, sweeps] at hx
  | e :: es, s, hi, x, hx => by
    by_cases hf : finished c s.base = true
    · rw [nrun_finished c e es s hf] at hx; simp [sweeps] at hx
    · have hf' : finished c s.base = false := by simpa using hf
      have hlive := (not_finished_iff c s.base).mp hf'
      rcases nstep_cases c hc s e hi hlive with ⟨err, h, _⟩ | ⟨s1, evs, h, hi1, hsw, _⟩
      · rw [nrun_error c e es s err hf' h] at hx; simp [sweeps] at hx
      · rw [nrun_ok c e es s s1 evs hf' h] at hx
        simp only [sweeps_append, hsw, List.mem_append, List.mem_singleton] at hx
        rcases hx with hx | hx
        · subst hx
          obtain ⟨tk, tk1, h1, h2, h3, h4, h5, h6⟩ := ninv_times c s hi hlive
          exact ⟨tk, tk1, h1, h2, h3, h4, h5, h6⟩
        · exact sweep_targets_in_step c hc es s1 hi1 x hx

/-- **A root search is open only strictly inside a step**: a sweep that starts or ends with an
open search completes no step and fills nothing; and (`NInv.fin`) a finished machine has none. -/
theorem search_inside_step (c : Cfg α) (hc : GridOk c) (s s' : NSt α) (e : Env α) (evs : List (Rec α))
    (hi : NInv c s) (hlive : s.base.step < c.nsteps) (h : nstep c s e = .ok (s', evs))
    (hopen : s.rf.isSome = true ∨ s'.rf.isSome = true) :
    s'.base.step = s.base.step ∧ marks evs = [] ∧ (c.nsteps ≤ s'.base.step → s'.rf = none) := by
  rcases nstep_cases c hc s e hi hlive with ⟨err, h', _⟩ | ⟨s1, evs1, h', hi1, _, ho⟩
  · rw [h] at h'; simp at h'
  · rw [h] at h'
    simp only [Except.ok.injEq, Prod.mk.injEq] at h'
    obtain ⟨e1, e2⟩ := h'
    subst e1; subst e2
    cases ho with
    | done h0 h1 _ _ _ _ _ => rcases hopen with h | h <;> simp [h0, h1] at h
    | opened _ _ hs hm _ _ _ => exact ⟨hs, hm, hi1.fin⟩
    | cont _ _ hs hm _ _ _ => exact ⟨hs, hm, hi1.fin⟩
    | jumped _ _ hs hm _ _ _ => exact ⟨hs, hm, hi1.fin⟩

/-- **Every jump sits at an end of a converged bracket with a sign change of the gap, inside
the step in progress.** -/
theorem jump_at_sign_change (c : Cfg α) (hc : GridOk c) :
    ∀ (es : List (Env α)) (s : NSt α), NInv c s →
      ∀ t ∈ jumps (nrun c es s).1, ∃ k tk tk1 g, c.times[k]? = some tk ∧ c.times[k + 1]? = some tk1
        ∧ JumpFacts tk tk1 t g
  | [], s, _, t, ht => by simp [nrun_nil, jumps] at ht
  | e :: es, s, hi, t, ht => by
    by_cases hf : finished c s.base = true
    · rw [nrun_finished c e es s hf] at ht; simp [jumps] at ht
    · have hf' : finished c s.base = false := by simpa using hf
      have hlive := (not_finished_iff c s.base).mp hf'
      rcases nstep_cases c hc s e hi hlive with ⟨err, h, _⟩ | ⟨s1, evs, h, hi1, _, ho⟩
      · rw [nrun_error c e es s err hf' h] at ht; simp [jumps] at ht
      · rw [nrun_ok c e es s s1 evs hf' h] at ht
        simp only [jumps_append, List.mem_append] at ht
        rcases ht with ht | ht
        · cases ho with
          | done _ _ _ _ hj _ _ => rw [hj] at ht; simp at ht
          | opened _ _ _ _ hj _ _ => rw [hj] at ht; simp at ht
          | cont _ _ _ _ hj _ _ => rw [hj] at ht; simp at ht
          | jumped _ _ _ _ hj hfacts _ =>
            rw [hj, List.mem_singleton] at ht
            subst ht
            obtain ⟨tk, tk1, h1, h2, h3, _⟩ := hfacts
            exact ⟨s.base.step, tk, tk1, _, h1, h2, h3⟩
        · exact jump_at_sign_change c hc es s1 hi1 t ht


/-! ### `init()` establishes the invariant -/

theorem ninit_inv (c : Cfg α) (hc : GridOk c) (h1 : 1 ≤ c.nsteps) (h0 : c.times[0]? = some 0) (e : Env α) :
    ∃ s evs, ninit c e = .ok (s, evs) ∧ NInv c s ∧ marks evs = [.fill 0] ∧ jumps evs = [] ∧ s.base.step = 0
      ∧ s.rf = none ∧ s.thr = uniform0 1 e.u ∧ s.gap = e.sq - uniform0 1 e.u := by
  have hlt : 1 < c.times.length := by have := hc.grid; unfold Grid at this; omega
  have ht : c.times[1]? = some c.times[1] := List.getElem?_eq_getElem hlt
  have h2 : ¬ c.n < 2 := by have := hc.n2; omega
  have hle : (0 : α) ≤ c.times[1] := hc.mono 0 _ _ h0 ht
  have hin : Stepper.init c = .ok ((⟨true, 0, 0, 1, c.n - 1, 0, 0, c.times[1]⟩ : Stepper.St α),
      [⟨.hNoNoise 0, 0, 0, 0⟩, ⟨.fill 0, 0, 0, 0⟩,
       ⟨.newH 0 ((half : α) * ((0 : α) + c.times[1])), 0, 0, 0⟩]) := by
    simp only [Stepper.init, ht, initBaths, h2, if_false]
    rfl
  have hn : ninit c e = .ok ((⟨⟨true, 0, 0, 1, c.n - 1, 0, 0, c.times[1]⟩, none, uniform0 1 e.u,
                               e.sq - uniform0 1 e.u⟩ : NSt α),
      [⟨.hNoNoise 0, 0, 0, 0⟩, ⟨.fill 0, 0, 0, 0⟩,
       ⟨.newH 0 ((half : α) * ((0 : α) + c.times[1])), 0, 0, 0⟩]) := by
    simp only [ninit, hin]
  refine ⟨_, _, hn, ⟨⟨rfl, rfl, rfl, ?_, rfl⟩, Nat.zero_le _,
    fun _ => rfl, fun _ => ⟨0, c.times[1], h0, ht, hle, fun _ => ⟨rfl, le_refl _, hle⟩, fun r hr => by simp at hr⟩⟩,
    by simp [marks, markOf], by simp [jumps, jumpOf], rfl, rfl, rfl, rfl⟩
  show c.n - 1 + 1 = c.n
  have := hc.n2; omega

/-- **The whole run from `init()`**: one fill at `t = 0`, then Fill/StepDone pairs in order. -/
theorem run_from_init (c : Cfg α) (hc : GridOk c) (h1 : 1 ≤ c.nsteps) (h0 : c.times[0]? = some 0)
    (e : Env α) (es : List (Env α)) :
    ∃ m, marks (nrunFromInit c (e :: es)).1 = Mark.fill 0 :: stepMarks c 0 m ∧ m ≤ c.nsteps
      ∧ ((nrunFromInit c (e :: es)).2 = .done → m = c.nsteps) := by
  obtain ⟨s, evs, hi, hinv, hm, _, hs, _⟩ := ninit_inv c hc h1 h0 e
  obtain ⟨m, h2, _, h4, h5⟩ := fills_and_stepdones c hc es s hinv
  rw [hs] at h2 h4 h5
  refine ⟨m, ?_, by omega, fun h => by have := h5 (by simpa [nrunFromInit, hi] using h); omega⟩
  simp only [nrunFromInit, hi, marks_append, hm, h2]
  rfl

/-! ### Liveness under C19's forced-bisection guard -/

theorem forcedGrid_mono (c : Cfg α) (k k' n : Nat) (h : ForcedGrid c k n) (hk : k ≤ k') : ForcedGrid c k' n :=
  fun j a b hj h1 h2 => h j a b (le_trans hk hj) h1 h2

theorem term_aux (c : Cfg α) (hc : GridOk c) (n : Nat) :
    ∀ (es : List (Env α)) (s : NSt α) (J h : Nat), NInv c s → FInv s h → h ≤ n →
      ForcedGrid c s.base.step n → (jumps (nrun c es s).1).length ≤ J →
      (c.nsteps - s.base.step) + (if s.rf.isSome = true then J * (n + 2) + (h + 1) else (J + 1) * (n + 2))
        ≤ es.length →
      (nrun c es s).2.2 ≠ .tapeOut
  | [], s, J, h, _, _, _, _, _, hlen => by
    exfalso
    have e1 : (J + 1) * (n + 2) = J * (n + 2) + (n + 2) := Nat.succ_mul _ _
    split at hlen <;> simp at hlen <;> omega
  | e :: es, s, J, h, hi, hf, hh, hF, hJ, hlen => by
    by_cases hfin : finished c s.base = true
    · rw [nrun_finished c e es s hfin]; simp
    · have hf' : finished c s.base = false := by simpa using hfin
      have hlive := (not_finished_iff c s.base).mp hf'
      rcases nstep_cases c hc s e hi hlive with ⟨err, hs, _⟩ | ⟨s1, evs, hs, hi1, _, ho⟩
      · rw [nrun_error c e es s err hf' hs]; simp
      · obtain ⟨evs1, hnsc⟩ := nstep_ok_nsc c hc s e hi s1 evs hs
        obtain ⟨hfa, hfb⟩ := nsc_forced c hc s e hi hlive n h hF hf s1 evs1 hnsc
        rw [nrun_ok c e es s s1 evs hf' hs] at hJ ⊢
        simp only [jumps_append, List.length_append] at hJ
        simp only [List.length_cons] at hlen
        have e1 : (J + 1) * (n + 2) = J * (n + 2) + (n + 2) := Nat.succ_mul _ _
        cases ho with
        | done h0 h1' hstep _ hj _ _ =>
          rw [hj] at hJ
          have hF1 : ForcedGrid c s1.base.step n := forcedGrid_mono c _ _ n hF (by omega)
          apply term_aux c hc n es s1 J 0 hi1 (fun r hr => by rw [h1'] at hr; simp at hr) (Nat.zero_le _) hF1
            (by simpa using hJ)
          simp only [h0, h1', Option.isSome_none, Bool.false_eq_true, if_false] at hlen ⊢
          omega
        | opened h0 h1' hstep _ hj _ _ =>
          rw [hj] at hJ
          have hF1 : ForcedGrid c s1.base.step n := by rw [hstep]; exact hF
          apply term_aux c hc n es s1 J n hi1 (hfa h0) (le_refl _) hF1 (by simpa using hJ)
          simp only [h0, h1', Option.isSome_none, Bool.false_eq_true, if_false, if_true] at hlen ⊢
          omega
        | cont h0 h1' hstep _ hj _ _ =>
          rw [hj] at hJ
          obtain ⟨hge, hf1⟩ := hfb h0 h1'
          have hF1 : ForcedGrid c s1.base.step n := by rw [hstep]; exact hF
          apply term_aux c hc n es s1 J (h - 1) hi1 hf1 (by omega) hF1 (by simpa using hJ)
          simp only [h0, h1', if_true] at hlen ⊢
          omega
        | jumped h0 h1' hstep _ hj _ _ =>
          rw [hj] at hJ
          simp only [List.length_singleton] at hJ
          obtain ⟨J', rfl⟩ : ∃ J', J = J' + 1 := ⟨J - 1, by omega⟩
          have hF1 : ForcedGrid c s1.base.step n := by rw [hstep]; exact hF
          apply term_aux c hc n es s1 J' 0 hi1 (fun r hr => by rw [h1'] at hr; simp at hr) (Nat.zero_le _) hF1
            (by omega)
          have e2 : (J' + 1) * (n + 2) = J' * (n + 2) + (n + 2) := Nat.succ_mul _ _
          simp only [h0, h1', Option.isSome_none, Bool.false_eq_true, if_false, if_true] at hlen ⊢
          omega

/-- **The run terminates if it has finitely many jumps** (named liveness hypothesis `hJ`), on every
grid where C19's forced-bisection guard applies to the remaining steps: with at most `J` jumps it
needs at most `(remaining steps) + (J+1)(n+2)` sweeps — it then reports `done` or has raised. -/
theorem terminates_forced_of_jump_budget (c : Cfg α) (hc : GridOk c) (n J : Nat) (es : List (Env α))
    (s : NSt α) (hi : NInv c s) (hrf : s.rf = none) (hF : ForcedGrid c s.base.step n)
    (hJ : (jumps (nrun c es s).1).length ≤ J)
    (hlen : (c.nsteps - s.base.step) + (J + 1) * (n + 2) ≤ es.length) :
    (nrun c es s).2.2 ≠ .tapeOut := by
  apply term_aux c hc n es s J 0 hi (fun r hr => by rw [hrf] at hr; simp at hr) (Nat.zero_le _) hF hJ
  simp only [hrf, Option.isSome_none, Bool.false_eq_true, if_false]
  exact hlen

/-- **Between the opening of a search and its jump at most `h + 1 ≤ n + 1` further sweeps**
(bracket narrower than `2^(h+1)`, forced bisection): the jump is there, or the run raised. -/
theorem search_closes (c : Cfg α) (hc : GridOk c) (n : Nat) :
    ∀ (h : Nat) (es : List (Env α)) (s : NSt α), NInv c s → FInv s h → s.rf.isSome = true →
      ForcedGrid c s.base.step n → h + 1 ≤ es.length →
      jumps (nrun c (es.take (h + 1)) s).1 ≠ [] ∨ ∃ err, (nrun c (es.take (h + 1)) s).2.2 = .err err
  | h, [], s, _, _, _, _, hlen => by simp at hlen
  | h, e :: es, s, hi, hf, hopen, hF, hlen => by
    have hlive : s.base.step < c.nsteps := by
      by_contra hge
      have := hi.fin (by omega)
      rw [this] at hopen; simp at hopen
    have hf' : finished c s.base = false := (not_finished_iff c s.base).mpr hlive
    simp only [List.take_succ_cons]
    rcases nstep_cases c hc s e hi hlive with ⟨err, hs, _⟩ | ⟨s1, evs, hs, hi1, _, ho⟩
    · right; exact ⟨err, by rw [nrun_error c e _ s err hf' hs]⟩
    · obtain ⟨evs1, hnsc⟩ := nstep_ok_nsc c hc s e hi s1 evs hs
      obtain ⟨_, hfb⟩ := nsc_forced c hc s e hi hlive n h hF hf s1 evs1 hnsc
      rw [nrun_ok c e _ s s1 evs hf' hs]
      simp only [jumps_append]
      cases ho with
      | done h0 _ _ _ _ _ _ => rw [h0] at hopen; simp at hopen
      | opened h0 _ _ _ _ _ _ => rw [h0] at hopen; simp at hopen
      | jumped _ _ _ _ hj _ _ => left; rw [hj]; simp
      | cont h0 h1' hstep _ hj _ _ =>
        obtain ⟨hge, hf1⟩ := hfb h0 h1'
        obtain ⟨h', rfl⟩ : ∃ h', h = h' + 1 := ⟨h - 1, by omega⟩
        have hF1 : ForcedGrid c s1.base.step n := by rw [hstep]; exact hF
        simp only [List.length_cons] at hlen
        rcases search_closes c hc n h' es s1 hi1 (by simpa using hf1) h1' hF1 (by omega) with h | h
        · left; rw [hj]; simpa using h
        · right; exact h


/-! ### The liveness hypothesis cannot be dropped (Zeno), for an adversarial environment -/

/-- two sites, one step `[0, 1/2]` -/
def cz : Cfg α := ⟨2, 1, [0, 1 / 2], true⟩
/-- the adversary: the norm collapses in every sweep; each jump redraws the threshold `1/2` -/
def e0 : Env α := ⟨0, 1 / 2, 1⟩

theorem cz_ok : GridOk (cz : Cfg α) := by
  refine ⟨by simp [cz], by simp [Grid, cz], ?_⟩
  intro i a b h1 h2
  match i with
  | 0 =>
    simp [cz] at h1 h2
    subst h1; subst h2; norm_num
  | i + 1 => simp [cz] at h2

theorem cz_t0 : (cz : Cfg α).times[0]? = some 0 := by simp [cz]
theorem cz_t1 : (cz : Cfg α).times[0 + 1]? = some (1 / 2) := by simp [cz]

structure Z (s : NSt α) : Prop where
  inv : NInv (cz : Cfg α) s
  rf : s.rf = none
  thr : s.thr = 1 / 2
  gap : s.gap = 1 / 2
  step : s.base.step = 0

/-- two sweeps of the adversary from a `Z` state: one more jump, same step, `Z` again -/
theorem zeno_pair (s : NSt α) (hz : Z s) :
    ∃ s1 s2 evs1 evs2, nstep cz s e0 = .ok (s1, evs1) ∧ nstep cz s1 e0 = .ok (s2, evs2) ∧ Z s2
      ∧ s1.base.step = 0 ∧ (jumps (evs1 ++ evs2)).length = 1 ∧ marks (evs1 ++ evs2) = [] := by
  have hlive : s.base.step < (cz : Cfg α).nsteps := by rw [hz.step]; simp [cz]
  have hneg : (e0 : Env α).sq - s.thr < 0 := by rw [hz.thr]; simp [e0]
  rcases nstep_cases cz cz_ok s e0 hz.inv hlive with ⟨err, _, hE⟩ | ⟨s1, evs1, h1, hi1, _, ho1⟩
  · exfalso
    rcases hE with ⟨_, _, _, hne⟩ | ⟨_, hsome, _⟩
    · apply hne; rw [hz.gap, hz.thr]; simp [e0]
    · rw [hz.rf] at hsome; simp at hsome
  · cases ho1 with
    | done _ _ _ _ _ hg _ => exact absurd hneg hg
    | cont h0 _ _ _ _ _ _ => rw [hz.rf] at h0; simp at h0
    | jumped h0 _ _ _ _ _ _ => rw [hz.rf] at h0; simp at h0
    | opened _ hopen hs1 hm1 hj1 _ ht1 =>
      have hs10 : s1.base.step = 0 := by rw [hs1, hz.step]
      have hlive1 : s1.base.step < (cz : Cfg α).nsteps := by rw [hs10]; simp [cz]
      have hnarrow : ∀ tk tk1 : α, (cz : Cfg α).times[s1.base.step]? = some tk →
          (cz : Cfg α).times[s1.base.step + 1]? = some tk1 → ¬ 1 ≤ tk1 - tk := by
        intro tk tk1 h1 h2
        rw [hs10] at h1 h2
        rw [cz_t0] at h1; rw [cz_t1] at h2
        simp only [Option.some.injEq] at h1 h2
        subst h1; subst h2; norm_num
      rcases nstep_cases cz cz_ok s1 e0 hi1 hlive1 with ⟨err, _, hE⟩ | ⟨s2, evs2, h2, hi2, _, ho2⟩
      · exfalso
        rcases hE with ⟨_, hnone, _, _⟩ | ⟨_, _, tk, tk1, h1, h2, hw⟩
        · rw [hnone] at hopen; simp at hopen
        · exact hnarrow tk tk1 h1 h2 hw
      · cases ho2 with
        | done h0 _ _ _ _ _ _ => rw [h0] at hopen; simp at hopen
        | opened h0 _ _ _ _ _ _ => rw [h0] at hopen; simp at hopen
        | cont _ _ _ _ _ _ hw =>
          obtain ⟨tk, tk1, h1, h2, hw⟩ := hw
          exact absurd hw (hnarrow tk tk1 h1 h2)
        | jumped _ hrf2 hs2 hm2 hj2 _ ht2 =>
          refine ⟨s1, s2, evs1, evs2, h1, h2, ⟨hi2, hrf2, ?_, ?_, by rw [hs2, hs10]⟩, hs10, ?_, ?_⟩
          · rw [ht2.1]; simp [uniform0, e0]
          · rw [ht2.2.1]; simp [uniform0, e0]; norm_num
          · rw [jumps_append, hj1, hj2]; rfl
          · rw [marks_append, hm1, hm2]; rfl

theorem zeno_from (n : Nat) : ∀ (s : NSt α), Z s →
    (jumps (nrun cz (List.replicate (2 * n) e0) s).1).length = n
      ∧ marks (nrun cz (List.replicate (2 * n) e0) s).1 = []
      ∧ (nrun cz (List.replicate (2 * n) e0) s).2.2 = .tapeOut := by
  induction n with
  | zero =>
    intro s hz
    have : finished (cz : Cfg α) s.base = false := by simp [finished, hz.step, cz]
    simp [nrun_nil, jumps, marks, this]
  | succ n ih =>
    intro s hz
    obtain ⟨s1, s2, evs1, evs2, h1, h2, hz2, hs10, hj, hm⟩ := zeno_pair s hz
    have hf : finished (cz : Cfg α) s.base = false := by simp [finished, hz.step, cz]
    have hf1 : finished (cz : Cfg α) s1.base = false := by simp [finished, hs10, cz]
    have e : List.replicate (2 * (n + 1)) (e0 : Env α) = e0 :: e0 :: List.replicate (2 * n) e0 := by
      rw [show 2 * (n + 1) = 2 * n + 1 + 1 by ring]; rfl
    obtain ⟨ih1, ih2, ih3⟩ := ih s2 hz2
    rw [e, nrun_ok cz e0 _ s s1 evs1 hf h1, nrun_ok cz e0 _ s1 s2 evs2 hf1 h2]
    simp only
    refine ⟨?_, ?_, ih3⟩
    · rw [← List.append_assoc, jumps_append, List.length_append, hj, ih1]; ring
    · rw [← List.append_assoc, marks_append, hm, ih2]; rfl

/-- **Zeno**: for every `n` there is an environment tape (of `2n+1` entries) along which the real
stepping logic performs `n` jumps inside one and the same time step and completes no step. -/
theorem zeno (n : Nat) :
    ∃ es : List (Env α), es.length = 2 * n + 1 ∧ (jumps (nrunFromInit cz es).1).length = n
      ∧ marks (nrunFromInit cz es).1 = [.fill 0] ∧ (nrunFromInit cz es).2 = .tapeOut := by
  obtain ⟨s, evs, hi, hinv, hm, hj, hs, hrf, hthr, hgap⟩ :=
    ninit_inv (cz : Cfg α) cz_ok (by simp [cz]) cz_t0 ⟨1, 1 / 2, 1⟩
  have hz : Z s := ⟨hinv, hrf, by rw [hthr]; simp [uniform0], by rw [hgap]; simp [uniform0]; norm_num, hs⟩
  obtain ⟨h1, h2, h3⟩ := zeno_from n s hz
  refine ⟨⟨1, 1 / 2, 1⟩ :: List.replicate (2 * n) e0, by simp, ?_, ?_, ?_⟩
  · simp only [nrunFromInit, hi, jumps_append, hj, List.nil_append, h1]
  · simp only [nrunFromInit, hi, marks_append, hm, h2]; rfl
  · simp only [nrunFromInit, hi, h3]

/-- The unconditional termination claim ("the run terminates however the norm evolves"), as a
statement about tapes: some number of sweeps always suffices. -/
def TerminatesUnconditionally (c : Cfg α) : Prop :=
  ∃ B : Nat, ∀ es : List (Env α), B ≤ es.length → (nrunFromInit c es).2 ≠ .tapeOut

/-- **It is false** (adversarial environment). -/
theorem unconditional_termination_false : ¬ TerminatesUnconditionally (cz : Cfg α) := by
  rintro ⟨B, hB⟩
  obtain ⟨es, hlen, _, _, hst⟩ := zeno (α := α) B
  exact hB es (by omega) hst

/-! ### The `BrentsRootFinder` constructor assert: exactly the gap-zero histories (D10) -/

/-- what `random.uniform(0, b)` and a squared norm guarantee -/
def EnvOk (e : Env α) : Prop := 0 ≤ e.u ∧ e.u ≤ 1 ∧ 0 ≤ e.psq

/-- If a run dies on the constructor assert, the gap stored at the last step boundary (or after
the last jump) was **exactly zero** — for every tape whose uniform draws are in `[0, 1]`. -/
theorem brentInit_only_if_gap_zero (c : Cfg α) (hc : GridOk c) :
    ∀ (es : List (Env α)) (s : NSt α), NInv c s → (s.rf = none → 0 ≤ s.gap) → (∀ e ∈ es, EnvOk e) →
      (nrun c es s).2.2 = .err .brentInit →
      (nrun c es s).2.1.rf = none ∧ (nrun c es s).2.1.gap = 0
  | [], s, _, _, _, h => by rw [nrun_nil] at h; split at h <;> simp at h
  | e :: es, s, hi, hg, henv, h => by
    by_cases hfin : finished c s.base = true
    · rw [nrun_finished c e es s hfin] at h; simp at h
    · have hf' : finished c s.base = false := by simpa using hfin
      have hlive := (not_finished_iff c s.base).mp hf'
      rcases nstep_cases c hc s e hi hlive with ⟨err, hs, hE⟩ | ⟨s1, evs, hs, hi1, _, ho⟩
      · rw [nrun_error c e es s err hf' hs] at h ⊢
        simp only [Status.err.injEq] at h
        subst h
        rcases hE with ⟨_, hnone, hneg, hne⟩ | ⟨h', _⟩
        · refine ⟨hnone, ?_⟩
          have h0 := hg hnone
          rcases eq_or_lt_of_le h0 with h1 | h1
          · exact h1.symm
          · exact absurd (mul_neg_of_pos_of_neg h1 hneg) hne
        · simp at h'
      · rw [nrun_ok c e es s s1 evs hf' hs] at h ⊢
        simp only at h ⊢
        apply brentInit_only_if_gap_zero c hc es s1 hi1 ?_ (fun e' he' => henv e' (by simp [he'])) h
        intro hrf1
        cases ho with
        | done _ _ _ _ _ hge ht => rw [ht.2]; exact not_lt.mp hge
        | opened _ h1 _ _ _ _ _ => rw [hrf1] at h1; simp at h1
        | cont _ h1 _ _ _ _ _ => rw [hrf1] at h1; simp at h1
        | jumped _ _ _ _ _ _ ht =>
          obtain ⟨hu0, hu1, hp⟩ := henv e (by simp)
          rw [ht.2.1]
          unfold uniform0
          have : e.psq - (0 + (e.psq - 0) * e.u) = e.psq * (1 - e.u) := by ring
          rw [this]
          exact mul_nonneg hp (by linarith)

/-- **Defect D10, as a theorem about the model (= the code, by correspondence)**: two sites, grid
0, 10, 20, 30; threshold 1/4; the squared norm is exactly 1/4 at t = 10 (gap 0: the step completes)
and 1/16 at t = 20 (gap < 0: a search is opened with `f_start = 0`): `assert fa*fb < 0` fails. -/
theorem gap_zero_at_boundary_asserts :
    (nrunFromInit (α := ℚ) ⟨2, 3, [0, 10, 20, 30], true⟩
      [⟨1, 1 / 4, 1⟩, ⟨1 / 4, 1 / 2, 1⟩, ⟨1 / 16, 1 / 2, 1⟩]).2 = .err .brentInit := by
  decide +kernel

/-- "no history trips the constructor assert", and its refutation -/
def NeverBrentInit (c : Cfg ℚ) : Prop := ∀ es : List (Env ℚ), (nrunFromInit c es).2 ≠ .err .brentInit

theorem no_assert_counterexample : ¬ NeverBrentInit ⟨2, 3, [0, 10, 20, 30], true⟩ :=
  fun h => h _ gap_zero_at_boundary_asserts

/-! ### Non-vacuity -/

example : GridOk (⟨3, 3, [0, 10, 20, 30], true⟩ : Cfg ℚ) := by
  refine ⟨by simp, by simp [Grid], ?_⟩
  intro i a b h1 h2
  match i with
  | 0 => simp at h1 h2; subst h1; subst h2; norm_num
  | 1 => simp at h1 h2; subst h1; subst h2; norm_num
  | 2 => simp at h1 h2; subst h1; subst h2; norm_num
  | i + 3 => simp at h2

/-- the forced-bisection guard holds from step 1 on for the uniform 10 ns grid (16 = 2^(3+1)) -/
example : ForcedGrid (⟨3, 3, [0, 10, 20, 30], true⟩ : Cfg ℚ) 1 3 := by
  intro k tk tk1 hk h1 h2
  match k with
  | 0 => omega
  | 1 => simp at h1 h2; subst h1; subst h2; norm_num
  | 2 => simp at h1 h2; subst h1; subst h2; norm_num
  | k + 3 => simp at h2

/-- … and fails for the first step (bracket touching 0): this is what is left open -/
example : ¬ ForcedGrid (⟨3, 3, [0, 10, 20, 30], true⟩ : Cfg ℚ) 0 3 := by
  intro h
  have := (h 0 0 10 (le_refl _) (by simp) (by simp)).1
  exact lt_irrefl _ this

/-- a concrete run with a jump: 3 sites, the search converges after 4 bisections and the run is `done` -/
example : ((nrunFromInit (α := ℚ) ⟨3, 2, [0, 10, 20], true⟩
      ([⟨1, 1 / 2, 1⟩, ⟨9 / 10, 1 / 2, 1⟩, ⟨2 / 5, 1 / 2, 1⟩, ⟨3 / 5, 1 / 2, 1⟩, ⟨2 / 5, 1 / 2, 1⟩,
        ⟨3 / 5, 1 / 2, 1⟩, ⟨2 / 5, 1 / 2, 1⟩, ⟨3 / 5, 1 / 2, 1⟩, ⟨4 / 5, 1 / 4, 1⟩, ⟨4 / 5, 1 / 4, 1⟩])).2
      = .done) := by decide +kernel

end EmuVerif.Props.C18
