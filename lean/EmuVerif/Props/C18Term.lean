/-
  C18 (liveness clause) — every jump search of the noisy solver closes within an explicit number
  of sweeps, whatever the norms: on steps that start after t = 0 (`PosGrid`, bound from
  `C19Term.iterBound`) and on **every** step of a grid with non-negative times, including the
  first one whose bracket touches 0 (`NonnegGrid`, bound from `C19Term.iterBound0`). No
  restriction `t_{k+1} < 3 t_k` any more.

  `Props/C18.lean` proves `terminates_forced_of_jump_budget` on grids where C19's
  forced-bisection guard holds (`0 < t_k`, `t_{k+1} − t_k < 2 t_k`). Here the guard is replaced by a
  search budget `SearchGrid c k₀ K`: on every step from `k₀` on, a root finder constructed on
  `[cur, t_{k+1}]`, `t_k ≤ cur`, with ε = 1 is `Within 1 K` after its first ordinate. It holds with
    * `K = n(2m+2)` when `0 < t_k`, `t_{k+1} ≤ t_k·2^m`, `t_{k+1} − t_k < 2^n`       (`posGrid_search`),
    * `K = n(2m+5)` when `0 ≤ t_k`, `2·t_{k+1} ≤ 2^m`, `t_{k+1} − t_k < 2^n`          (`nonnegGrid_search`).

    * `search_closes`                   – an open search with potential `h` jumps (or raises) within `h + 1` sweeps;
    * `terminates_of_jump_budget`       – LIVENESS: a run with at most `J` jumps cannot outlast
                                          (remaining steps) + (J+1)(K+2) sweeps;
    * `terminates_pos_of_jump_budget`, `search_closes_pos` – the `PosGrid` instances;
    * `run_terminates_of_jump_budget`   – the whole run from `init()` on a grid `0 = t₀ ≤ t₁ ≤ …` with
                                          `2·t_{k+1} ≤ 2^m`, `t_{k+1} − t_k < 2^n`: at most `J` jumps ⇒ at most
                                          1 + steps + (J+1)(n(2m+5)+2) tape entries are consumed.
  So the named liveness hypothesis of C18 shrinks to **finitely many jumps** alone (necessary:
  `C18.zeno`); the length of every single search is bounded, the first step included.
-/
import EmuVerif.Props.C18
import EmuVerif.Props.C19Term

set_option linter.unusedSectionVars false
set_option linter.unusedVariables false

namespace EmuVerif.Props.C18Term
open EmuVerif EmuVerif.Stepper EmuVerif.Brent EmuVerif.Props.C19 EmuVerif.Props.C02 EmuVerif.Props.C18
open EmuVerif.Props.C19Term (iterBound iterBound0)

variable {α : Type} [Field α] [LinearOrder α] [IsStrictOrderedRing α]

/-- every step from `k0` on starts after 0, ends before `2^m` times its start and is shorter
than `2^n` -/
def PosGrid (c : Cfg α) (k0 m n : Nat) : Prop :=
  ∀ (k : Nat) (tk tk1 : α), k0 ≤ k → c.times[k]? = some tk → c.times[k + 1]? = some tk1 →
    0 < tk ∧ tk1 ≤ tk * 2 ^ m ∧ tk1 - tk < 2 ^ n

/-- every step from `k0` on starts at a non-negative time, ends before `2^m / 2` and is shorter
than `2^n` (true for every grid `0 = t₀ ≤ t₁ ≤ …` with suitable `m`, `n`) -/
def NonnegGrid (c : Cfg α) (k0 m n : Nat) : Prop :=
  ∀ (k : Nat) (tk tk1 : α), k0 ≤ k → c.times[k]? = some tk → c.times[k + 1]? = some tk1 →
    0 ≤ tk ∧ 2 * tk1 ≤ 2 ^ m ∧ tk1 - tk < 2 ^ n

/-- the search budget: on every step from `k0` on, a root finder constructed (ε = 1) on
`[cur, t_{k+1}]` with `t_k ≤ cur` has converged `K` iterations after its first ordinate at the
latest, whatever the ordinates -/
def SearchGrid (c : Cfg α) (k0 K : Nat) : Prop :=
  ∀ (k : Nat) (tk tk1 : α), k0 ≤ k → c.times[k]? = some tk → c.times[k + 1]? = some tk1 →
    ∀ (cur fS fE : α) (r0 : Brent.St α), tk ≤ cur → Brent.init cur tk1 fS fE 1 = some r0 →
      ∀ y, Within 1 K (nextSt r0 y)

/-- an open search converges within `h` further iterations whatever gap is measured next:
`r` is the state handed back by `get_next_abscissa` from `r0`, and after `provide_ordinate` with
any ordinate the root finder is `Within 1 h`. -/
def WInv (s : NSt α) (h : Nat) : Prop :=
  ∀ r, s.rf = some r → ∃ r0, r = (getNext r0).1 ∧ s.base.tgt = (getNext r0).2
    ∧ ∀ y, Within 1 h (nextSt r0 y)

theorem searchGrid_mono (c : Cfg α) (k k' K : Nat) (h : SearchGrid c k K) (hk : k ≤ k') :
    SearchGrid c k' K :=
  fun j a b hj h1 h2 => h j a b (le_trans hk hj) h1 h2

/-- steps starting after 0: budget `iterBound m n = n(2m+2)` (`Brent.pos_within`) -/
theorem posGrid_search (c : Cfg α) (k0 m n : Nat) (h : PosGrid c k0 m n) :
    SearchGrid c k0 (iterBound m n) := by
  intro k tk tk1 hk h1 h2 cur fS fE r0 hcur hin y
  obtain ⟨hpos, hrat, hwid⟩ := h k tk tk1 hk h1 h2
  have hcp : 0 < cur := lt_of_lt_of_le hpos hcur
  have hp0 := posB_init hin hcp
  obtain ⟨_, _, _, hlo, hhi, _⟩ := init_some hin
  have hm : tk1 ≤ cur * (2 * 1) ^ m := by
    rw [mul_one]
    have : tk * 2 ^ m ≤ cur * 2 ^ m := mul_le_mul_of_nonneg_right hcur (by positivity)
    linarith
  apply pos_within 1 (by norm_num) m hm n _ (posB_step r0 y hp0)
  apply lt_of_le_of_lt (nextSt_width_le r0 y)
  rw [← width_eq, hlo, hhi, one_mul]
  linarith

/-- steps starting at `t ≥ 0` (the first step included): budget `iterBound0 m n = n(2m+5)`
(`Brent.nonneg_within` with `θ = 1/2 < 1 = tol`) -/
theorem nonnegGrid_search (c : Cfg α) (k0 m n : Nat) (h : NonnegGrid c k0 m n) :
    SearchGrid c k0 (iterBound0 m n) := by
  intro k tk tk1 hk h1 h2 cur fS fE r0 hcur hin y
  obtain ⟨hpos, hrat, hwid⟩ := h k tk tk1 hk h1 h2
  have hp0 := nnB_init hin (le_trans hpos hcur)
  obtain ⟨_, _, _, hlo, hhi, _⟩ := init_some hin
  have hm : tk1 ≤ (1 / 2 : α) * (2 * 1) ^ m := by rw [mul_one]; linarith
  apply nonneg_within 1 (by norm_num) (by norm_num) (by norm_num) m hm n _ (nnB_step r0 y hp0)
  apply lt_of_le_of_lt (nextSt_width_le r0 y)
  rw [← width_eq, hlo, hhi, one_mul]
  linarith

/-- `sweep_complete` and the potential of the open search: opening gives the budget `K`, each
further abscissa costs one. -/
theorem nsc_search (c : Cfg α) (hc : GridOk c) (s : NSt α) (e : Env α) (hi : NInv c s)
    (hlive : s.base.step < c.nsteps) (K h : Nat) (hF : SearchGrid c s.base.step K) (hf : WInv s h)
    (s' : NSt α) (evs : List (Rec α)) (hok : nsweepComplete c s e = .ok (s', evs)) :
    (s.rf = none → WInv s' K)
    ∧ (s.rf.isSome = true → s'.rf.isSome = true → 1 ≤ h ∧ WInv s' (h - 1)) := by
  obtain ⟨tk, tk1, htk, htk1, hle, hnone, hsome⟩ := hi.live hlive
  have hS := hF s.base.step tk tk1 (le_refl _) htk htk1
  have hn2 := hc.n2
  unfold nsweepComplete at hok
  cases hrf : s.rf with
  | none =>
    refine ⟨fun _ => ?_, fun h => by simp at h⟩
    obtain ⟨htgt, hcl, hcu⟩ := hnone hrf
    rw [hrf] at hok
    simp only at hok
    by_cases hg : e.sq - s.thr < 0
    · simp only [hg, if_true] at hok
      unfold openSearch at hok
      cases hin : Brent.init s.base.cur s.base.tgt s.gap (e.sq - s.thr) 1 with
      | none => rw [hin] at hok; simp at hok
      | some r0 =>
        rw [hin] at hok
        have hz := init_no_zeroDiv one_pos hin
        simp only [hz, Bool.false_eq_true, if_false, Except.ok.injEq, Prod.mk.injEq] at hok
        obtain ⟨e1, _⟩ := hok
        subst e1
        intro r hr
        simp only [Option.some.injEq] at hr
        subst hr
        rw [htgt] at hin
        exact ⟨r0, rfl, rfl, hS _ _ _ r0 hcl hin⟩
    · simp only [hg, if_false] at hok
      cases htc : timestepComplete c { s.base with cur := s.base.tgt } with
      | error err => rw [htc] at hok; simp at hok
      | ok v =>
        rw [htc] at hok
        simp only [Except.ok.injEq, Prod.mk.injEq] at hok
        obtain ⟨e1, _⟩ := hok
        subst e1
        intro r hr
        simp at hr
  | some r =>
    refine ⟨fun h => by simp at h, fun _ hs' => ?_⟩
    obtain ⟨r0, hr, htgt, hW⟩ := hf r hrf
    rw [hrf] at hok
    simp only at hok
    subst hr
    have hw := hW (e.sq - s.thr)
    unfold nextSt at hw
    rw [← htgt] at hw
    by_cases hconv : isConverged (provide (getNext r0).1 s.base.tgt (e.sq - s.thr)) 1 = true
    · exfalso
      have h2 : ¬ c.n < 2 := by omega
      simp only [hconv, if_true, doJump, initBaths, h2, if_false, htk1, Except.ok.injEq, Prod.mk.injEq] at hok
      obtain ⟨e1, _⟩ := hok
      subst e1
      simp at hs'
    · cases h with
      | zero => exact absurd hw hconv
      | succ h' =>
        refine ⟨by omega, ?_⟩
        rcases hw with hw | hw
        · exact absurd hw hconv
        · simp only [hconv, Bool.false_eq_true, if_false] at hok
          by_cases hz : divZero (provide (getNext r0).1 s.base.tgt (e.sq - s.thr)) = true
          · simp [hz] at hok
          · simp only [hz, Bool.false_eq_true, if_false, Except.ok.injEq, Prod.mk.injEq] at hok
            obtain ⟨e1, _⟩ := hok
            subst e1
            intro r' hr'
            simp only [Option.some.injEq] at hr'
            subst hr'
            exact ⟨_, rfl, rfl, by simpa using hw⟩

theorem term_aux_search (c : Cfg α) (hc : GridOk c) (K : Nat) :
    ∀ (es : List (Env α)) (s : NSt α) (J h : Nat), NInv c s → WInv s h → h ≤ K →
      SearchGrid c s.base.step K → (jumps (nrun c es s).1).length ≤ J →
      (c.nsteps - s.base.step)
        + (if s.rf.isSome = true then J * (K + 2) + (h + 1) else (J + 1) * (K + 2))
        ≤ es.length →
      (nrun c es s).2.2 ≠ .tapeOut
  | [], s, J, h, _, _, _, _, _, hlen => by
    exfalso
    have e1 : (J + 1) * (K + 2) = J * (K + 2) + (K + 2) := Nat.succ_mul _ _
    split at hlen <;> simp at hlen <;> omega
  | e :: es, s, J, h, hi, hf, hh, hF, hJ, hlen => by
    by_cases hfin : finished c s.base = true
    · rw [nrun_finished c e es s hfin]; simp
    · have hf' : finished c s.base = false := by simpa using hfin
      have hlive := (not_finished_iff c s.base).mp hf'
      rcases nstep_cases c hc s e hi hlive with ⟨err, hs, _⟩ | ⟨s1, evs, hs, hi1, _, ho⟩
      · rw [nrun_error c e es s err hf' hs]; simp
      · obtain ⟨evs1, hnsc⟩ := nstep_ok_nsc c hc s e hi s1 evs hs
        obtain ⟨hfa, hfb⟩ := nsc_search c hc s e hi hlive K h hF hf s1 evs1 hnsc
        rw [nrun_ok c e es s s1 evs hf' hs] at hJ ⊢
        simp only [jumps_append, List.length_append] at hJ
        simp only [List.length_cons] at hlen
        have e1 : (J + 1) * (K + 2) = J * (K + 2) + (K + 2) := Nat.succ_mul _ _
        cases ho with
        | done h0 h1' hstep _ hj _ _ =>
          rw [hj] at hJ
          have hF1 : SearchGrid c s1.base.step K := searchGrid_mono c _ _ K hF (by omega)
          apply term_aux_search c hc K es s1 J 0 hi1 (fun r hr => by rw [h1'] at hr; simp at hr)
            (Nat.zero_le _) hF1 (by simpa using hJ)
          simp only [h0, h1', Option.isSome_none, Bool.false_eq_true, if_false] at hlen ⊢
          omega
        | opened h0 h1' hstep _ hj _ _ =>
          rw [hj] at hJ
          have hF1 : SearchGrid c s1.base.step K := by rw [hstep]; exact hF
          apply term_aux_search c hc K es s1 J K hi1 (hfa h0) (le_refl _) hF1 (by simpa using hJ)
          simp only [h0, h1', Option.isSome_none, Bool.false_eq_true, if_false, if_true] at hlen ⊢
          omega
        | cont h0 h1' hstep _ hj _ _ =>
          rw [hj] at hJ
          obtain ⟨hge, hf1⟩ := hfb h0 h1'
          have hF1 : SearchGrid c s1.base.step K := by rw [hstep]; exact hF
          apply term_aux_search c hc K es s1 J (h - 1) hi1 hf1 (by omega) hF1 (by simpa using hJ)
          simp only [h0, h1', if_true] at hlen ⊢
          omega
        | jumped h0 h1' hstep _ hj _ _ =>
          rw [hj] at hJ
          simp only [List.length_singleton] at hJ
          obtain ⟨J', rfl⟩ : ∃ J', J = J' + 1 := ⟨J - 1, by omega⟩
          have hF1 : SearchGrid c s1.base.step K := by rw [hstep]; exact hF
          apply term_aux_search c hc K es s1 J' 0 hi1 (fun r hr => by rw [h1'] at hr; simp at hr)
            (Nat.zero_le _) hF1 (by omega)
          have e2 : (J' + 1) * (K + 2) = J' * (K + 2) + (K + 2) := Nat.succ_mul _ _
          simp only [h0, h1', Option.isSome_none, Bool.false_eq_true, if_false, if_true] at hlen ⊢
          omega

/-- **The run terminates if it has finitely many jumps**, given a search budget `K` on the
remaining steps: with at most `J` jumps it needs at most `(remaining steps) + (J+1)(K+2)` sweeps —
it then reports `done` or has raised. -/
theorem terminates_of_jump_budget (c : Cfg α) (hc : GridOk c) (K J : Nat) (es : List (Env α))
    (s : NSt α) (hi : NInv c s) (hrf : s.rf = none) (hF : SearchGrid c s.base.step K)
    (hJ : (jumps (nrun c es s).1).length ≤ J)
    (hlen : (c.nsteps - s.base.step) + (J + 1) * (K + 2) ≤ es.length) :
    (nrun c es s).2.2 ≠ .tapeOut := by
  apply term_aux_search c hc K es s J 0 hi (fun r hr => by rw [hrf] at hr; simp at hr) (Nat.zero_le _) hF hJ
  simp only [hrf, Option.isSome_none, Bool.false_eq_true, if_false]
  exact hlen

/-- … on steps that start after t = 0: `K = n(2m+2)`; no forced-bisection guard. -/
theorem terminates_pos_of_jump_budget (c : Cfg α) (hc : GridOk c) (m n J : Nat) (es : List (Env α))
    (s : NSt α) (hi : NInv c s) (hrf : s.rf = none) (hF : PosGrid c s.base.step m n)
    (hJ : (jumps (nrun c es s).1).length ≤ J)
    (hlen : (c.nsteps - s.base.step) + (J + 1) * (iterBound m n + 2) ≤ es.length) :
    (nrun c es s).2.2 ≠ .tapeOut :=
  terminates_of_jump_budget c hc _ J es s hi hrf (posGrid_search c _ m n hF) hJ hlen

/-- **Every open search closes**: with potential `h` the jump is there after at most `h + 1`
further sweeps, or the run raised (`ZeroDivisionError` in the interpolation) — whatever the norms. -/
theorem search_closes (c : Cfg α) (hc : GridOk c) (K : Nat) :
    ∀ (h : Nat) (es : List (Env α)) (s : NSt α), NInv c s → WInv s h → s.rf.isSome = true →
      SearchGrid c s.base.step K → h + 1 ≤ es.length →
      jumps (nrun c (es.take (h + 1)) s).1 ≠ [] ∨ ∃ err, (nrun c (es.take (h + 1)) s).2.2 = .err err
  | h, [], s, _, _, _, _, hlen => by simp at hlen
  | h, e :: es, s, hi, hf, hopen, hF, hlen => by
    have hlive : s.base.step < c.nsteps := by
      by_contra hge
      have := hi.fin (by omega)
      rw [this] at hopen; simp at hopen
    have hf' : finished c s.base = false := (not_finished_iff c s.base).mpr hlive
    simp only [List.take_succ_cons]
    rcases nstep_cases c hc s e hi hlive with ⟨err, hs, _⟩ | ⟨s1, evs, hs, hi1, _, ho⟩
    · right; exact ⟨err, by rw [nrun_error c e _ s err hf' hs]⟩
    · obtain ⟨evs1, hnsc⟩ := nstep_ok_nsc c hc s e hi s1 evs hs
      obtain ⟨_, hfb⟩ := nsc_search c hc s e hi hlive K h hF hf s1 evs1 hnsc
      rw [nrun_ok c e _ s s1 evs hf' hs]
      simp only [jumps_append]
      cases ho with
      | done h0 _ _ _ _ _ _ => rw [h0] at hopen; simp at hopen
      | opened h0 _ _ _ _ _ _ => rw [h0] at hopen; simp at hopen
      | jumped _ _ _ _ hj _ _ => left; rw [hj]; simp
      | cont h0 h1' hstep _ hj _ _ =>
        obtain ⟨hge, hf1⟩ := hfb h0 h1'
        obtain ⟨h', rfl⟩ : ∃ h', h = h' + 1 := ⟨h - 1, by omega⟩
        have hF1 : SearchGrid c s1.base.step K := by rw [hstep]; exact hF
        simp only [List.length_cons] at hlen
        rcases search_closes c hc K h' es s1 hi1 (by simpa using hf1) h1' hF1 (by omega) with h | h
        · left; rw [hj]; simpa using h
        · right; exact h

/-- … on a step with `0 < t_k` -/
theorem search_closes_pos (c : Cfg α) (hc : GridOk c) (m n h : Nat) (es : List (Env α)) (s : NSt α)
    (hi : NInv c s) (hf : WInv s h) (hopen : s.rf.isSome = true) (hF : PosGrid c s.base.step m n)
    (hlen : h + 1 ≤ es.length) :
    jumps (nrun c (es.take (h + 1)) s).1 ≠ [] ∨ ∃ err, (nrun c (es.take (h + 1)) s).2.2 = .err err :=
  search_closes c hc _ h es s hi hf hopen (posGrid_search c _ m n hF) hlen

/-- the opening sweep establishes the potential `K` (so a search lasts at most `K + 2` sweeps
including the opening one) -/
theorem opening_sets_potential (c : Cfg α) (hc : GridOk c) (K : Nat) (s s1 : NSt α) (e : Env α)
    (evs : List (Rec α)) (hi : NInv c s) (hlive : s.base.step < c.nsteps) (hrf : s.rf = none)
    (hF : SearchGrid c s.base.step K) (h : nstep c s e = .ok (s1, evs)) :
    WInv s1 K := by
  obtain ⟨evs1, hnsc⟩ := nstep_ok_nsc c hc s e hi s1 evs h
  exact (nsc_search c hc s e hi hlive K 0 hF (fun r hr => by rw [hrf] at hr; simp at hr) s1 evs1 hnsc).1 hrf

/-- **The whole run from `init()`**, first step included: on a grid `0 = t₀ ≤ t₁ ≤ …` with
`2·t_{k+1} ≤ 2^m` and steps shorter than `2^n`, a run with at most `J` jumps has ended (`done`, or
an exception) once `1 + steps + (J+1)(n(2m+5)+2)` tape entries are available. The only liveness
hypothesis left is `hJ`: finitely many jumps. -/
theorem run_terminates_of_jump_budget (c : Cfg α) (hc : GridOk c) (h1 : 1 ≤ c.nsteps)
    (h0 : c.times[0]? = some 0) (m n J : Nat) (hF : NonnegGrid c 0 m n) (e : Env α) (es : List (Env α))
    (hJ : (jumps (nrunFromInit c (e :: es)).1).length ≤ J)
    (hlen : c.nsteps + (J + 1) * (iterBound0 m n + 2) ≤ es.length) :
    (nrunFromInit c (e :: es)).2 ≠ .tapeOut := by
  obtain ⟨s, evs, hi, hinv, _, hj, hs, hrf, _⟩ := ninit_inv c hc h1 h0 e
  have hS : SearchGrid c s.base.step (iterBound0 m n) := by
    rw [hs]; exact nonnegGrid_search c 0 m n hF
  have hJ' : (jumps (nrun c es s).1).length ≤ J := by
    simpa [nrunFromInit, hi, jumps_append, hj] using hJ
  have := terminates_of_jump_budget c hc _ J es s hinv hrf hS hJ' (by rw [hs]; simpa using hlen)
  simpa [nrunFromInit, hi] using this

/-! ### Non-vacuity -/

/-- a grid with a long second step, 10 → 1000 ns: outside C18's `ForcedGrid` … -/
example : ¬ ForcedGrid (⟨3, 2, [0, 10, 1000], true⟩ : Cfg ℚ) 1 20 := by
  intro h
  have := (h 1 10 1000 (le_refl _) (by simp) (by simp)).2.1
  norm_num at this

/-- … but `PosGrid` from step 1 on with m = 7, n = 10 (searches last ≤ 160 + 2 sweeps) -/
example : PosGrid (⟨3, 2, [0, 10, 1000], true⟩ : Cfg ℚ) 1 7 10 := by
  intro k tk tk1 hk h1 h2
  match k with
  | 0 => omega
  | 1 => simp at h1 h2; subst h1; subst h2; norm_num
  | k + 2 => simp at h2

/-- the uniform 10 ns grid from step 1 on: m = 1, n = 4 -/
example : PosGrid (⟨3, 3, [0, 10, 20, 30], true⟩ : Cfg ℚ) 1 1 4 := by
  intro k tk tk1 hk h1 h2
  match k with
  | 0 => omega
  | 1 => simp at h1 h2; subst h1; subst h2; norm_num
  | 2 => simp at h1 h2; subst h1; subst h2; norm_num
  | k + 3 => simp at h2

/-- … and it fails for the first step (bracket touching 0): this is what is left open -/
example : ¬ PosGrid (⟨3, 3, [0, 10, 20, 30], true⟩ : Cfg ℚ) 0 1 4 := by
  intro h
  have := (h 0 0 10 (le_refl _) (by simp) (by simp)).1
  exact lt_irrefl _ this

/-- the whole uniform 10 ns grid, first step included: `NonnegGrid` from step 0 with m = 6
(2·30 ≤ 64), n = 4 (10 < 16): every search lasts at most 4·17 + 2 = 70 sweeps -/
example : NonnegGrid (⟨3, 3, [0, 10, 20, 30], true⟩ : Cfg ℚ) 0 6 4 := by
  intro k tk tk1 hk h1 h2
  match k with
  | 0 => simp at h1 h2; subst h1; subst h2; norm_num
  | 1 => simp at h1 h2; subst h1; subst h2; norm_num
  | 2 => simp at h1 h2; subst h1; subst h2; norm_num
  | k + 3 => simp at h2

example : iterBound0 6 4 + 2 = 70 := by decide

end EmuVerif.Props.C18Term
