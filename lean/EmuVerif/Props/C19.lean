/-
  C19 — Brent root finding terminates inside the bracket at a sign change.

  Statement (properties.jsonl): for any function with opposite signs at the two ends of an
  interval, the root finder terminates; it only queries points inside the interval and
  returns a point within the tolerance of a sign change; feeding evaluations back one at a
  time gives the same guarantee.

  All theorems are about `Model.Brent` (tied to `brents_root_finding.py` by the bit-exact
  correspondence check) read over an arbitrary linear ordered field, for *every* ordinate
  sequence (the ordinates are universally quantified, so discontinuous and adversarial
  functions are covered).

  Proved here, at full strength:
    * `queries_in_bracket`        – every queried abscissa lies in `[start, end]`;
    * `bracket_kept`              – after any number of steps `f a · f b ≤ 0`, `|f b| ≤ |f a|`,
                                    the bracket is inside `[start, end]` and never wider;
    * `returned_point_at_sign_change` – on return `|b − a| < tol`, `f a · f b ≤ 0`, and both are
                                    points of the initial interval (`b` is the returned guess);
    * `one_at_a_time_same`        – the `get_next_abscissa`/`provide_ordinate` protocol driven
                                    with the values of `f` is the loop of `find_root_brents`.
  Termination:
    * `terminates_forced_bisection` – explicit step bound when `0 < L ≤ bracket ≤ H` and
      `H − L < 2·ε·L` (every step is then a bisection). This covers the noisy solver's calls
      (ε = 1) for every bracket with `0 < start` and `end < 3·start`.
    * The unguarded claim ("terminates for every bracket and ordinate sequence") is stated as
      `TerminatesAlways` and is **not** proved: in exact arithmetic it is false for brackets
      touching 0 (δ = 2ε|b| → 0), and in binary64 it holds only by exhaustion of the float
      grid, which no ordered-field theorem can express. Labelled partial.
-/
import EmuVerif.Proofs.Brent

set_option linter.unusedSectionVars false

namespace EmuVerif.Props.C19
open EmuVerif EmuVerif.Brent

variable {α : Type} [Field α] [LinearOrder α] [IsStrictOrderedRing α]

/-- Everything the loop maintains, relative to the initial interval `[L, H]` and width `w`. -/
structure Good (L H w : α) (s : St α) : Prop where
  inv : Inv s
  loL : L ≤ lo s
  hiH : hi s ≤ H
  width : |s.b - s.a| ≤ w

theorem good_step {L H w : α} (s : St α) (y : α) (h : Good L H w s) :
    Good L H w (provide (getNext s).1 (getNext s).2 y) ∧ L ≤ (getNext s).2 ∧ (getNext s).2 ≤ H := by
  have hm := getNext_mem s
  have hlo : lo (getNext s).1 = lo s := by rw [getNext_fst]; rfl
  have hhi : hi (getNext s).1 = hi s := by rw [getNext_fst]; rfl
  have hinv : Inv (getNext s).1 := by
    rw [getNext_fst]; exact ⟨h.inv.sign, h.inv.better⟩
  have hh := provide_hull (getNext s).1 (getNext s).2 y (by rw [hlo, hhi]; exact hm)
  rw [hlo, hhi] at hh
  refine ⟨⟨provide_inv _ _ _ hinv, le_trans h.loL hh.1, le_trans hh.2 h.hiH,
    le_trans (iter_width_le s y) h.width⟩, le_trans h.loL hm.1, le_trans hm.2 h.hiH⟩

theorem good_init {start stop fS fE eps : α} {s : St α}
    (h : init start stop fS fE eps = some s) : Good start stop (stop - start) s := by
  obtain ⟨h1, _, hinv, hlo, hhi, _⟩ := init_some h
  refine ⟨hinv, le_of_eq hlo.symm, le_of_eq hhi, ?_⟩
  rw [← width_eq, hlo, hhi]

/-- `runTape` with an accumulator: old queries are kept in front. -/
theorem runTape_acc (tol : α) (ys : List α) (s : St α) (acc : List α) :
    (runTape tol ys s acc).2.1 = acc.reverse ++ (runTape tol ys s []).2.1
    ∧ (runTape tol ys s acc).1 = (runTape tol ys s []).1
    ∧ (runTape tol ys s acc).2.2 = (runTape tol ys s []).2.2 := by
  induction ys generalizing s acc with
  | nil => simp [runTape]
  | cons y ys ih =>
    unfold runTape
    by_cases hc : isConverged s tol = true
    · simp [hc]
    · simp only [hc]
      have h1 := ih (provide (getNext s).1 (getNext s).2 y) ((getNext s).2 :: acc)
      have h2 := ih (provide (getNext s).1 (getNext s).2 y) [(getNext s).2]
      simp only [Bool.false_eq_true, if_false]
      refine ⟨?_, ?_, ?_⟩
      · rw [h1.1, h2.1]; simp
      · rw [h1.2.1, h2.2.1]
      · rw [h1.2.2, h2.2.2]

/-- **Queries stay in the bracket, the bracket keeps its sign change and never widens** —
for every tolerance, every ε and every sequence of ordinates fed back one at a time. -/
theorem tape_good {L H w : α} (tol : α) (ys : List α) (s : St α) (h : Good L H w s) :
    Good L H w (runTape tol ys s []).1 ∧ ∀ x ∈ (runTape tol ys s []).2.1, L ≤ x ∧ x ≤ H := by
  induction ys generalizing s with
  | nil => simp [runTape, h]
  | cons y ys ih =>
    unfold runTape
    by_cases hc : isConverged s tol = true
    · simp [hc, h]
    · simp only [hc, Bool.false_eq_true, if_false]
      obtain ⟨hg, hx⟩ := good_step s y h
      obtain ⟨ihg, ihx⟩ := ih _ hg
      obtain ⟨a1, a2, _⟩ := runTape_acc tol ys (provide (getNext s).1 (getNext s).2 y) [(getNext s).2]
      rw [a2]
      refine ⟨ihg, ?_⟩
      rw [a1]
      intro x hxm
      simp only [List.reverse_cons, List.reverse_nil, List.nil_append, List.singleton_append,
        List.mem_cons] at hxm
      rcases hxm with e | hxm
      · rw [e]; exact hx
      · exact ihx x hxm

theorem queries_in_bracket {start stop fS fE eps tol : α} {s0 : St α}
    (h : init start stop fS fE eps = some s0) (ys : List α) :
    ∀ x ∈ (runTape tol ys s0 []).2.1, start ≤ x ∧ x ≤ stop :=
  (tape_good tol ys s0 (good_init h)).2

theorem bracket_kept {start stop fS fE eps tol : α} {s0 : St α}
    (h : init start stop fS fE eps = some s0) (ys : List α) :
    let s := (runTape tol ys s0 []).1
    s.fa * s.fb ≤ 0 ∧ |s.fb| ≤ |s.fa| ∧ start ≤ min s.a s.b ∧ max s.a s.b ≤ stop
      ∧ |s.b - s.a| ≤ stop - start := by
  obtain ⟨g, _⟩ := tape_good tol ys s0 (good_init h)
  exact ⟨g.inv.sign, g.inv.better, g.loL, g.hiH, g.width⟩

/-! ### The loop of `find_root_brents` -/

theorem findRoot_spec (f : α → α) (tol : α) {L H w : α} :
    ∀ (fuel : Nat) (s : St α) (acc : List α) (r : St α × List α),
      Good L H w s → Tracks f s → findRoot f tol fuel s acc = some r →
      Good L H w r.1 ∧ Tracks f r.1 ∧ |r.1.b - r.1.a| < tol
  | 0, _, _, _, _, _, h => by simp [findRoot] at h
  | fuel + 1, s, acc, r, hg, ht, h => by
    unfold findRoot at h
    by_cases hc : isConverged s tol = true
    · simp only [hc, if_true, Option.some.injEq] at h
      subst h
      refine ⟨hg, ht, ?_⟩
      simpa [isConverged, absv_eq_abs] using hc
    · simp only [hc, Bool.false_eq_true, if_false] at h
      have hg' := (good_step s (f (getNext s).2) hg).1
      have ht' : Tracks f (provide (getNext s).1 (getNext s).2 (f (getNext s).2)) := by
        apply provide_tracks
        rw [getNext_fst]; exact ht
      exact findRoot_spec f tol fuel _ _ r hg' ht' h

/-- **On return the guess is within `tol` of a sign change inside the initial interval.**
`r.1.b` is `current_guess`; `r.1.a` is the other end of the final bracket. -/
theorem returned_point_at_sign_change (f : α → α) {start stop eps tol : α} {s0 : St α}
    (h : init start stop (f start) (f stop) eps = some s0) (fuel : Nat) (r : St α × List α)
    (hr : findRoot f tol fuel s0 [] = some r) :
    |r.1.b - r.1.a| < tol ∧ f r.1.a * f r.1.b ≤ 0
      ∧ start ≤ r.1.b ∧ r.1.b ≤ stop ∧ start ≤ r.1.a ∧ r.1.a ≤ stop := by
  have ht : Tracks f s0 := by
    obtain ⟨_, _, _, _, _, _, _, _, hc⟩ := init_some h
    rcases hc with ⟨a, b, c, d⟩ | ⟨a, b, c, d⟩
    · exact ⟨by rw [c, a], by rw [d, b]⟩
    · exact ⟨by rw [c, a], by rw [d, b]⟩
  obtain ⟨g, t, hw⟩ := findRoot_spec f tol fuel s0 [] r (good_init h) ht hr
  refine ⟨hw, ?_, ?_, ?_, ?_, ?_⟩
  · rw [← t.1, ← t.2]; exact g.inv.sign
  · exact le_trans g.loL (min_le_right _ _)
  · exact le_trans (le_max_right _ _) g.hiH
  · exact le_trans g.loL (min_le_left _ _)
  · exact le_trans (le_max_left _ _) g.hiH

/-- **One-at-a-time protocol = the loop.** Whatever `find_root_brents` returns is what the
tape-driven protocol returns when it is fed the values of `f` at the abscissae it asked for,
and it reports convergence. -/
theorem one_at_a_time_same (f : α → α) (tol : α) :
    ∀ (fuel : Nat) (s : St α) (acc : List α) (r : St α × List α),
      findRoot f tol fuel s acc = some r →
      ∃ ys : List α, runTape tol ys s acc = (r.1, r.2, true)
  | 0, _, _, _, h => by simp [findRoot] at h
  | fuel + 1, s, acc, r, h => by
    unfold findRoot at h
    by_cases hc : isConverged s tol = true
    · simp only [hc, if_true, Option.some.injEq] at h
      subst h
      exact ⟨[], by simp [runTape, hc]⟩
    · simp only [hc, Bool.false_eq_true, if_false] at h
      obtain ⟨ys, hys⟩ := one_at_a_time_same f tol fuel _ _ r h
      refine ⟨f (getNext s).2 :: ys, ?_⟩
      unfold runTape
      simp only [hc, Bool.false_eq_true, if_false]
      exact hys

/-! ### Termination when bisection is forced -/

/-- Hypotheses under which the five-clause test always selects bisection:
the whole history (`a`, `b`, and the previous iterate `c`) lives in `[L, H]` with `0 < L`
and `H − L < 2·ε·L`, and the last step was a bisection (true initially). -/
structure Forced (L H : α) (s : St α) : Prop where
  posL : 0 < L
  narrow : H - L < 2 * s.eps * L
  epsPos : 0 < s.eps
  loL : L ≤ lo s
  hiH : hi s ≤ H
  cL : L ≤ s.c
  cH : s.c ≤ H
  bis : s.bisection = true

theorem forced_bisects {L H : α} (s : St α) (h : Forced L H s) (dx : α) :
    useBisect s dx = true := by
  have hbL : L ≤ s.b := le_trans h.loL (min_le_right _ _)
  have hbH : s.b ≤ H := le_trans (le_max_right _ _) h.hiH
  have hb0 : 0 < s.b := lt_of_lt_of_le h.posL hbL
  have hdelta : |s.b - s.c| < |2 * s.eps * s.b| := by
    have h1 : |s.b - s.c| ≤ H - L := by
      rw [abs_le]; constructor <;> linarith [h.cL, h.cH]
    have h2 : 0 < 2 * s.eps * s.b := by have := h.epsPos; positivity
    rw [abs_of_pos h2]
    have : 2 * s.eps * L ≤ 2 * s.eps * s.b := by
      have := h.epsPos
      exact mul_le_mul_of_nonneg_left hbL (by positivity)
    linarith [h.narrow]
  simp only [useBisect_eq, useBisect5, absv_eq_abs, h.bis, Bool.true_and, Bool.not_true, Bool.false_and,
    Bool.or_false, Bool.or_eq_true, decide_eq_true_eq]
  right; exact hdelta

theorem forced_step {L H : α} (s : St α) (y : α) (h : Forced L H s) :
    Forced L H (provide (getNext s).1 (getNext s).2 y)
    ∧ |(provide (getNext s).1 (getNext s).2 y).b - (provide (getNext s).1 (getNext s).2 y).a|
        = |s.b - s.a| / 2 := by
  have hb := forced_bisects s h (interpDx s)
  have hm := getNext_mem s
  have hlo : lo (getNext s).1 = lo s := by rw [getNext_fst]; rfl
  have hhi : hi (getNext s).1 = hi s := by rw [getNext_fst]; rfl
  have hh := provide_hull (getNext s).1 (getNext s).2 y (by rw [hlo, hhi]; exact hm)
  rw [hlo, hhi] at hh
  refine ⟨⟨h.posL, ?_, ?_, le_trans h.loL hh.1, le_trans hh.2 h.hiH, ?_, ?_, ?_⟩,
    iter_width_bisect s y hb⟩
  · rw [provide_eps, getNext_fst]; exact h.narrow
  · rw [provide_eps, getNext_fst]; exact h.epsPos
  · rw [provide_c, getNext_fst]; exact le_trans h.loL (min_le_right _ _)
  · rw [provide_c, getNext_fst]; exact le_trans (le_max_right _ _) h.hiH
  · rw [provide_bisection, getNext_fst]; exact hb

/-- **Termination with an explicit bound.** Under `Forced`, if the bracket width is below
`tol·2ⁿ` then `n+1` units of fuel suffice — for every `f`. -/
theorem terminates_forced_bisection (f : α → α) (tol : α) {L H : α} :
    ∀ (n : Nat) (s : St α) (acc : List α), Forced L H s → |s.b - s.a| < tol * 2 ^ n →
      ∃ r, findRoot f tol (n + 1) s acc = some r
  | 0, s, acc, _, hw => by
    refine ⟨(s, acc.reverse), ?_⟩
    unfold findRoot
    have : isConverged s tol = true := by
      simpa [isConverged, absv_eq_abs] using hw
    simp [this]
  | n + 1, s, acc, hf, hw => by
    unfold findRoot
    by_cases hc : isConverged s tol = true
    · exact ⟨(s, acc.reverse), by simp [hc]⟩
    · simp only [hc, Bool.false_eq_true, if_false]
      obtain ⟨hf', hw'⟩ := forced_step s (f (getNext s).2) hf
      apply terminates_forced_bisection f tol n _ _ hf'
      rw [hw']
      have : tol * 2 ^ (n + 1) = tol * 2 ^ n * 2 := by ring
      rw [this] at hw
      linarith

/-- The hypotheses of the termination theorem hold right after `__init__` for any bracket with
`0 < start` and `end − start < 2·ε·start` (for the noisy solver, ε = 1: `end < 3·start`). -/
theorem forced_init {start stop fS fE eps : α} {s : St α}
    (h : init start stop fS fE eps = some s) (hpos : 0 < start) (heps : 0 < eps)
    (hn : stop - start < 2 * eps * start) : Forced start stop s := by
  obtain ⟨h1, _, _, hlo, hhi, he, hb, hc, _⟩ := init_some h
  refine ⟨hpos, by rw [he]; exact hn, by rw [he]; exact heps, le_of_eq hlo.symm, le_of_eq hhi,
    ?_, ?_, hb⟩
  · rw [hc, ← hlo]; exact min_le_left _ _
  · rw [hc, ← hhi]; exact le_max_left _ _

/-- The full termination clause of the property, as a statement. It is **not** proved (see the
header): only `terminates_forced_bisection` is. -/
def TerminatesAlways (α : Type) [Field α] [LinearOrder α] [IsStrictOrderedRing α] : Prop :=
  ∀ (f : α → α) (start stop eps tol : α) (s0 : St α), 0 < tol → 0 < eps →
    init start stop (f start) (f stop) eps = some s0 →
    ∃ fuel r, findRoot f tol fuel s0 [] = some r

/-! ### Non-vacuity: concrete instances of the hypotheses (ℚ) -/

example : (init (1 : ℚ) 2 (-1) 3 1).isSome = true := by decide +kernel

example : ∀ s, init (1 : ℚ) 2 (-1) 3 1 = some s → Forced 1 2 s := fun _ h =>
  forced_init h (by norm_num) (by norm_num) (by norm_num)

/-- the asserts reject a bracket without sign change -/
example : init (1 : ℚ) 2 1 3 1 = none := by decide +kernel

end EmuVerif.Props.C19
