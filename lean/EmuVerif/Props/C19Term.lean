/-
  C19 (termination clause) — Brent root finding terminates with an explicit iteration bound on
  every bracket with `0 < start` (bound in terms of stop/start) or `0 ≤ start` (bound in terms of
  stop/tol) when ε ≥ 1/2 (the noisy solver uses ε = 1), for EVERY ordinate sequence; and why
  neither hypothesis (no negative abscissae, ε not small) can be dropped.

  `Props/C19.lean` proves termination only when bisection is forced at every step
  (`terminates_forced_bisection`: `H − L < 2 ε L`). Here interpolated steps are allowed.

  Proved (any linear ordered field, any ordinates — `Within` quantifies over the ordinate fed
  back at each iteration separately, so "adversarial functions" and non-functions are covered):
    * `within_pos_bracket`     – `0 < start`, `1 ≤ 2ε`, `stop ≤ start·(2ε)^m`, `stop − start < tol·2^n`
                                 ⇒ converged after at most `N = n·(2m+2)` iterations;
    * `terminates_pos_bracket` – … so `find_root_brents` returns with `N + 1` units of fuel, for every `f`;
    * `tape_converges_pos_bracket` – … and the one-at-a-time protocol reports convergence on every
                                 tape of ≥ `N` ordinates;
    * `terminates_away_from_zero` – in an Archimedean field (ℚ, ℝ): `TerminatesAlways` restricted to
                                 `0 < start` and `1 < 2ε` holds (some fuel always suffices).
      For the solver (ε = 1, tol = 1, bracket [t_k, t_{k+1}], t_k > 0): m = ⌈log₂(t_{k+1}/t_k)⌉,
      n = ⌊log₂(t_{k+1} − t_k)⌋ + 1; e.g. [10, 1000]: m = 7, n = 10, N = 160.
    * Why the run of interpolated steps is short: an interpolated step directly after another one
      needs `|c − d| ≥ δ = 2ε|b|`, and `|c − d| < max c d` for positive `c, d`
      (`Brent.interp_needs_small_b`); so `max(c, d)` shrinks by `2ε` every second step
      (`Brent.run_within`): at most `2m + 1` iterations between two bisections.

  What is NOT true, with kernel-checked witnesses (the hypotheses cannot simply be dropped):
    * ε < 1/2 (`overshoot_run_eps_quarter`): on [10, 1000] with ε = 1/4, tol = 1 there are ordinate
      tapes (alternating sign, each ordinate 1000× the previous: every new point "overshoots"
      |f(a)|, so `provide_ordinate` swaps the ends and `|c − d|` stays of the order of the width)
      along which 120 iterations do not converge; `no_uniform_bound_eps_quarter` proves it for
      every N (growth factor 4N+4: each step removes only 1/(4N+5) of the bracket, `Brent.over_step`):
      no bound in terms of (L, H, ε, tol) alone exists for ε = 1/4. With the solver's ε = 1 the very
      same tape converges in 16 iterations (`overshoot_run_eps_one`; bound 160).
    * bracket with 0 inside (`creeping_never_terminates`, proved for every amount of fuel in every
      ordered field; hence `terminatesAlways_false : ¬ C19.TerminatesAlways α`): f(x) = x/(8 + x)/8 on
      [−4, 1], ε = 1, tol = 1 — smooth and increasing — makes the secant step exactly `−b/2`; it is
      accepted for ever (`|dx| < |c − d|/2 = b`, `|c − d| = 2b = δ`), `b` creeps towards 0 as `2^{-j}` and
      `a = −4` never moves: width > 4 ≥ tol. (`creeping_zero_inside`: the first 200 iterations by
      kernel computation over ℚ. In binary64 `b` underflows to 0 after 1066 iterations and the loop
      stops — observed on the real class.)
    * `within_nonneg_bracket`, `terminates_nonneg_bracket`, `tape_converges_nonneg_bracket`,
      `solver_search_bound0`, `terminates_nonneg` – the same for `0 ≤ start` (brackets *touching* 0, e.g. the
      first step of a noisy run): `1 ≤ 2ε`, `0 < θ < tol`, `stop ≤ θ·(2ε)^m`, `stop − start < tol·2^n` ⇒ at most
      `n·(2m+5)` iterations (`Brent.nonneg_within`: once `max(c,d) ≤ θ < tol`, an unconverged bracket has
      `a > b`, `b` cannot decrease, and three more accepted steps make `c = d`, which forces a bisection).
  Still open: termination (without a uniform bound) for ε < 1/2; the vacuous case ε = 1/2.
-/
import EmuVerif.Props.C19
import EmuVerif.Proofs.BrentTerm0
import EmuVerif.Proofs.BrentCreep
import EmuVerif.Proofs.BrentOvershoot
import Mathlib.Algebra.Order.Archimedean.Basic

set_option linter.unusedSectionVars false

namespace EmuVerif.Props.C19Term
open EmuVerif EmuVerif.Brent

variable {α : Type} [Field α] [LinearOrder α] [IsStrictOrderedRing α]

/-- The iteration bound: `n` halvings are needed, and between two bisections there are at most
`2m + 1` interpolated steps. -/
def iterBound (m n : Nat) : Nat := n * (2 * m + 2)

/-- **Every ordinate sequence**: from the state built by `__init__` on a bracket with
`0 < start`, the loop has converged after at most `iterBound m n` iterations, whatever ordinate
is fed back at each of them. -/
theorem within_pos_bracket {start stop fS fE eps tol : α} {s0 : St α} (m n : Nat)
    (h : init start stop fS fE eps = some s0) (hpos : 0 < start) (heps : 1 ≤ 2 * eps)
    (hm : stop ≤ start * (2 * eps) ^ m) (hn : stop - start < tol * 2 ^ n) :
    Within tol (iterBound m n) s0 := by
  have hp := posB_init h hpos
  obtain ⟨_, _, _, hlo, hhi, _⟩ := init_some h
  apply pos_within tol heps m hm n s0 hp
  rw [← width_eq, hlo, hhi]
  exact hn

/-- **`find_root_brents` terminates** on such a bracket, for every function `f`, within
`iterBound m n + 1` evaluations of the loop condition. -/
theorem terminates_pos_bracket (f : α → α) {start stop eps tol : α} {s0 : St α} (m n : Nat)
    (h : init start stop (f start) (f stop) eps = some s0) (hpos : 0 < start) (heps : 1 ≤ 2 * eps)
    (hm : stop ≤ start * (2 * eps) ^ m) (hn : stop - start < tol * 2 ^ n) :
    ∃ r, findRoot f tol (iterBound m n + 1) s0 [] = some r :=
  findRoot_of_within f tol _ s0 [] (within_pos_bracket m n h hpos heps hm hn)

/-- **The one-at-a-time protocol converges** on every ordinate tape of at least `iterBound m n`
entries (the ordinates need not come from a function). -/
theorem tape_converges_pos_bracket {start stop fS fE eps tol : α} {s0 : St α} (m n : Nat)
    (h : init start stop fS fE eps = some s0) (hpos : 0 < start) (heps : 1 ≤ 2 * eps)
    (hm : stop ≤ start * (2 * eps) ^ m) (hn : stop - start < tol * 2 ^ n)
    (ys : List α) (hlen : iterBound m n ≤ ys.length) :
    (runTape tol ys s0 []).2.2 = true :=
  runTape_of_within tol _ ys s0 [] (within_pos_bracket m n h hpos heps hm hn) hlen

/-- The solver's parameters (ε = 1, tolerance 1): a search on `[tk, tk1]`, `0 < tk`,
`tk1 ≤ tk·2^m`, `tk1 − tk < 2^n` needs at most `n(2m+2)` further abscissae. -/
theorem solver_search_bound {tk tk1 fS fE : α} {s0 : St α} (m n : Nat)
    (h : init tk tk1 fS fE 1 = some s0) (hpos : 0 < tk)
    (hm : tk1 ≤ tk * 2 ^ m) (hn : tk1 - tk < 2 ^ n) :
    Within 1 (iterBound m n) s0 := by
  apply within_pos_bracket m n h hpos (by norm_num)
  · rw [show (2 : α) * 1 = 2 by norm_num]; exact hm
  · rw [one_mul]; exact hn

/-- The termination clause of C19 restricted to brackets away from 0 and `ε > 1/2`. -/
def TerminatesAwayFromZero (α : Type) [Field α] [LinearOrder α] [IsStrictOrderedRing α] : Prop :=
  ∀ (f : α → α) (start stop eps tol : α) (s0 : St α), 0 < tol → 1 < 2 * eps → 0 < start →
    init start stop (f start) (f stop) eps = some s0 →
    ∃ fuel r, findRoot f tol fuel s0 [] = some r

/-- **It holds in every Archimedean ordered field** (ℚ, ℝ): the exponents `m`, `n` exist. -/
theorem terminates_away_from_zero [Archimedean α] : TerminatesAwayFromZero α := by
  intro f start stop eps tol s0 htol heps hpos h
  obtain ⟨m, hm⟩ := pow_unbounded_of_one_lt (stop / start) heps
  obtain ⟨n, hn⟩ := pow_unbounded_of_one_lt ((stop - start) / tol) (by norm_num : (1 : α) < 2)
  refine ⟨iterBound m n + 1, ?_⟩
  apply terminates_pos_bracket f m n h hpos (le_of_lt heps)
  · have := (div_lt_iff₀ hpos).mp hm
    linarith
  · have := (div_lt_iff₀ htol).mp hn
    linarith

/-! ### Brackets touching 0 (`0 ≤ start`): the tolerance replaces the lower end -/

/-- The iteration bound for brackets in `[0, H]`: at most `2m + 4` interpolated steps between two
bisections when `H ≤ θ (2ε)^m`, `θ < tol`. -/
def iterBound0 (m n : Nat) : Nat := n * (2 * m + 5)

/-- **Every ordinate sequence, `0 ≤ start`**: with `1 ≤ 2ε`, `0 < θ < tol`, `stop ≤ θ·(2ε)^m`,
`stop − start < tol·2^n` the loop has converged after at most `iterBound0 m n` iterations. -/
theorem within_nonneg_bracket {start stop fS fE eps tol θ : α} {s0 : St α} (m n : Nat)
    (h : init start stop fS fE eps = some s0) (hpos : 0 ≤ start) (heps : 1 ≤ 2 * eps)
    (hθ0 : 0 < θ) (hθ : θ < tol)
    (hm : stop ≤ θ * (2 * eps) ^ m) (hn : stop - start < tol * 2 ^ n) :
    Within tol (iterBound0 m n) s0 := by
  have hp := nnB_init h hpos
  obtain ⟨_, _, _, hlo, hhi, _⟩ := init_some h
  apply nonneg_within tol heps hθ0 hθ m hm n s0 hp
  rw [← width_eq, hlo, hhi]
  exact hn

/-- `find_root_brents` terminates on every bracket with `0 ≤ start`, for every `f`. -/
theorem terminates_nonneg_bracket (f : α → α) {start stop eps tol θ : α} {s0 : St α} (m n : Nat)
    (h : init start stop (f start) (f stop) eps = some s0) (hpos : 0 ≤ start) (heps : 1 ≤ 2 * eps)
    (hθ0 : 0 < θ) (hθ : θ < tol)
    (hm : stop ≤ θ * (2 * eps) ^ m) (hn : stop - start < tol * 2 ^ n) :
    ∃ r, findRoot f tol (iterBound0 m n + 1) s0 [] = some r :=
  findRoot_of_within f tol _ s0 [] (within_nonneg_bracket m n h hpos heps hθ0 hθ hm hn)

/-- … and so does the one-at-a-time protocol on every tape of at least `iterBound0 m n` ordinates. -/
theorem tape_converges_nonneg_bracket {start stop fS fE eps tol θ : α} {s0 : St α} (m n : Nat)
    (h : init start stop fS fE eps = some s0) (hpos : 0 ≤ start) (heps : 1 ≤ 2 * eps)
    (hθ0 : 0 < θ) (hθ : θ < tol)
    (hm : stop ≤ θ * (2 * eps) ^ m) (hn : stop - start < tol * 2 ^ n)
    (ys : List α) (hlen : iterBound0 m n ≤ ys.length) :
    (runTape tol ys s0 []).2.2 = true :=
  runTape_of_within tol _ ys s0 [] (within_nonneg_bracket m n h hpos heps hθ0 hθ hm hn) hlen

/-- The solver's parameters (ε = 1, tolerance 1, θ = 1/2) on a step `[tk, tk1]` with `0 ≤ tk` — the
first step of a run included: `2·tk1 ≤ 2^m`, `tk1 − tk < 2^n` ⇒ at most `n(2m+5)` abscissae. -/
theorem solver_search_bound0 {tk tk1 fS fE : α} {s0 : St α} (m n : Nat)
    (h : init tk tk1 fS fE 1 = some s0) (hpos : 0 ≤ tk)
    (hm : 2 * tk1 ≤ 2 ^ m) (hn : tk1 - tk < 2 ^ n) :
    Within 1 (iterBound0 m n) s0 := by
  apply within_nonneg_bracket (θ := 1 / 2) m n h hpos (by norm_num) (by norm_num) (by norm_num)
  · rw [show (2 : α) * 1 = 2 by norm_num]; linarith
  · rw [one_mul]; exact hn

/-- The termination clause of C19 restricted to brackets with `0 ≤ start` and `ε > 1/2`. -/
def TerminatesNonneg (α : Type) [Field α] [LinearOrder α] [IsStrictOrderedRing α] : Prop :=
  ∀ (f : α → α) (start stop eps tol : α) (s0 : St α), 0 < tol → 1 < 2 * eps → 0 ≤ start →
    init start stop (f start) (f stop) eps = some s0 →
    ∃ fuel r, findRoot f tol fuel s0 [] = some r

/-- **It holds in every Archimedean ordered field**: `TerminatesAlways` fails only through
brackets with negative abscissae (`terminatesAlways_false`) or `ε ≤ 1/2`. -/
theorem terminates_nonneg [Archimedean α] : TerminatesNonneg α := by
  intro f start stop eps tol s0 htol heps hpos h
  obtain ⟨m, hm⟩ := pow_unbounded_of_one_lt (stop / (tol / 2)) heps
  obtain ⟨n, hn⟩ := pow_unbounded_of_one_lt ((stop - start) / tol) (by norm_num : (1 : α) < 2)
  refine ⟨iterBound0 m n + 1, ?_⟩
  apply terminates_nonneg_bracket (θ := tol / 2) f m n h hpos (le_of_lt heps) (by positivity) (by linarith)
  · have := (div_lt_iff₀ (by positivity : (0 : α) < tol / 2)).mp hm
    linarith
  · have := (div_lt_iff₀ htol).mp hn
    linarith

/-! ### Non-vacuity (ℚ, the solver's ε = 1, tol = 1, bracket [10, 1000]) -/

/-- the first step of a 10 ns grid, [0, 10]: m = 5 (20 ≤ 32), n = 4 (10 < 16): 60 iterations -/
example : ∀ s0, init (0 : ℚ) 10 (1 / 2) (-1 / 3) 1 = some s0 → Within 1 (iterBound0 5 4) s0 := fun _ h =>
  solver_search_bound0 5 4 h (by norm_num) (by norm_num) (by norm_num)

example : (init (0 : ℚ) 10 (1 / 2) (-1 / 3) 1).isSome = true := by decide +kernel
example : iterBound0 5 4 = 60 := by decide

example : (init (10 : ℚ) 1000 (1 / 2) (-1 / 3) 1).isSome = true := by decide +kernel

/-- m = 7 (1000 ≤ 10·2⁷), n = 10 (990 < 2¹⁰): at most 160 iterations for every ordinate sequence -/
example : ∀ s0, init (10 : ℚ) 1000 (1 / 2) (-1 / 3) 1 = some s0 → Within 1 160 s0 := fun _ h =>
  solver_search_bound 7 10 h (by norm_num) (by norm_num) (by norm_num)

example : iterBound 7 10 = 160 := by decide

/-- the bound is not vacuous for a narrow bracket either: [10, 30] is outside the forced-bisection
regime (30 − 10 ≥ 2·10) and gets m = 2, n = 5: 30 iterations -/
example : ∀ s0, init (10 : ℚ) 30 (1 / 2) (-1 / 3) 1 = some s0 → Within 1 (iterBound 2 5) s0 := fun _ h =>
  solver_search_bound 2 5 h (by norm_num) (by norm_num) (by norm_num)

/-! ### The hypotheses cannot be dropped: kernel-checked runs -/

/-- ordinates that alternate in sign and grow by the factor `R`: `y_k = fa₀ · (−R)^(k+1)` -/
def overshootTape (fa0 R : ℚ) (n : Nat) : List ℚ :=
  (List.range n).map (fun k => fa0 * (-R) ^ (k + 1))

/-- tiny ordinates, so that the secant branch (`|fc − fa| < ε`) is taken throughout -/
def tiny : ℚ := 1 / 1000 ^ 130

/-- the state after `__init__` on [10, 1000] with `f(10) = 1000·tiny`, `f(1000) = −tiny` -/
def overshootInit (eps : ℚ) : Option (St ℚ) := init 10 1000 (1000 * tiny) (-tiny) eps

/-- **ε = 1/4: 120 iterations are not enough** on [10, 1000] with tolerance 1. -/
theorem overshoot_run_eps_quarter :
    (overshootInit (1 / 4)).map (fun s => (runTape 1 (overshootTape (1000 * tiny) 1000 120) s []).2.2)
      = some false := by decide +kernel

/-- the bracket is still wider than 870 after those 120 iterations -/
theorem overshoot_run_eps_quarter_width :
    (overshootInit (1 / 4)).map
      (fun s => decide (870 < |((runTape 1 (overshootTape (1000 * tiny) 1000 120) s []).1).b
                              - ((runTape 1 (overshootTape (1000 * tiny) 1000 120) s []).1).a|))
      = some true := by decide +kernel

/-- **ε = 1: the same tape converges after 16 iterations** (bound: 160). -/
theorem overshoot_run_eps_one :
    (overshootInit 1).map (fun s => ((runTape 1 (overshootTape (1000 * tiny) 1000 120) s []).2.1.length,
        (runTape 1 (overshootTape (1000 * tiny) 1000 120) s []).2.2)) = some (16, true) := by
  decide +kernel

/-- "some number of iterations depending only on the bracket, ε and tol suffices for every tape" -/
def UniformBound (start stop eps tol : ℚ) (N : Nat) : Prop :=
  ∀ (fS fE : ℚ) (s0 : St ℚ) (ys : List ℚ), init start stop fS fE eps = some s0 → N ≤ ys.length →
    (runTape tol ys s0 []).2.2 = true

/-- for ε = 1 the bound 160 holds on [10, 1000] … -/
theorem uniformBound_eps_one : UniformBound 10 1000 1 1 160 := fun _ _ _ ys h hl =>
  tape_converges_pos_bracket 7 10 h (by norm_num) (by norm_num) (by norm_num) (by norm_num) ys hl

/-- … and for ε = 1/4 the bound 120 (indeed any bound: lengthen the tape) does not. -/
theorem uniformBound_eps_quarter_false : ¬ UniformBound 10 1000 (1 / 4) 1 120 := by
  intro hU
  have h1 := overshoot_run_eps_quarter
  cases hi : overshootInit (1 / 4) with
  | none => rw [hi] at h1; simp at h1
  | some s =>
    rw [hi] at h1
    simp only [Option.map_some, Option.some.injEq] at h1
    have h2 := hU _ _ s (overshootTape (1000 * tiny) 1000 120) hi (by simp [overshootTape])
    rw [h1] at h2
    exact absurd h2 (by simp)

/-- **ε = 1/4: no bound whatsoever.** For every `N` there are end ordinates and a tape of `N`
ordinates (alternating signs, growing by the factor `4N + 4`, all tiny: `Brent.ovTape`) on
[10, 1000] with tolerance 1 along which the real stepping logic has not converged. -/
theorem no_uniform_bound_eps_quarter (N : Nat) : ¬ UniformBound 10 1000 (1 / 4) 1 N := by
  intro hU
  obtain ⟨hR, hinit, hov⟩ := over_init (α := ℚ) N (4 * (N : ℚ) + 4)
    (1 / (16 * (4 * (N : ℚ) + 4) ^ (N + 1))) rfl rfl
  have h1 := hU _ _ _ (ovTape (4 * (N : ℚ) + 4) ((4 * (N : ℚ) + 4) * (1 / (16 * (4 * (N : ℚ) + 4) ^ (N + 1)))) N)
    hinit (by rw [ovTape_length])
  have h2 := over_run hR N _ [] hov
  rw [h2] at h1
  exact absurd h1 (by simp)

/-! ### Zero inside the bracket: the loop never ends (ε = 1, tolerance 1, smooth increasing f) -/

/-- **`find_root_brents` never returns** for `f(x) = x/(8+x)/8` (`Brent.creepF`: smooth, increasing,
root at 0) on `[−4, 1]` with ε = 1 and tolerance 1, in any ordered field: every step is an accepted
secant step `dx = −b/2` (`Brent.creep_step`), `b = 2^{-j}` creeps towards the root and `a = −4` stays. -/
theorem creeping_never_terminates {s0 : St α}
    (h : init (-4 : α) 1 (creepF (-4)) (creepF 1) 1 = some s0) (fuel : Nat) :
    findRoot creepF 1 fuel s0 [] = none :=
  creep_never fuel s0 [] (creep_init h)

/-- **C19's unguarded termination claim `TerminatesAlways` is false** in every ordered field. -/
theorem terminatesAlways_false : ¬ C19.TerminatesAlways α := by
  intro hT
  obtain ⟨s0, h⟩ := creep_init_some (α := α)
  obtain ⟨fuel, r, hr⟩ := hT creepF (-4) 1 1 1 s0 one_pos one_pos h
  rw [creeping_never_terminates h fuel] at hr
  exact absurd hr (by simp)

/-- the same run computed by the kernel over ℚ: 200 units of fuel are exhausted -/
theorem creeping_zero_inside :
    (init (-4 : ℚ) 1 (creepF (-4)) (creepF 1) 1).map (fun s => (findRoot creepF 1 200 s []).isSome)
      = some false := by decide +kernel

/-- … the iterate after `j + 1` steps is `2^-(j+1)` and the other end is still `−4` (first 12 queries) -/
theorem creeping_zero_inside_queries :
    (init (-4 : ℚ) 1 (creepF (-4)) (creepF 1) 1).map
        (fun s => (runTape 1 ((List.range 12).map (fun j => creepF (1 / 2 ^ (j + 1)))) s []).2.1)
      = some ((List.range 12).map (fun j => 1 / 2 ^ (j + 1))) := by decide +kernel

end EmuVerif.Props.C19Term
