/-
  C20 — PCHIP interpolation is exact at knots, C¹ and shape-preserving; it equals the standard
  PCHIP interpolant (Fritsch–Carlson derivatives with three-point end slopes), including when
  extrapolated from the end intervals.

  All theorems are about `Model.Pchip` (tied to `emu_base/math/pchip_torch.py` by a bit-exact
  binary64 correspondence) read over an arbitrary linear ordered field, for **every number of
  knots n ≥ 2**, every strictly increasing knot list and every value list (flat runs, sign
  changes and arbitrary ratios included — nothing is assumed about `y`).
  Element access is written `l[i]? = some v` ("the i-th entry exists and is v").

  Proved here, at full strength:
    * `constructs` / `build_valid`  – `PCHIP1D(x, y)` succeeds exactly on equal lengths ≥ 2 with
                                      strictly increasing `x`;
    * `knot_exact`                  – `P(x_i) = y_i` for every knot, including the last one (which
                                      `_interval_index` maps to the last interval at `t = h`);
    * `eval_piecewise`              – which cubic is evaluated for which query (first/last cubic
                                      extended outside the knot range);
    * `hermite_conditions`, `c1_at_knots`, `deriv_is_derivative` – each cubic matches value and slope
                                      at both ends of its interval, so neighbouring cubics agree in
                                      value and first derivative at the shared knot (C¹ in the
                                      spline sense); `Cubic.deriv` is the derivative (exact
                                      first-order expansion);
    * `slopes_standard`             – every knot slope equals the independently stated textbook
                                      definition `stdSlope` (Fritsch–Carlson weighted harmonic mean /
                                      0 for interior knots, Moler's `pchipend` three-point formula
                                      with sign/3Δ limiter for end knots, secant for n = 2);
    * `equals_standard`             – `P(q)` is the Hermite-basis cubic of the standard slopes on the
                                      standard interval of `q` (extrapolation included);
    * `cubic_monotone_in_region`, `cubic_constant_on_flat` – the sum-of-squares argument: with
                                      `0 ≤ d/Δ ≤ 3` at both ends the cubic is monotone and between the
                                      end values; on a flat interval with zero slopes it is constant;
    * `slopes_in_region`            – the slopes the model computes do satisfy those bounds;
    * `monotone_on_interval`, `between_end_values`, `constant_on_flat_interval`, `between_neighbours`,
      `lower_bound_preserved`, `upper_bound_preserved` – the
                                      interpolant is monotone on every knot interval, between its end
                                      values, and inside the knot range within `[min y, max y]`.
  Binary64 only: `float_mask_underflow_counterexample` documents the fixed finding PCHIP-U1 (the former product
  mask underflowed for secants below ≈ 1e-162; `mask_variants_agree`: same test over an ordered field).
  Not formalised: the analytic notion `ContDiff ℝ 1` (the algebraic joint conditions above are what a
  C¹ piecewise polynomial is); binary64 rounding (validated by correspondence + SciPy oracle).
-/
import EmuVerif.Proofs.PchipEval

set_option linter.unusedSectionVars false
set_option linter.unusedVariables false

namespace EmuVerif.Props.C20
open EmuVerif EmuVerif.Pchip

variable {α : Type} [Field α] [LinearOrder α] [IsStrictOrderedRing α]
variable {x y d : List α} {P : Interp α}

/-! ## Construction -/

theorem constructs (h1 : x.length = y.length) (h2 : 2 ≤ x.length) (hs : x.Pairwise (· < ·)) :
    ∃ P, build x y = some P := build_of_valid h1 h2 hs

theorem build_valid (hb : build x y = some P) :
    x.length = y.length ∧ 2 ≤ x.length ∧ x.Pairwise (· < ·) ∧ P.xs = x ∧ ∃ d, slopes x y = some d := by
  obtain ⟨a, b, c, d, hd, _, rfl⟩ := build_some hb
  exact ⟨a, b, c, rfl, d, hd⟩

/-! ## (1) Exact at the knots -/

theorem knot_exact (hb : build x y = some P) {i : Nat} {xi yi : α} (hx : x[i]? = some xi)
    (hy : y[i]? = some yi) : P.eval xi = some yi := by
  obtain ⟨hl, h2, hs, d, hd, hdl, _⟩ := build_some hb
  have hi := lt_of_getElem? hx
  rcases Nat.lt_or_ge (i + 1) x.length with hlt | hge
  · obtain ⟨a, b, ya, yb, da, db, D⟩ := intervalData_exists hb hd hlt
    have e1 : a = xi := by have := D.xa; rw [hx] at this; exact (Option.some.inj this).symm
    have e2 : ya = yi := by have := D.ya; rw [hy] at this; exact (Option.some.inj this).symm
    subst e1 e2
    exact eval_left_knot hb hd D
  · obtain ⟨j, rfl⟩ : ∃ j, i = j + 1 := ⟨i - 1, by omega⟩
    obtain ⟨a, b, ya, yb, da, db, D⟩ := intervalData_exists hb hd (i := j) (by omega)
    have e1 : b = xi := by have := D.xb; rw [hx] at this; exact (Option.some.inj this).symm
    have e2 : yb = yi := by have := D.yb; rw [hy] at this; exact (Option.some.inj this).symm
    subst e1 e2
    exact eval_right_knot hb hd D

/-! ## (2) Which cubic is used where (interval selection, extrapolation) -/

/-- `i` is the standard interval of `q`: `x_i ≤ q < x_{i+1}`, the first interval also takes
everything to its left, the last one everything to its right (and the last knot). -/
def OnInterval (x : List α) (q : α) (i : Nat) (a b : α) : Prop :=
  (i = 0 ∨ a ≤ q) ∧ (i + 2 = x.length ∨ q < b)

theorem eval_piecewise (hb : build x y = some P) (hd : slopes x y = some d) {i : Nat}
    {a b ya yb da db q : α} (D : IntervalData x y d i a b ya yb da db) (hq : OnInterval x q i a b) :
    P.eval q = some ((pieceOf a b ya yb da db).eval (q - a)) := by
  obtain ⟨hl, h2, hs, _⟩ := build_some hb
  apply eval_of_index hb hd D
  rcases lt_or_ge q a with hqa | hqa
  · rcases hq.1 with i0 | hle
    · subst i0; exact intervalIndex_left hs D.xa hqa
    · exact absurd hle (not_le.mpr hqa)
  · rcases lt_or_ge q b with hqb | hqb
    · exact intervalIndex_mid hs D.xa D.xb hqa hqb
    · rcases hq.2 with il | hlt
      · have hxn : x[x.length - 1]? = some b := by
          have : x.length - 1 = i + 1 := by omega
          rw [this]; exact D.xb
        rw [intervalIndex_right hs h2 hxn hqb]; omega
      · exact absurd hlt (not_lt.mpr hqb)

/-! ## (3) C¹ -/

/-- Each cubic interpolates value and slope at both ends of its interval. -/
theorem hermite_conditions {a b ya yb da db : α} (hab : a < b) :
    (pieceOf a b ya yb da db).eval 0 = ya ∧ (pieceOf a b ya yb da db).eval (b - a) = yb ∧
    (pieceOf a b ya yb da db).deriv 0 = da ∧ (pieceOf a b ya yb da db).deriv (b - a) = db := by
  have hne : b - a ≠ 0 := (sub_pos.mpr hab).ne'
  exact ⟨cubic_eval_zero _ _ _ _ _, cubic_eval_h _ _ _ _ _ hne, cubic_deriv_zero _ _ _ _ _,
    cubic_deriv_h _ _ _ _ _ hne⟩

/-- `Cubic.deriv` is the derivative of `Cubic.eval`: exact expansion with polynomial remainder. -/
theorem deriv_is_derivative (c : Cubic α) (t e : α) :
    c.eval (t + e) = c.eval t + e * c.deriv t + e * e * (c.p2 + 3 * c.p3 * t + c.p3 * e) :=
  eval_expand c t e

/-- At every interior knot the two neighbouring cubics agree in value (`= y`) and in first
derivative (`= d`): the interpolant is C¹. -/
theorem c1_at_knots (hb : build x y = some P) (hd : slopes x y = some d) {i : Nat}
    {a b c ya yb yc da db dc : α} (D : IntervalData x y d i a b ya yb da db)
    (D' : IntervalData x y d (i + 1) b c yb yc db dc) :
    (pieceOf a b ya yb da db).eval (b - a) = yb ∧ (pieceOf b c yb yc db dc).eval 0 = yb ∧
    (pieceOf a b ya yb da db).deriv (b - a) = db ∧ (pieceOf b c yb yc db dc).deriv 0 = db := by
  have h1 := hermite_conditions (ya := ya) (yb := yb) (da := da) (db := db) (D.lt hb)
  have h2 := hermite_conditions (ya := yb) (yb := yc) (da := db) (db := dc) (D'.lt hb)
  exact ⟨h1.2.1, h2.1, h1.2.2.2, h2.2.2.1⟩

/-! ## (4) The slopes are the standard PCHIP slopes -/

/-- `l_i` of the textbook formulas (0 outside the list; never used there). -/
def at' (l : List α) (i : Nat) : α := l.getD i 0

/-- Interval width `h_i = x_{i+1} - x_i` and secant slope `Δ_i`. -/
def stdH (x : List α) (i : Nat) : α := at' x (i + 1) - at' x i
def stdΔ (x y : List α) (i : Nat) : α := (at' y (i + 1) - at' y i) / stdH x i

/-- Fritsch–Carlson interior slope at knot `k` (`hp = h_{k-1}`, `hn = h_k`, `Δp = Δ_{k-1}`, `Δn = Δ_k`):
0 unless the secants have the same strict sign, else the weighted harmonic mean with
`w1 = 2h_k + h_{k-1}`, `w2 = h_k + 2h_{k-1}`. -/
def fcInterior (hp hn Δp Δn : α) : α :=
  if SignType.sign Δp ≠ SignType.sign Δn ∨ Δp = 0 ∨ Δn = 0 then 0
  else (2 * hn + hp + (hn + 2 * hp)) / ((2 * hn + hp) / Δp + (hn + 2 * hp) / Δn)

/-- One-sided three-point end slope (`h0, Δ0` = end interval, `h1, Δ1` = its neighbour). -/
def threePoint (h0 h1 Δ0 Δ1 : α) : α := ((2 * h0 + h1) * Δ0 - h0 * Δ1) / (h0 + h1)

/-- The standard limiter (Moler `pchipend`, SciPy `_edge_case`). -/
def stdLimit (e Δ0 Δ1 : α) : α :=
  if SignType.sign e ≠ SignType.sign Δ0 then 0
  else if SignType.sign Δ0 ≠ SignType.sign Δ1 ∧ 3 * |Δ0| < |e| then 3 * Δ0 else e

def stdEnd (h0 h1 Δ0 Δ1 : α) : α := stdLimit (threePoint h0 h1 Δ0 Δ1) Δ0 Δ1

/-- Standard PCHIP slope at knot `j`, stated independently of the model. -/
def stdSlope (x y : List α) (j : Nat) : α :=
  let n := x.length
  if n = 2 then stdΔ x y 0
  else if j = 0 then stdEnd (stdH x 0) (stdH x 1) (stdΔ x y 0) (stdΔ x y 1)
  else if j = n - 1 then stdEnd (stdH x (n - 2)) (stdH x (n - 3)) (stdΔ x y (n - 2)) (stdΔ x y (n - 3))
  else fcInterior (stdH x (j - 1)) (stdH x j) (stdΔ x y (j - 1)) (stdΔ x y j)

theorem at'_eq {l : List α} {i : Nat} {v : α} (h : l[i]? = some v) : at' l i = v := by
  simp [at', List.getD_eq_getElem?_getD, h]

theorem mul_pos_iff_sign (a b : α) :
    0 < a * b ↔ ¬ (SignType.sign a ≠ SignType.sign b ∨ a = 0 ∨ b = 0) := by
  constructor
  · intro h
    rcases mul_pos_iff.mp h with ⟨p, q⟩ | ⟨p, q⟩
    · simp [sign_pos p, sign_pos q, p.ne', q.ne']
    · simp [sign_neg p, sign_neg q, p.ne, q.ne]
  · intro h
    simp only [ne_eq, not_or, not_not] at h
    obtain ⟨hs, ha, hb⟩ := h
    rcases lt_or_gt_of_ne ha with p | p
    · have : SignType.sign b = -1 := by rw [← hs, sign_neg p]
      exact mul_pos_of_neg_of_neg p (sign_eq_neg_one_iff.mp this)
    · have : SignType.sign b = 1 := by rw [← hs, sign_pos p]
      exact mul_pos p (sign_eq_one_iff.mp this)

theorem interiorAt_eq_fc (dl dr hl hr : α) : interiorAt dl dr hl hr = fcInterior hl hr dl dr := by
  rw [interiorAt_eq]
  unfold fcInterior whm
  by_cases h : 0 < dl * dr
  · rw [if_pos h, if_neg ((mul_pos_iff_sign dl dr).mp h)]
    rw [show 2 * hr + hl = hl + 2 * hr by ring, show hr + 2 * hl = 2 * hl + hr by ring]
  · rw [if_neg h, if_pos]
    by_contra hc
    exact h ((mul_pos_iff_sign dl dr).mpr hc)

theorem limitEndpoint_eq_std (sl sr hl hr : α) :
    limitEndpoint (endpointSlope sl sr hl hr) sl sr = stdEnd hl hr sl sr := by
  rw [limitEndpoint_eq]
  unfold stdEnd stdLimit threePoint endpointSlope
  simp only [ne_eq, sgn_eq_iff]

theorem slopes_standard (hb : build x y = some P) (hd : slopes x y = some d) {j : Nat}
    (hj : j < x.length) : d[j]? = some (stdSlope x y j) := by
  obtain ⟨hl, h2, hs, d', hd', hdl, _⟩ := build_some hb
  rw [hd] at hd'; cases hd'
  have hlen : (diffs x).length = x.length - 1 := length_diffs x
  -- secants / widths in textbook notation
  have hH : ∀ {i : Nat}, i + 1 < x.length → (diffs x)[i]? = some (stdH x i) := by
    intro i hi
    obtain ⟨u, eu⟩ := getElem?_of_lt (l := x) (i := i) (by omega)
    obtain ⟨v, ev⟩ := getElem?_of_lt (l := x) (i := i + 1) (by omega)
    rw [diffs_getElem? eu ev, stdH, at'_eq eu, at'_eq ev]
  have hD : ∀ {i : Nat}, i + 1 < x.length → (secants y (diffs x))[i]? = some (stdΔ x y i) := by
    intro i hi
    obtain ⟨u, eu⟩ := getElem?_of_lt (l := y) (i := i) (by omega)
    obtain ⟨v, ev⟩ := getElem?_of_lt (l := y) (i := i + 1) (by omega)
    rw [secants_getElem? eu ev (hH hi), stdΔ, at'_eq eu, at'_eq ev]
  unfold slopes at hd
  unfold stdSlope
  rcases Nat.lt_or_ge x.length 3 with hlt | hge
  · have hn : x.length = 2 := by omega
    have h1 : (diffs x).length = 1 := by omega
    have := derivs_one h1 (by rw [length_secants, length_diffs]; omega) (hD (i := 0) (by omega))
    rw [this] at hd; cases hd
    simp only [hn, if_true]
    have : j = 0 ∨ j = 1 := by omega
    rcases this with rfl | rfl <;> simp
  · have hn : x.length ≠ 2 := by omega
    have h2' : 2 ≤ (diffs x).length := by omega
    simp only [hn, if_false]
    by_cases j0 : j = 0
    · subst j0
      simp only [if_true]
      rw [derivs_first hd h2' (hD (by omega)) (hD (by omega)) (hH (by omega)) (hH (by omega)),
        limitEndpoint_eq_std]
    · simp only [j0, if_false]
      by_cases jn : j = x.length - 1
      · simp only [jn, if_true]
        have e1 : x.length - 2 = (diffs x).length - 1 := by omega
        have e2 : x.length - 3 = (diffs x).length - 2 := by omega
        have e3 : x.length - 1 = (diffs x).length := by omega
        have := derivs_last hd h2' (dn := stdΔ x y (x.length - 2)) (dm := stdΔ x y (x.length - 3))
          (hn := stdH x (x.length - 2)) (hm := stdH x (x.length - 3))
          (by rw [← e1]; exact hD (by omega)) (by rw [← e2]; exact hD (by omega))
          (by rw [← e1]; exact hH (by omega)) (by rw [← e2]; exact hH (by omega))
        rw [e3, this, limitEndpoint_eq_std]
      · simp only [jn, if_false]
        obtain ⟨k, rfl⟩ : ∃ k, j = k + 1 := ⟨j - 1, by omega⟩
        have := derivs_interior hd (hD (i := k) (by omega)) (hD (i := k + 1) (by omega))
          (hH (i := k) (by omega)) (hH (i := k + 1) (by omega))
        rw [this, interiorAt_eq_fc]
        simp

/-! ## (5) Equals the standard interpolant, extrapolation included -/

/-- Cubic Hermite interpolant on `[a, b]` in the textbook basis form. -/
def hermite (a b ya yb da db q : α) : α :=
  ya * ((1 + 2 * ((q - a) / (b - a))) * (1 - (q - a) / (b - a)) ^ 2)
  + (b - a) * da * ((q - a) / (b - a) * (1 - (q - a) / (b - a)) ^ 2)
  + yb * (((q - a) / (b - a)) ^ 2 * (3 - 2 * ((q - a) / (b - a))))
  + (b - a) * db * (((q - a) / (b - a)) ^ 2 * ((q - a) / (b - a) - 1))

/-- Standard PCHIP value at `q` from interval `i`. -/
def stdValue (x y : List α) (i : Nat) (q : α) : α :=
  hermite (at' x i) (at' x (i + 1)) (at' y i) (at' y (i + 1)) (stdSlope x y i) (stdSlope x y (i + 1)) q

/-- `i` is the interval standard PCHIP (with extrapolation) uses for `q`. -/
def IsStdInterval (x : List α) (q : α) (i : Nat) : Prop :=
  i + 2 ≤ x.length ∧ (i = 0 ∨ at' x i ≤ q) ∧ (i + 2 = x.length ∨ q < at' x (i + 1))

theorem piece_eq_hermite {a b ya yb da db q : α} (hab : a < b) :
    (pieceOf a b ya yb da db).eval (q - a) = hermite a b ya yb da db q := by
  have hne : b - a ≠ 0 := (sub_pos.mpr hab).ne'
  simp only [pieceOf, cubic, Cubic.eval, hermite]
  field_simp
  ring

theorem equals_standard (hb : build x y = some P) {q : α} {i : Nat} (hi : IsStdInterval x q i) :
    P.eval q = some (stdValue x y i q) := by
  obtain ⟨hl, h2, hs, d, hd, hdl, _⟩ := build_some hb
  obtain ⟨a, b, ya, yb, da, db, D⟩ := intervalData_exists hb hd (i := i) (by have := hi.1; omega)
  have e1 := slopes_standard hb hd (j := i) (by have := hi.1; omega)
  have e2 := slopes_standard hb hd (j := i + 1) (by have := hi.1; omega)
  rw [D.da] at e1; rw [D.db] at e2
  have hq : OnInterval x q i a b := by
    refine ⟨?_, ?_⟩
    · rcases hi.2.1 with h | h
      · exact Or.inl h
      · right; rwa [at'_eq D.xa] at h
    · rcases hi.2.2 with h | h
      · exact Or.inl h
      · right; rwa [at'_eq D.xb] at h
  rw [eval_piecewise hb hd D hq, piece_eq_hermite (D.lt hb)]
  unfold stdValue
  rw [at'_eq D.xa, at'_eq D.xb, at'_eq D.ya, at'_eq D.yb, ← Option.some.inj e1, ← Option.some.inj e2]

/-- Every query has a standard interval (so `equals_standard` covers the whole line). -/
theorem stdInterval_exists (h2 : 2 ≤ x.length) (q : α) : ∃ i, IsStdInterval x q i := by
  have key : ∀ m : Nat, ∀ j, j + 2 ≤ x.length → x.length - 2 - j ≤ m → (j = 0 ∨ at' x j ≤ q) →
      ∃ i, IsStdInterval x q i := by
    intro m
    induction m with
    | zero =>
      intro j hj hm hle
      exact ⟨j, hj, hle, Or.inl (by omega)⟩
    | succ m ih =>
      intro j hj hm hle
      by_cases hlt : q < at' x (j + 1)
      · exact ⟨j, hj, hle, Or.inr hlt⟩
      · rcases Nat.lt_or_ge (j + 2) x.length with h3 | h3
        · exact ih (j + 1) (by omega) (by omega) (Or.inr (not_lt.mp hlt))
        · exact ⟨j, hj, hle, Or.inl (by omega)⟩
  exact key x.length 0 (by omega) (by omega) (Or.inl rfl)

/-! ## (6) Shape preservation -/

/-- **Sum-of-squares theorem.** On an interval of width `h > 0` with secant `Δ ≠ 0` and end slopes
with `0 ≤ d₀/Δ ≤ 3`, `0 ≤ d₁/Δ ≤ 3`, the Hermite cubic is monotone (in the direction of the data)
and stays between the end values. -/
theorem cubic_monotone_in_region {y0 y1 h d0 d1 : α} (hh : 0 < h) (hne : y0 ≠ y1)
    (r0 : 0 ≤ d0 / ((y1 - y0) / h) ∧ d0 / ((y1 - y0) / h) ≤ 3)
    (r1 : 0 ≤ d1 / ((y1 - y0) / h) ∧ d1 / ((y1 - y0) / h) ≤ 3) {s t : α} (hs : 0 ≤ s) (hst : s ≤ t)
    (ht : t ≤ h) :
    let c := cubic y0 h ((y1 - y0) / h) d0 d1
    (y0 ≤ y1 → c.eval s ≤ c.eval t) ∧ (y1 ≤ y0 → c.eval t ≤ c.eval s) ∧
      min y0 y1 ≤ c.eval t ∧ c.eval t ≤ max y0 y1 := by
  have hΔ : (y1 - y0) / h ≠ 0 := div_ne_zero (sub_ne_zero.mpr hne.symm) hh.ne'
  have k0 := (slopeOK_iff_ratio hΔ).mpr r0
  have k1 := (slopeOK_iff_ratio hΔ).mpr r1
  have hb := cubic_between hh k0 k1 (hs.trans hst) ht
  refine ⟨fun hle => ?_, fun hle => ?_, hb.1, hb.2⟩
  · exact cubic_mono hh k0 k1 hs hst ht (div_nonneg (sub_nonneg.mpr hle) hh.le)
  · exact cubic_anti hh k0 k1 hs hst ht (div_nonpos_of_nonpos_of_nonneg (sub_nonpos.mpr hle) hh.le)

/-- On a flat interval with zero end slopes the cubic is constant. -/
theorem cubic_constant_on_flat (y0 h t : α) : (cubic y0 h 0 0 0).eval t = y0 := by
  simp [cubic, Cubic.eval]

/-- The slopes the model computes lie in the monotonicity region of every interval they touch:
zero on a flat interval, ratio in `[0, 3]` otherwise (harmonic mean ≤ 3·min, limiter caps at 3Δ). -/
theorem slopes_in_region (hb : build x y = some P) (hd : slopes x y = some d) {i : Nat}
    {a b ya yb da db : α} (D : IntervalData x y d i a b ya yb da db) :
    (ya = yb → da = 0 ∧ db = 0) ∧
    (ya ≠ yb → 0 ≤ da / ((yb - ya) / (b - a)) ∧ da / ((yb - ya) / (b - a)) ≤ 3 ∧
               0 ≤ db / ((yb - ya) / (b - a)) ∧ db / ((yb - ya) / (b - a)) ≤ 3) := by
  obtain ⟨k0, k1⟩ := intervalData_slopeOK hb hd D
  have hpos : 0 < b - a := sub_pos.mpr (D.lt hb)
  constructor
  · intro e
    have : (yb - ya) / (b - a) = 0 := by rw [e, sub_self, zero_div]
    exact ⟨k0.1 this, k1.1 this⟩
  · intro hne
    have hΔ : (yb - ya) / (b - a) ≠ 0 := div_ne_zero (sub_ne_zero.mpr hne.symm) hpos.ne'
    have r0 := (slopeOK_iff_ratio hΔ).mp k0
    have r1 := (slopeOK_iff_ratio hΔ).mp k1
    exact ⟨r0.1, r0.2, r1.1, r1.2⟩

/-- The interpolant is monotone on every knot interval, in the direction of the data. -/
theorem monotone_on_interval (hb : build x y = some P) {i : Nat} {a b ya yb s t : α}
    (hxa : x[i]? = some a) (hxb : x[i + 1]? = some b) (hya : y[i]? = some ya) (hyb : y[i + 1]? = some yb)
    (hs : a ≤ s) (hst : s ≤ t) (ht : t ≤ b) :
    ∃ vs vt, P.eval s = some vs ∧ P.eval t = some vt ∧ (ya ≤ yb → vs ≤ vt) ∧ (yb ≤ ya → vt ≤ vs) := by
  obtain ⟨hl, h2, hsrt, d, hd, hdl, _⟩ := build_some hb
  have hi := lt_of_getElem? hxb
  obtain ⟨da, hda⟩ := getElem?_of_lt (l := d) (i := i) (by omega)
  obtain ⟨db, hdb⟩ := getElem?_of_lt (l := d) (i := i + 1) (by omega)
  have D : IntervalData x y d i a b ya yb da db := ⟨hxa, hxb, hya, hyb, hda, hdb⟩
  obtain ⟨k0, k1⟩ := intervalData_slopeOK hb hd D
  have hpos : 0 < b - a := sub_pos.mpr (D.lt hb)
  refine ⟨_, _, eval_on_interval hb hd D hs (hst.trans ht), eval_on_interval hb hd D (hs.trans hst) ht,
    fun hle => ?_, fun hle => ?_⟩
  · exact cubic_mono hpos k0 k1 (sub_nonneg.mpr hs) (sub_le_sub_right hst a) (sub_le_sub_right ht a)
      (div_nonneg (sub_nonneg.mpr hle) hpos.le)
  · exact cubic_anti hpos k0 k1 (sub_nonneg.mpr hs) (sub_le_sub_right hst a) (sub_le_sub_right ht a)
      (div_nonpos_of_nonpos_of_nonneg (sub_nonpos.mpr hle) hpos.le)

/-- On every knot interval the interpolant stays between the two end values. -/
theorem between_end_values (hb : build x y = some P) {i : Nat} {a b ya yb q : α}
    (hxa : x[i]? = some a) (hxb : x[i + 1]? = some b) (hya : y[i]? = some ya) (hyb : y[i + 1]? = some yb)
    (h1 : a ≤ q) (h2 : q ≤ b) : ∃ v, P.eval q = some v ∧ min ya yb ≤ v ∧ v ≤ max ya yb := by
  obtain ⟨hl, _, hsrt, d, hd, hdl, _⟩ := build_some hb
  have hi := lt_of_getElem? hxb
  obtain ⟨da, hda⟩ := getElem?_of_lt (l := d) (i := i) (by omega)
  obtain ⟨db, hdb⟩ := getElem?_of_lt (l := d) (i := i + 1) (by omega)
  have D : IntervalData x y d i a b ya yb da db := ⟨hxa, hxb, hya, hyb, hda, hdb⟩
  obtain ⟨k0, k1⟩ := intervalData_slopeOK hb hd D
  have hpos : 0 < b - a := sub_pos.mpr (D.lt hb)
  exact ⟨_, eval_on_interval hb hd D h1 h2,
    cubic_between hpos k0 k1 (sub_nonneg.mpr h1) (sub_le_sub_right h2 a)⟩

/-- On a flat interval the interpolant is constant. -/
theorem constant_on_flat_interval (hb : build x y = some P) {i : Nat} {a b ya q : α}
    (hxa : x[i]? = some a) (hxb : x[i + 1]? = some b) (hya : y[i]? = some ya) (hyb : y[i + 1]? = some ya)
    (h1 : a ≤ q) (h2 : q ≤ b) : P.eval q = some ya := by
  obtain ⟨v, hv, lo, hi⟩ := between_end_values hb hxa hxb hya hyb h1 h2
  rw [min_self] at lo; rw [max_self] at hi
  rw [hv, le_antisymm hi lo]

/-- Inside the knot range the value lies between two neighbouring data values. -/
theorem between_neighbours (hb : build x y = some P) {x0 xn q : α}
    (h0 : x[0]? = some x0) (hn : x[x.length - 1]? = some xn) (hq0 : x0 ≤ q) (hqn : q ≤ xn) :
    ∃ v i ya yb, P.eval q = some v ∧ y[i]? = some ya ∧ y[i + 1]? = some yb ∧
      min ya yb ≤ v ∧ v ≤ max ya yb := by
  obtain ⟨hl, h2, hsrt, _⟩ := build_some hb
  obtain ⟨hn', rfl⟩ := List.getElem?_eq_some_iff.mp hn
  obtain ⟨h0', rfl⟩ := List.getElem?_eq_some_iff.mp h0
  obtain ⟨i, hi', hle, hge⟩ := exists_bracket (x := x) (q := q) (x.length - 1) hn' (by omega) hq0 hqn
  have hya : y[i]? = some (y[i]'(by omega)) := List.getElem?_eq_getElem (by omega)
  have hyb : y[i + 1]? = some (y[i + 1]'(by omega)) := List.getElem?_eq_getElem (by omega)
  obtain ⟨v, hv, l, u⟩ := between_end_values hb (List.getElem?_eq_getElem (by omega))
    (List.getElem?_eq_getElem hi') hya hyb hle hge
  exact ⟨v, i, _, _, hv, hya, hyb, l, u⟩

/-- No undershoot: inside the knot range the interpolant stays above any lower bound of the data. -/
theorem lower_bound_preserved (hb : build x y = some P) {lo x0 xn q : α} (hy : ∀ v ∈ y, lo ≤ v)
    (h0 : x[0]? = some x0) (hn : x[x.length - 1]? = some xn) (hq0 : x0 ≤ q) (hqn : q ≤ xn) :
    ∃ v, P.eval q = some v ∧ lo ≤ v := by
  obtain ⟨v, i, ya, yb, hv, hya, hyb, l, _⟩ := between_neighbours hb h0 hn hq0 hqn
  exact ⟨v, hv, le_trans (le_min (hy _ (List.mem_of_getElem? hya)) (hy _ (List.mem_of_getElem? hyb))) l⟩

/-- No overshoot: … and below any upper bound of the data. -/
theorem upper_bound_preserved (hb : build x y = some P) {hi x0 xn q : α} (hy : ∀ v ∈ y, v ≤ hi)
    (h0 : x[0]? = some x0) (hn : x[x.length - 1]? = some xn) (hq0 : x0 ≤ q) (hqn : q ≤ xn) :
    ∃ v, P.eval q = some v ∧ v ≤ hi := by
  obtain ⟨v, i, ya, yb, hv, hya, hyb, _, u⟩ := between_neighbours hb h0 hn hq0 hqn
  exact ⟨v, hv, le_trans u (max_le (hy _ (List.mem_of_getElem? hya)) (hy _ (List.mem_of_getElem? hyb)))⟩

/-! ## Binary64 gap of the former mask (finding PCHIP-U1, fixed)

The theorems above are about ordered fields, where the product test `0 < Δ_l * Δ_r` and the sign test of
`sameSign` coincide (`sameSign_iff`, `sameSignByProduct_eq`). In binary64 they do not: the product of two
secants below ≈ 1e-162 rounds to 0, so the *former* mask `(delta_l * delta_r) > 0` (`sameSignByProduct`) was
false for two strictly positive secants and the interior slope became 0 where standard PCHIP — and SciPy,
which compares signs — takes the harmonic mean. The code now compares signs. Kernel-evaluated at `Float` on
the model (a test, not a proof about torch): former mask false, current mask true, current interior slopes
non-zero. -/

theorem float_mask_underflow_counterexample :
    (secants [0.0, 1e-170, 3e-170, 7e-170] (diffs [(0.0 : Float), 1.0, 2.0, 3.0])).all (fun s => decide (0 < s)) = true ∧
    sameSignByProduct (1e-170 : Float) 2e-170 = false ∧ sameSign (1e-170 : Float) 2e-170 = true ∧
    (derivs (diffs [(0.0 : Float), 1.0, 2.0, 3.0])
        (secants [0.0, 1e-170, 3e-170, 7e-170] (diffs [(0.0 : Float), 1.0, 2.0, 3.0]))).map
      (fun d => ((d.drop 1).take 2).all (fun v => decide (0 < v))) = some true := by
  decide +kernel

/-- Over an ordered field the former and the current mask are the same test (so every theorem of this file
holds for both variants of the code). -/
theorem mask_variants_agree (dl dr : α) : sameSignByProduct dl dr = sameSign dl dr :=
  sameSignByProduct_eq dl dr

/-! ## Non-vacuity: concrete instances over ℚ (evaluated by the kernel — these are tests) -/

/-- non-uniform knots, a flat end interval (the D18 shape) and a sign change -/
example : (build ([0, 1, 3, 4] : List ℚ) [3, 1, 0, 0]).isSome = true := by decide +kernel
example : ([0, 1, 3, 4] : List ℚ).Pairwise (· < ·) := by decide +kernel
example : derivs (diffs ([0, 1, 3, 4] : List ℚ)) (secants [3, 1, 0, 0] (diffs [0, 1, 3, 4])) = some [-5/2, -6/7, 0, 0] := by
  decide +kernel
/-- the flat end interval evaluates to the constant (D18 gave 0.5625 at 3.5 before the fix) -/
example : (build ([0, 1, 3, 4] : List ℚ) [3, 1, 0, 0]).bind (·.eval (7/2)) = some 0 := by decide +kernel
example : (build ([0, 1, 3, 4] : List ℚ) [3, 1, 0, 0]).bind (·.eval 5) = some 0 := by decide +kernel
/-- hypotheses of `c1_at_knots` / `slopes_in_region` / `eval_piecewise` are satisfiable -/
example : IntervalData ([0, 1, 3, 4] : List ℚ) [3, 1, 0, 0] [-5/2, -6/7, 0, 0] 1 1 3 1 0 (-6/7) 0 :=
  ⟨by decide +kernel, by decide +kernel, by decide +kernel, by decide +kernel, by decide +kernel, by decide +kernel⟩
example : OnInterval ([0, 1, 3, 4] : List ℚ) (-2) 0 0 1 := ⟨Or.inl rfl, Or.inr (by norm_num)⟩
example : IsStdInterval ([0, 1, 3, 4] : List ℚ) 9 2 := ⟨by decide, Or.inr (by norm_num [at']), Or.inl rfl⟩
/-- two knots: straight line, also outside the range -/
example : (build ([1, 3] : List ℚ) [2, 6]).bind (·.eval 10) = some 20 := by decide +kernel
/-- rejected inputs -/
example : build ([0, 1, 1] : List ℚ) [0, 0, 0] = none := by decide +kernel
example : build ([0] : List ℚ) [0] = none := by decide +kernel
/-- region hypotheses of `cubic_monotone_in_region`: ratios 1/2 and 3 -/
example : (0:ℚ) ≤ 1 / ((2 - 0) / 1) ∧ (1:ℚ) / ((2 - 0) / 1) ≤ 3 ∧ (6:ℚ) / ((2 - 0) / 1) ≤ 3 := by norm_num

end EmuVerif.Props.C20
