/-
  C21 — The simulation time grid covers the sequence and every evaluation time.

  Statement (properties.jsonl): for any sequence, dt and evaluation times, the solver's target
  times are strictly increasing, start at 0, end at the sequence duration, and contain every
  multiple of dt up to the duration and every requested evaluation time. One solver step is
  taken per interval, and each noise trajectory is simulated as many times as Pulser requests.

  All theorems are about `Model.TimeGrid.targetTimesOf` / `targetTimes` (tied to
  `emu_base/pulser_adapter.py:_get_target_times`, `_unique_observable_times` by the bit-exact
  binary64 correspondence and by the ℚ correspondence on the number of points), read over an
  arbitrary linear ordered field, for every duration `D > 0`, every `dt > 0`, every list of
  requested times in `[0,1]` (any length) and every merge tolerance `0 ≤ relTol < 1` (the code
  uses `2e-12`), with `fl` any function that is the floor at `D/dt`.

  Proved, at full strength (exact arithmetic):
    * `strictly_increasing`, `first_zero`, `last_duration`;
    * `consecutive_gap`        – consecutive points differ by more than `relTol·D`;
    * `covers_dt_multiples`    – every `i·dt ≤ D` is within `relTol·D` of a grid point;
    * `covers_eval_times`      – every `τ·D` is within `relTol·D` of a grid point;
    * `only_candidates`        – every grid point is a dt multiple, `D`, or a requested time;
    * `exact_of_sep`           – if distinct candidates are more than `relTol·D` apart the grid is
                                 exactly the set of candidates (`contains_dt_multiples_of_sep`,
                                 `contains_eval_times_of_sep`);
    * `steps_eq_rows`          – at least one step; rows of Ω = `len − 1`; both back-ends visit the
                                 grid points `0 … len−1` once each, in order (`visits_sv`, `visits_mps`);
    * `reps_total`, `reps_each` – the generator loop yields `Σ reps` items, `reps_i` copies of item `i`
                                  consecutively, in order;
    * `config_times`, `full_rejected` – which times `_unique_observable_times` collects;
    * `trajectories_requested`, `simulated_eq_requested` – Pulser is asked for `n_trajectories` of the resolved
      noise model; given Pulser's contract Σ reps = n, exactly n runs are simulated.
  The merge tolerance is needed in the statement: two candidates closer than `relTol·D` are
  merged (that is the repair of defect D7), so "contains" can only hold up to it
  (`merge_needed_example`).
  Not in the theorems: binary64 rounding (`i*dt/D*D ≠ i*dt`, which can even exceed `D`: defect D7f,
  repaired by the `setLast` statement — a no-op in exact arithmetic), see harness/props/c21.py.
-/
import EmuVerif.Proofs.TimeGrid
import Mathlib.Data.Rat.Floor

set_option linter.unusedSectionVars false
set_option linter.unusedVariables false

namespace EmuVerif.Props.C21
open EmuVerif EmuVerif.TimeGrid

variable {α : Type} [Field α] [LinearOrder α] [IsStrictOrderedRing α]

/-- `int → float` in the ordered-field reading. -/
abbrev natC : Nat → α := fun n => (n : α)

/-- The hypotheses of C21. -/
structure Hyp (fl : α → Int) (relTol D dt : α) (obs : List α) : Prop where
  dt_pos : 0 < dt
  D_pos : 0 < D
  obs01 : ∀ τ ∈ obs, 0 ≤ τ ∧ τ ≤ 1
  tol_nonneg : 0 ≤ relTol
  tol_lt_one : relTol < 1
  fl_nonneg : 0 ≤ fl (D / dt)
  fl_le : ((fl (D / dt) : ℤ) : α) ≤ D / dt
  fl_lt : D / dt < ((fl (D / dt) : ℤ) : α) + 1

/-- The candidate absolute times. -/
abbrev cands (fl : α → Int) (D dt : α) (obs : List α) : List α :=
  absCands natC (fl (D / dt)) dt D obs

section
variable {fl : α → Int} {relTol D dt : α} {obs : List α}

theorem cand_cases (H : Hyp fl relTol D dt obs) {x : α} (hx : x ∈ cands fl D dt obs) :
    (∃ i : ℕ, i < (fl (D / dt) + 1).toNat ∧ x = (i : α) * dt) ∨ x = D ∨ ∃ τ ∈ obs, x = τ * D := by
  have hD : D ≠ 0 := ne_of_gt H.D_pos
  simp only [cands, absCands, relCands, relGrid, List.mem_map, List.mem_append, List.mem_cons,
    List.mem_range] at hx
  obtain ⟨r, (⟨i, hi, rfl⟩ | rfl | hr), rfl⟩ := hx
  · left; exact ⟨i, hi, by rw [div_mul_cancel₀ _ hD]⟩
  · right; left; rw [one_mul]
  · right; right; exact ⟨r, hr, rfl⟩

theorem cand_grid (H : Hyp fl relTol D dt obs) {i : ℕ} (hi : i < (fl (D / dt) + 1).toNat) :
    (i : α) * dt ∈ cands fl D dt obs := by
  have hD : D ≠ 0 := ne_of_gt H.D_pos
  simp only [cands, absCands, relCands, relGrid, List.mem_map, List.mem_append, List.mem_cons,
    List.mem_range]
  exact ⟨(i : α) * dt / D, Or.inl ⟨i, hi, rfl⟩, by rw [div_mul_cancel₀ _ hD]⟩

theorem cand_D (H : Hyp fl relTol D dt obs) : D ∈ cands fl D dt obs := by
  simp only [cands, absCands, relCands, List.mem_map, List.mem_append, List.mem_cons]
  exact ⟨1, Or.inr (Or.inl rfl), one_mul D⟩

theorem cand_obs (H : Hyp fl relTol D dt obs) {τ : α} (h : τ ∈ obs) : τ * D ∈ cands fl D dt obs := by
  simp only [cands, absCands, relCands, List.mem_map, List.mem_append, List.mem_cons]
  exact ⟨τ, Or.inr (Or.inr h), rfl⟩

theorem idx_bound (H : Hyp fl relTol D dt obs) {i : ℕ} (hi : i < (fl (D / dt) + 1).toNat) :
    (i : α) * dt ≤ D := by
  have h1 : (i : ℤ) < fl (D / dt) + 1 := Int.lt_toNat.1 hi
  have h2 : (i : ℤ) ≤ fl (D / dt) := by omega
  have h3 : ((i : ℤ) : α) ≤ ((fl (D / dt) : ℤ) : α) := Int.cast_le.2 h2
  rw [Int.cast_natCast] at h3
  have h4 : (i : α) ≤ D / dt := le_trans h3 H.fl_le
  exact (le_div_iff₀ H.dt_pos).1 h4

theorem idx_of_le (H : Hyp fl relTol D dt obs) {i : ℕ} (hi : (i : α) * dt ≤ D) :
    i < (fl (D / dt) + 1).toNat := by
  have h4 : (i : α) ≤ D / dt := (le_div_iff₀ H.dt_pos).2 hi
  have h5 : ((i : ℤ) : α) < ((fl (D / dt) + 1 : ℤ) : α) := by
    rw [Int.cast_natCast, Int.cast_add, Int.cast_one]; exact lt_of_le_of_lt h4 H.fl_lt
  exact Int.lt_toNat.2 (Int.cast_lt.1 h5)

theorem cand_bounds (H : Hyp fl relTol D dt obs) {x : α} (hx : x ∈ cands fl D dt obs) :
    0 ≤ x ∧ x ≤ D := by
  rcases cand_cases H hx with ⟨i, hi, rfl⟩ | rfl | ⟨τ, hτ, rfl⟩
  · exact ⟨mul_nonneg (Nat.cast_nonneg i) (le_of_lt H.dt_pos), idx_bound H hi⟩
  · exact ⟨le_of_lt H.D_pos, le_rfl⟩
  · obtain ⟨h0, h1⟩ := H.obs01 τ hτ
    exact ⟨mul_nonneg h0 (le_of_lt H.D_pos), by nlinarith [H.D_pos]⟩

theorem cand_zero (H : Hyp fl relTol D dt obs) : (0 : α) ∈ cands fl D dt obs := by
  have h : (0 : ℕ) < (fl (D / dt) + 1).toNat := Int.lt_toNat.2 (by have := H.fl_nonneg; simp; omega)
  simpa using cand_grid H h

/-- The grid exists and satisfies the merge specification relative to the sorted candidates. -/
theorem grid_spec (H : Hyp fl relTol D dt obs) :
    ∃ G, targetTimesOf natC fl relTol D dt obs = .ok G ∧
      MergeSpec (relTol * D) (sortedSet (cands fl D dt obs)) G ∧
      G.head? = some 0 ∧ G.getLast? = some D ∧ 2 ≤ G.length := by
  have htol : 0 ≤ relTol * D := mul_nonneg H.tol_nonneg (le_of_lt H.D_pos)
  have hs := sortedSet_sorted (cands fl D dt obs)
  have hDmem : D ∈ sortedSet (cands fl D dt obs) := (mem_sortedSet _ _).2 (cand_D H)
  have h0mem : (0 : α) ∈ sortedSet (cands fl D dt obs) := (mem_sortedSet _ _).2 (cand_zero H)
  have hne : sortedSet (cands fl D dt obs) ≠ [] := List.ne_nil_of_mem hDmem
  obtain ⟨G, hG, spec⟩ := mergeGrid_spec htol hs hne
  have hz1 : isZero dt = false := by simp [isZero, eqv, H.dt_pos, not_lt_of_gt H.dt_pos]
  have hz2 : isZero D = false := by simp [isZero, eqv, H.D_pos, not_lt_of_gt H.D_pos]
  have hhead : (sortedSet (cands fl D dt obs)).head? = some 0 := by
    obtain ⟨s0, s', hs0⟩ := List.exists_cons_of_ne_nil hne
    rw [hs0] at hs h0mem ⊢
    have h1 := head_le_of_sorted hs 0 h0mem
    have h2 := (cand_bounds H ((mem_sortedSet _ _).1 (by rw [hs0]; simp : s0 ∈ sortedSet _))).1
    simp [le_antisymm h1 h2]
  have hlast : (sortedSet (cands fl D dt obs)).getLast? = some D := by
    cases hl : (sortedSet (cands fl D dt obs)).getLast? with
    | none => exact absurd (List.getLast?_eq_none_iff.1 hl) hne
    | some l =>
      have h1 := le_getLast_of_sorted hs l hl D hDmem
      have h2 := (cand_bounds H ((mem_sortedSet _ _).1 (getLast?_mem hl))).2
      rw [le_antisymm h2 h1]
  have htwo : 2 ≤ G.length := spec.two ⟨0, h0mem, D, hDmem, by
    have := mul_lt_mul_of_pos_right H.tol_lt_one H.D_pos
    linarith⟩
  have hGl : G.getLast? = some D := by rw [spec.last htwo, hlast]
  refine ⟨G, ?_, spec, by rw [spec.head, hhead], hGl, htwo⟩
  unfold targetTimesOf
  simp only [hz1, hz2, Bool.false_eq_true, if_false, Bool.false_and]
  show (match mergeGrid (relTol * D) (sortedSet (cands fl D dt obs)) with
    | none => Except.error Err.indexError
    | some g => Except.ok (setLast D g)) = Except.ok G
  rw [hG]
  simp only [setLast_of_getLast G D hGl]

/-! ### The property theorems -/

variable {G : List α}

theorem spec_of (H : Hyp fl relTol D dt obs) (hG : targetTimesOf natC fl relTol D dt obs = .ok G) :
    MergeSpec (relTol * D) (sortedSet (cands fl D dt obs)) G ∧
      G.head? = some 0 ∧ G.getLast? = some D ∧ 2 ≤ G.length := by
  obtain ⟨G', h', r⟩ := grid_spec H
  rw [h'] at hG
  injection hG with e
  subst e; exact r

/-- The target times are strictly increasing. -/
theorem strictly_increasing (H : Hyp fl relTol D dt obs)
    (hG : targetTimesOf natC fl relTol D dt obs = .ok G) : G.Pairwise (· < ·) :=
  Gap.sorted (mul_nonneg H.tol_nonneg (le_of_lt H.D_pos)) (spec_of H hG).1.gap

/-- They start at 0. -/
theorem first_zero (H : Hyp fl relTol D dt obs)
    (hG : targetTimesOf natC fl relTol D dt obs = .ok G) : G.head? = some 0 := (spec_of H hG).2.1

/-- They end at the duration. -/
theorem last_duration (H : Hyp fl relTol D dt obs)
    (hG : targetTimesOf natC fl relTol D dt obs = .ok G) : G.getLast? = some D := (spec_of H hG).2.2.1

/-- Consecutive target times differ by more than the merge tolerance. -/
theorem consecutive_gap (H : Hyp fl relTol D dt obs)
    (hG : targetTimesOf natC fl relTol D dt obs = .ok G) (k : ℕ) (hk : k + 1 < G.length) :
    relTol * D < G[k + 1] - G[k] :=
  List.pairwise_iff_getElem.1 (spec_of H hG).1.gap k (k + 1) (by omega) hk (by omega)

/-- Every multiple of dt up to the duration is within the merge tolerance of a grid point. -/
theorem covers_dt_multiples (H : Hyp fl relTol D dt obs)
    (hG : targetTimesOf natC fl relTol D dt obs = .ok G) (i : ℕ) (hi : (i : α) * dt ≤ D) :
    ∃ g ∈ G, |g - (i : α) * dt| ≤ relTol * D :=
  (spec_of H hG).1.cover _ ((mem_sortedSet _ _).2 (cand_grid H (idx_of_le H hi)))

/-- Every requested evaluation time is within the merge tolerance of a grid point. -/
theorem covers_eval_times (H : Hyp fl relTol D dt obs)
    (hG : targetTimesOf natC fl relTol D dt obs = .ok G) (τ : α) (hτ : τ ∈ obs) :
    ∃ g ∈ G, |g - τ * D| ≤ relTol * D :=
  (spec_of H hG).1.cover _ ((mem_sortedSet _ _).2 (cand_obs H hτ))

/-- Nothing else is in the grid: every point is a dt multiple, the duration or a requested time. -/
theorem only_candidates (H : Hyp fl relTol D dt obs)
    (hG : targetTimesOf natC fl relTol D dt obs = .ok G) (g : α) (hg : g ∈ G) :
    (∃ i : ℕ, (i : α) * dt ≤ D ∧ g = (i : α) * dt) ∨ g = D ∨ ∃ τ ∈ obs, g = τ * D := by
  rcases cand_cases H ((mem_sortedSet _ _).1 ((spec_of H hG).1.sub g hg)) with ⟨i, hi, e⟩ | e | e
  · exact Or.inl ⟨i, idx_bound H hi, e⟩
  · exact Or.inr (Or.inl e)
  · exact Or.inr (Or.inr e)

/-- *Sep*: distinct candidates are more than the merge tolerance apart. -/
def Sep (fl : α → Int) (relTol D dt : α) (obs : List α) : Prop :=
  ∀ a ∈ cands fl D dt obs, ∀ b ∈ cands fl D dt obs, a < b → relTol * D < b - a

/-- Under *Sep* the grid is exactly the set of candidates. -/
theorem exact_of_sep (H : Hyp fl relTol D dt obs)
    (hG : targetTimesOf natC fl relTol D dt obs = .ok G) (hsep : Sep fl relTol D dt obs) :
    G = sortedSet (cands fl D dt obs) := by
  have hs := sortedSet_sorted (cands fl D dt obs)
  have spec := (spec_of H hG).1
  refine sorted_ext _ _ (strictly_increasing H hG) hs (fun x => ⟨spec.sub x, fun hx => ?_⟩)
  obtain ⟨y, hy, hyx⟩ := spec.cover x hx
  have hyc := (mem_sortedSet _ _).1 (spec.sub y hy)
  have hxc := (mem_sortedSet _ _).1 hx
  rcases lt_trichotomy y x with h | h | h
  · have := hsep y hyc x hxc h
    rw [abs_le] at hyx; linarith
  · rw [← h]; exact hy
  · have := hsep x hxc y hyc h
    rw [abs_le] at hyx; linarith

theorem contains_dt_multiples_of_sep (H : Hyp fl relTol D dt obs)
    (hG : targetTimesOf natC fl relTol D dt obs = .ok G) (hsep : Sep fl relTol D dt obs)
    (i : ℕ) (hi : (i : α) * dt ≤ D) : (i : α) * dt ∈ G := by
  rw [exact_of_sep H hG hsep]; exact (mem_sortedSet _ _).2 (cand_grid H (idx_of_le H hi))

theorem contains_eval_times_of_sep (H : Hyp fl relTol D dt obs)
    (hG : targetTimesOf natC fl relTol D dt obs = .ok G) (hsep : Sep fl relTol D dt obs)
    (τ : α) (hτ : τ ∈ obs) : τ * D ∈ G := by
  rw [exact_of_sep H hG hsep]; exact (mem_sortedSet _ _).2 (cand_obs H hτ)

/-- One row of Ω per interval, at least one interval. -/
theorem steps_eq_rows (H : Hyp fl relTol D dt obs)
    (hG : targetTimesOf natC fl relTol D dt obs = .ok G) (half : α) :
    (midpoints half G).length = G.length - 1 ∧ 1 ≤ G.length - 1 := by
  have h2 := (spec_of H hG).2.2.2
  refine ⟨?_, by omega⟩
  simp [midpoints, List.length_zipWith, List.length_tail]

/-- emu-sv applies its observables at the grid points `0 … len−1`, once each, in order, when
it takes `len − 1` steps. -/
theorem visits_sv (H : Hyp fl relTol D dt obs)
    (hG : targetTimesOf natC fl relTol D dt obs = .ok G) :
    visitTimes false G (G.length - 1) = some G := by
  have h2 := (spec_of H hG).2.2.2
  have : G.length - 1 + 1 = G.length := by omega
  simp [visitTimes, this]
  omega

/-- So does emu-mps (it starts from `current_time = 0.0`, which is the first grid point). -/
theorem visits_mps (H : Hyp fl relTol D dt obs)
    (hG : targetTimesOf natC fl relTol D dt obs = .ok G) :
    visitTimes true G (G.length - 1) = some G := by
  have h2 := (spec_of H hG).2.2.2
  have hh := (spec_of H hG).2.1
  have : G.length - 1 + 1 = G.length := by omega
  cases G with
  | nil => simp at h2
  | cons a r =>
    simp at hh; subst hh
    simp only [List.length_cons] at h2
    simp [visitTimes, fixFirst]
    omega
end

/-! ### `_unique_observable_times` and the config-level entry point -/

theorem config_times {dflt : Option (List α)} : ∀ {observables : List (Option (List α))} {obs : List α},
    uniqueObsTimes dflt observables = .ok obs →
    ∀ τ, τ ∈ obs ↔ ∃ o ∈ observables, ∃ T, effTimes dflt o = some T ∧ τ ∈ T
  | [], obs, h, τ => by
    simp [uniqueObsTimes] at h; subst h; simp
  | o :: os, obs, h, τ => by
    cases o with
    | some ts =>
      simp only [uniqueObsTimes] at h
      cases hr : uniqueObsTimes dflt os with
      | error e => rw [hr] at h; simp [Except.map] at h
      | ok rest =>
        rw [hr] at h; simp only [Except.map] at h
        injection h with e; subst e
        have ih := config_times hr τ
        simp only [List.mem_append, ih, List.mem_cons, exists_eq_or_imp, effTimes]
        simp
    | none =>
      cases dflt with
      | none => simp [uniqueObsTimes] at h
      | some ds =>
        simp only [uniqueObsTimes] at h
        cases hr : uniqueObsTimes (some ds) os with
        | error e => rw [hr] at h; simp [Except.map] at h
        | ok rest =>
          rw [hr] at h; simp only [Except.map] at h
          injection h with e; subst e
          have ih := config_times hr τ
          simp only [List.mem_append, ih, List.mem_cons, exists_eq_or_imp, effTimes]
          simp

/-- `default_evaluation_times == "Full"` with an observable that has no times of its own is
rejected (ValueError), whatever else is configured. -/
theorem full_rejected : ∀ (observables : List (Option (List α))), none ∈ observables →
    ∃ e, uniqueObsTimes (none : Option (List α)) observables = .error e
  | [], h => by simp at h
  | o :: os, h => by
    cases o with
    | none => exact ⟨.valueError, by simp [uniqueObsTimes]⟩
    | some ts =>
      have h' : none ∈ os := by simpa using h
      obtain ⟨e, he⟩ := full_rejected os h'
      exact ⟨e, by simp [uniqueObsTimes, he, Except.map]⟩

/-- The config-level function is `targetTimesOf` on the collected times. -/
theorem targetTimes_eq {fl : α → Int} {relTol D dt : α} {dflt : Option (List α)}
    {observables : List (Option (List α))} {obs : List α} (H : Hyp fl relTol D dt obs)
    (ho : uniqueObsTimes dflt observables = .ok obs) :
    targetTimes natC fl relTol D dt dflt observables = targetTimesOf natC fl relTol D dt obs := by
  have hz1 : isZero dt = false := by simp [isZero, eqv, H.dt_pos, not_lt_of_gt H.dt_pos]
  have hz2 : isZero D = false := by simp [isZero, eqv, H.D_pos, not_lt_of_gt H.D_pos]
  simp [targetTimes, hz1, hz2, ho]

/-! ### `reps` expansion -/

theorem reps_each {σ τ : Type} (mk : σ → τ) (s : σ) (r : ℕ) (rest : List (σ × ℕ)) :
    expandReps mk ((s, r) :: rest) = List.replicate r (mk s) ++ expandReps mk rest := by
  simp [expandReps]

/-- The generator yields `Σ reps` `SequenceData`. -/
theorem reps_total {σ τ : Type} (mk : σ → τ) : ∀ (samples : List (σ × ℕ)),
    (expandReps mk samples).length = (samples.map Prod.snd).sum
  | [] => rfl
  | (s, r) :: rest => by
    rw [reps_each, List.length_append, List.length_replicate, reps_total mk rest]
    simp

/-- Pulser is asked for `config.n_trajectories` trajectories of the *resolved* noise model, whether
it comes from the device or from the config. -/
theorem trajectories_requested {ν : Type} (prefer : Bool) (dev cfg : ν) (n : ℕ) :
    (trajectoryRequest prefer dev cfg n).2 = n ∧
    (trajectoryRequest prefer dev cfg n).1 = (if prefer then dev else cfg) := ⟨rfl, rfl⟩

/-- … so if Pulser's trajectories carry `Σ reps = n` (its contract for stochastic noise), exactly `n`
`SequenceData` are simulated. -/
theorem simulated_eq_requested {σ τ : Type} (mk : σ → τ) (samples : List (σ × ℕ)) (n : ℕ)
    (hp : (samples.map Prod.snd).sum = n) : (expandReps mk samples).length = n := by
  rw [reps_total, hp]

/-! ### Non-vacuity and the role of the merge tolerance -/

/-- The hypotheses hold for the former D7 witness (duration 63, dt 0.7) with the code's
tolerance and `math.floor`. -/
example : Hyp (fun x : ℚ => ⌊x⌋) (1 / 10 ^ 12) 63 (7 / 10) [3 / 10, 1 / 2] where
  dt_pos := by norm_num
  D_pos := by norm_num
  obs01 := by intro τ h; simp at h; rcases h with rfl | rfl <;> norm_num
  tol_nonneg := by norm_num
  tol_lt_one := by norm_num
  fl_nonneg := Int.floor_nonneg.2 (by norm_num)
  fl_le := Int.floor_le _
  fl_lt := Int.lt_floor_add_one _

/-- `Sep` is satisfiable: duration 10, dt 5, one requested time 0.3. -/
example : Sep (fun x : ℚ => ⌊x⌋) (1 / 10 ^ 12) 10 5 [3 / 10] := by
  have hf : ⌊(10 : ℚ) / 5⌋ = 2 := by norm_num
  intro a ha b hb hab
  simp only [cands, absCands, relCands, relGrid, hf, natC] at ha hb
  simp [List.range_succ] at ha hb
  rcases ha with rfl | rfl | rfl | rfl | rfl <;> rcases hb with rfl | rfl | rfl | rfl | rfl <;>
    first
    | (exfalso; norm_num at hab; done)
    | norm_num

/-- Why the tolerance is in the statement: a requested time closer than `relTol·D` to a dt
multiple is merged into it (it is *not* a grid point), so exact containment needs *Sep*. Here
`mergeGrid` on the sorted candidates `0, 5 − 10⁻¹², 5, 10` with tolerance `10⁻¹¹`. -/
theorem merge_needed_example :
    mergeGrid (1 / 10 ^ 11 : ℚ) [0, 5 - 1 / 10 ^ 12, 5, 10] = some [0, 5, 10] := by
  norm_num [mergeGrid, mergeDesc, mergeStep, fixFirst]

end EmuVerif.Props.C21
