/-
  C22 — Per-step drive values are the interpolated Pulser samples; the amplitude is never
  negative, even for steps after the last Pulser sample.

  Theorems about `Model.Extract` (tied to `_extract_omega_delta_phi` by a bit-exact binary64
  correspondence), over an arbitrary linear ordered field, for every number of samples
  `T ≥ 2`, every time grid (any `dt`, any extra evaluation times) and every number of qubits:

    * `step_values_are_midpoint_pchip` – row `k` of every column is the PCHIP interpolant through
      the samples at the knots `0 … T-1`, evaluated at the mid-point `(t_k + t_{k+1})/2`; the
      amplitude column additionally passes through `max(·, 0)`; there is one row per step;
    * `amp_nonneg_inside_before_clamp` – for non-negative samples every mid-point inside
      `[0, T-1]` has a non-negative interpolated amplitude *before* the clamp (from C20's
      `lower_bound_preserved`: the interpolant never undershoots the data);
    * `amp_nonneg_always` – after the clamp every amplitude of every step is `≥ 0`, for every grid
      and all samples (mid-points beyond `T-1`, `dt < 1`, negative extrapolation included);
    * `det_phase_not_clamped` – detuning and phase columns are the raw interpolated values;
    * `extract_ok`, `extract_columns`, `extract_amp_nonneg` – the same through the dictionary
      dispatch: a successful `_extract_omega_delta_phi` had exactly one interaction type
      (`ground-rydberg`, else `XY`), `max_duration == target_times[-1]`, kept the requested qubits
      present in the channel in request order, and every entry of Ω is `≥ 0`.
  Not covered by theorems: Pulser's sampling itself (`to_nested_dict`), binary64 rounding
  (correspondence + oracle), `torch.allclose`'s tolerance semantics beyond `|im| ≤ atol`.
-/
import EmuVerif.Proofs.Extract
import EmuVerif.Props.C20

set_option linter.unusedSectionVars false
set_option linter.unusedVariables false

namespace EmuVerif.Props.C22
open EmuVerif EmuVerif.Pchip EmuVerif.Extract

variable {α : Type} [Field α] [LinearOrder α] [IsStrictOrderedRing α]

theorem rawColumn_some {T : Nat} {s tt raw : List α} (h : rawColumn T s tt = some raw) :
    ∃ P, build (knots T) s = some P ∧ evalAll P (midpoints tt) = some raw := by
  unfold rawColumn at h
  cases hb : build (knots T) s with
  | none => rw [hb] at h; cases h
  | some P => rw [hb] at h; exact ⟨P, rfl, h⟩

/-- Step values = PCHIP of the samples at the step mid-points (amplitude: then clamped at 0). -/
theorem step_values_are_midpoint_pchip {kind : Kind} {T : Nat} {s tt col : List α}
    (h : column kind T s tt = some col) :
    col.length = tt.length - 1 ∧ ∃ P, build (knots T) s = some P ∧
      ∀ (k : Nat) (tk tk1 : α), tt[k]? = some tk → tt[k + 1]? = some tk1 →
        ∃ v, P.eval ((1 / 2) * (tk + tk1)) = some v ∧
          col[k]? = some (if kind = Kind.amp then (if 0 < v then v else 0) else v) := by
  unfold column at h
  obtain ⟨raw, hraw, rfl⟩ := Option.map_eq_some_iff.mp h
  obtain ⟨P, hb, he⟩ := rawColumn_some hraw
  obtain ⟨hl, hk⟩ := evalAll_spec he
  refine ⟨?_, P, hb, ?_⟩
  · by_cases ha : kind = Kind.amp <;> simp [ha, clampCol, hl, length_midpoints]
  · intro k tk tk1 h0 h1
    obtain ⟨v, hv, hr⟩ := hk k _ (midpoints_getElem? h0 h1)
    refine ⟨v, hv, ?_⟩
    by_cases ha : kind = Kind.amp
    · simp only [ha, if_true]; exact clampCol_getElem? hr
    · simp only [ha, if_false]; exact hr

/-- Non-negative samples ⇒ the interpolated amplitude at a mid-point inside `[0, T-1]` is
non-negative already before the clamp. -/
theorem amp_nonneg_inside_before_clamp {T : Nat} {s tt raw : List α} (h : rawColumn T s tt = some raw)
    (hs : ∀ v ∈ s, 0 ≤ v) {k : Nat} {tk tk1 : α} (h0 : tt[k]? = some tk) (h1 : tt[k + 1]? = some tk1)
    (hlo : 0 ≤ (1 / 2) * (tk + tk1)) (hhi : (1 / 2) * (tk + tk1) ≤ ((T - 1 : Nat) : α)) :
    ∃ v, raw[k]? = some v ∧ 0 ≤ v := by
  obtain ⟨P, hb, he⟩ := rawColumn_some h
  obtain ⟨_, hk⟩ := evalAll_spec he
  obtain ⟨v, hv, hr⟩ := hk k _ (midpoints_getElem? h0 h1)
  obtain ⟨_, h2, _⟩ := build_some hb
  rw [length_knots] at h2
  have hx0 : (knots T : List α)[0]? = some ((0 : Nat) : α) := knots_getElem? (by omega)
  have hxn : (knots T : List α)[(knots T : List α).length - 1]? = some ((T - 1 : Nat) : α) := by
    rw [length_knots]; exact knots_getElem? (by omega)
  obtain ⟨v', hv', hpos⟩ := C20.lower_bound_preserved hb hs hx0 hxn (by simpa using hlo) hhi
  rw [hv] at hv'; cases hv'
  exact ⟨v, hr, hpos⟩

/-- After the clamp every amplitude is non-negative — for every grid, also beyond the last sample. -/
theorem amp_nonneg_always {T : Nat} {s tt col : List α} (h : column Kind.amp T s tt = some col) :
    ∀ v ∈ col, 0 ≤ v := by
  unfold column at h
  obtain ⟨raw, _, rfl⟩ := Option.map_eq_some_iff.mp h
  simpa using clampCol_nonneg raw

/-- Detuning and phase are not clamped. -/
theorem det_phase_not_clamped {kind : Kind} (hk : kind ≠ Kind.amp) (T : Nat) (s tt : List α) :
    column kind T s tt = rawColumn T s tt := by
  unfold column
  simp [hk]

/-! ### Through the dispatch of `_extract_omega_delta_phi` -/

theorem eqScalar_iff (a b : α) : eqScalar a b = true ↔ a = b := by
  unfold eqScalar
  constructor
  · intro h
    simp only [Bool.and_eq_true, Bool.not_eq_true', decide_eq_false_iff_not, not_lt] at h
    exact le_antisymm h.2 h.1
  · rintro rfl; simp

theorem extract_ok {localD : List (String × List (String × QS α))} {qids : List String} {tt : List α}
    {T : Nat} {atol : α} {om de ph : List (List α)} (h : extract localD qids tt T atol = .ok om de ph) :
    localD.length = 1 ∧
    ∃ chan, (localD.lookup "ground-rydberg").orElse (fun _ => localD.lookup "XY") = some chan ∧
    ∃ tlast, tt.getLast? = some tlast ∧ ((T : Nat) : α) = tlast ∧
      columnsOf Kind.amp atol T tt (qids.filterMap (fun q => chan.lookup q)) = .ok om ∧
      columnsOf Kind.det atol T tt (qids.filterMap (fun q => chan.lookup q)) = .ok de ∧
      columnsOf Kind.phase atol T tt (qids.filterMap (fun q => chan.lookup q)) = .ok ph := by
  unfold extract at h
  split at h
  · cases h
  rename_i hlen
  split at h
  · cases h
  rename_i chan hchan
  split at h
  · cases h
  rename_i tlast hlast
  split at h
  · cases h
  rename_i heq
  dsimp only at h
  split at h
  · rename_i e _; cases e <;> cases h
  rename_i om' hom
  split at h
  · rename_i e _; cases e <;> cases h
  rename_i de' hde
  split at h
  · rename_i e _; cases e <;> cases h
  rename_i ph' hph
  cases h
  refine ⟨not_not.mp hlen, chan, hchan, tlast, hlast, ?_, hom, hde, hph⟩
  rw [← natScalar_eq_cast]
  exact (eqScalar_iff _ _).mp (by simpa using heq)

/-- The Ω, δ, φ columns returned are the `column`s of the kept qubits, in request order. -/
theorem extract_columns {localD : List (String × List (String × QS α))} {qids : List String} {tt : List α}
    {T : Nat} {atol : α} {om de ph : List (List α)} (h : extract localD qids tt T atol = .ok om de ph) :
    ∃ chan, (localD.lookup "ground-rydberg").orElse (fun _ => localD.lookup "XY") = some chan ∧
      List.Forall₂ (fun q c => column Kind.amp T q.amp tt = some c) (qids.filterMap (fun q => chan.lookup q)) om ∧
      List.Forall₂ (fun q c => column Kind.det T q.det tt = some c) (qids.filterMap (fun q => chan.lookup q)) de ∧
      List.Forall₂ (fun q c => column Kind.phase T q.phase tt = some c) (qids.filterMap (fun q => chan.lookup q)) ph := by
  obtain ⟨_, chan, hc, _, _, _, a, b, c⟩ := extract_ok h
  exact ⟨chan, hc, (columnsOf_ok a).imp (fun _ _ hh => hh.2), (columnsOf_ok b).imp (fun _ _ hh => hh.2),
    (columnsOf_ok c).imp (fun _ _ hh => hh.2)⟩

theorem forall₂_mem_right {β γ : Type} {R : β → γ → Prop} {l₁ : List β} {l₂ : List γ}
    (h : List.Forall₂ R l₁ l₂) {c : γ} (hc : c ∈ l₂) : ∃ a, R a c := by
  induction h with
  | nil => cases hc
  | cons hr _ ih =>
    rcases List.mem_cons.mp hc with rfl | hc'
    · exact ⟨_, hr⟩
    · exact ih hc'

/-- Every amplitude handed to the solver is non-negative. -/
theorem extract_amp_nonneg {localD : List (String × List (String × QS α))} {qids : List String}
    {tt : List α} {T : Nat} {atol : α} {om de ph : List (List α)}
    (h : extract localD qids tt T atol = .ok om de ph) : ∀ c ∈ om, ∀ v ∈ c, 0 ≤ v := by
  obtain ⟨chan, _, hom, _, _⟩ := extract_columns h
  intro c hc
  obtain ⟨q, hq⟩ := forall₂_mem_right hom hc
  exact amp_nonneg_always hq

/-! ## Non-vacuity (kernel-evaluated instances over ℚ — tests) -/

/-- the D6 shape: samples 9.2 − i, dt = 1/4, last four steps lie beyond the last sample and
extrapolate below zero before the clamp … -/
example : (rawColumn 4 ([32/10, 22/10, 12/10, 2/10] : List ℚ) [3, 13/4, 14/4, 15/4, 4]) =
    some [3/40, -7/40, -17/40, -27/40] := by decide +kernel
/-- … and are all clamped (before the fix only the last row was) -/
example : (column Kind.amp 4 ([32/10, 22/10, 12/10, 2/10] : List ℚ) [3, 13/4, 14/4, 15/4, 4]) =
    some [3/40, 0, 0, 0] := by decide +kernel
example : (column Kind.det 4 ([32/10, 22/10, 12/10, 2/10] : List ℚ) [3, 13/4, 14/4, 15/4, 4]) =
    some [3/40, -7/40, -17/40, -27/40] := by decide +kernel
/-- inside the sample range, non-negative samples with a flat end: no undershoot (the D18 shape) -/
example : (rawColumn 4 ([3, 1, 0, 0] : List ℚ) [0, 1, 2, 5/2, 3]) = some [89/48, 1/3, 0, 0] := by decide +kernel

end EmuVerif.Props.C22
