/-
  C23 — Interactions follow the register, cutoff, custom matrix and SLM schedule.

  Statement (properties.jsonl): the interaction matrix used at any time is symmetric with zero
  diagonal and comes from the user-supplied matrix if given, otherwise from the register. Entries
  whose magnitude is below the cutoff are zero and the others are unchanged. Before the SLM mask
  ends, every interaction involving a masked atom is zero; afterwards the full matrix applies.

  Model: `Model.Interact` (`PulserData.get_sequences` cutoff/mask code,
  `_InteractionMatrixCallable`, and the query times of the two back-ends), tied to the code by an
  exact correspondence on dyadic matrices and by recording the query times of stubbed runs.
  Theorems over every linear ordered field, every matrix size, every target list:
    * `entry_formula`      – closed form of every entry of `SequenceData.interaction_matrix(t)`;
    * `symmetric_out`      – symmetric in ⇒ symmetric out (at every time);
    * `below_cutoff_zero`, `above_cutoff_unchanged` – the cutoff on the full matrix;
    * `masked_rows_cols`   – the masked matrix is the full matrix with the rows/columns of the SLM
                             targets zeroed;
    * `before_slm_end`, `after_slm_end`, `masked_iff` – `t < slm_end` ↔ the masked matrix is returned;
    * `user_wins`          – a user matrix makes the result independent of the register;
    * `diag_inherited`, `diag_zero_of_zero`, `diag_not_enforced` – the diagonal is whatever the input
      has (cut off / masked like any entry); zero diagonal is *inherited, not enforced* — stated as is:
      the clause "zero diagonal" of C23 holds for register matrices (pulser builds them with a zero
      diagonal; assumption) and is not enforced for user matrices (both back-ends ignore the diagonal);
    * query schedule: `sv_queries_step_starts`, `mps_queries` – emu-sv uses the matrix of the step
      start `t_k`; emu-mps uses the mid-point of step 0 for step 0 and `t_k` for every k ≥ 1;
      `backends_agree_after_step0`, `step0_differs_iff` – the two back-ends can disagree only on step 0,
      exactly when `0 < slm_end ≤ t_1/2`; `masked_steps_prefix` – masked steps form a prefix;
    * badly prepared atoms: `sv_step_matrix`, `sv_step_entry`, `sv_full_after_slm_end`, `darkSv_symm`,
      `mps_step_matrix`, `mps_step_entry` – the matrix used in step k is the dark filter of the callable
      evaluated at that step's query time (never a matrix remembered from an earlier step);
    * qubit reordering in emu-mps: `mps_reordered_entry`, `siteAtoms_good`, `siteAtoms_complete`,
      `unpermute_reordered` – entry (a,b) in site order is the register entry of the atoms the sites hold.
-/
import EmuVerif.Proofs.Interact

set_option linter.unusedSectionVars false
set_option linter.unusedVariables false

namespace EmuVerif.Props.C23
open EmuVerif EmuVerif.Interact

variable {α : Type} [Field α] [LinearOrder α] [IsStrictOrderedRing α]
variable (user : Option (Mat α)) (reg : Mat α) (cutoff slmEnd t : α) (targets : List ℕ)

/-- Closed form of every entry of the matrix the callable returns at time `t`. -/
theorem entry_formula (i j : ℕ) :
    sequenceInteraction user reg cutoff targets slmEnd t i j =
      if t < slmEnd ∧ (i ∈ targets ∨ j ∈ targets) then 0
      else if |chooseFull user reg i j| < cutoff then 0 else chooseFull user reg i j := by
  unfold sequenceInteraction callable
  by_cases ht : t < slmEnd
  · simp only [ht, if_true, true_and, applyMask_apply, applyCutoff_apply]
  · simp only [ht, if_false, false_and, applyCutoff_apply]

/-- Symmetric in ⇒ symmetric out, at every query time. -/
theorem symmetric_out (h : Symm (chooseFull user reg)) :
    Symm (sequenceInteraction user reg cutoff targets slmEnd t) := by
  intro i j
  rw [entry_formula, entry_formula, h i j]
  simp only [or_comm]

/-- Entries of the full matrix below the cutoff are zero … -/
theorem below_cutoff_zero (i j : ℕ) (h : |chooseFull user reg i j| < cutoff) :
    applyCutoff cutoff (chooseFull user reg) i j = 0 := by
  rw [applyCutoff_apply, if_pos h]

/-- … and the others are unchanged. -/
theorem above_cutoff_unchanged (i j : ℕ) (h : ¬ |chooseFull user reg i j| < cutoff) :
    applyCutoff cutoff (chooseFull user reg) i j = chooseFull user reg i j := by
  rw [applyCutoff_apply, if_neg h]

/-- The masked matrix is the full one with the rows and columns of the SLM targets zeroed. -/
theorem masked_rows_cols (full : Mat α) (i j : ℕ) :
    applyMask targets full i j = if i ∈ targets ∨ j ∈ targets then 0 else full i j :=
  applyMask_apply targets full i j

theorem before_slm_end (full masked : Mat α) (h : t < slmEnd) :
    callable full masked slmEnd t = masked := by simp [callable, h]

theorem after_slm_end (full masked : Mat α) (h : ¬ t < slmEnd) :
    callable full masked slmEnd t = full := by simp [callable, h]

/-- `t < slm_end` ↔ the masked matrix is the one returned (when the two differ). -/
theorem masked_iff (full masked : Mat α) (hne : masked ≠ full) :
    callable full masked slmEnd t = masked ↔ t < slmEnd := by
  constructor
  · intro h
    by_contra hn
    rw [after_slm_end slmEnd t full masked hn] at h
    exact hne h.symm
  · exact before_slm_end slmEnd t full masked

/-- A user matrix wins over the register: the result does not depend on the register. -/
theorem user_wins (u : Mat α) (reg' : Mat α) :
    sequenceInteraction (some u) reg cutoff targets slmEnd t =
      sequenceInteraction (some u) reg' cutoff targets slmEnd t := rfl

theorem register_used_without_user :
    sequenceInteraction none reg cutoff targets slmEnd t =
      callable (applyCutoff cutoff reg) (applyMask targets (applyCutoff cutoff reg)) slmEnd t := rfl

/-- The diagonal is treated like any other entry. -/
theorem diag_inherited (i : ℕ) :
    sequenceInteraction user reg cutoff targets slmEnd t i i =
      if t < slmEnd ∧ i ∈ targets then 0
      else if |chooseFull user reg i i| < cutoff then 0 else chooseFull user reg i i := by
  rw [entry_formula]
  simp only [or_self]

/-- A zero diagonal is inherited. -/
theorem diag_zero_of_zero (h : ∀ i, chooseFull user reg i i = 0) (i : ℕ) :
    sequenceInteraction user reg cutoff targets slmEnd t i i = 0 := by
  rw [diag_inherited, h i]; simp

/-- It is not enforced: a user matrix with a non-zero diagonal passes through. -/
theorem diag_not_enforced :
    sequenceInteraction (some (fun _ _ => (1 : ℚ))) (fun _ _ => 0) (1 / 2) [] 0 0 0 0 = 1 := by
  rw [entry_formula]; norm_num [chooseFull]

/-! ### Query schedule of the two back-ends -/

/-- emu-sv: step `k` uses the matrix at the step start. -/
theorem sv_queries_step_starts (g : List α) (k : ℕ) : svQuery g k = g[k]? := rfl

/-- emu-mps (`half = 1/2`): mid-point of step 0 for step 0, the step start afterwards. -/
theorem mps_queries (g : List α) :
    mpsQuery (1 / 2 : α) g 0 = g[1]?.map (fun t1 => t1 / 2) ∧
    ∀ k, mpsQuery (1 / 2 : α) g (k + 1) = g[k + 1]? := by
  constructor
  · simp only [mpsQuery]; congr 1; funext t1; ring
  · intro k
    simp only [mpsQuery]
    cases g[k + 1]? with
    | none => rfl
    | some t => simp only [Option.map_some]; congr 1; ring

/-- After step 0 both back-ends use the same matrix in every step. -/
theorem backends_agree_after_step0 (g : List α) (k : ℕ) :
    stepMasked (mpsQuery (1 / 2 : α) g (k + 1)) slmEnd = stepMasked (svQuery g (k + 1)) slmEnd := by
  rw [(mps_queries g).2 k, sv_queries_step_starts]

/-- On step 0 (grid starting at 0) they differ exactly when `0 < slm_end ≤ t₁/2`. -/
theorem step0_differs_iff (t1 : α) (rest : List α) :
    stepMasked (mpsQuery (1 / 2 : α) (0 :: t1 :: rest) 0) slmEnd ≠
      stepMasked (svQuery (0 :: t1 :: rest) 0) slmEnd ↔ (0 < slmEnd ∧ slmEnd ≤ t1 / 2 ∨
        slmEnd ≤ 0 ∧ t1 / 2 < slmEnd) := by
  have h : (1 / 2 : α) * (0 + t1) = t1 / 2 := by ring
  simp only [mpsQuery, svQuery, stepMasked, List.getElem?_cons_succ, List.getElem?_cons_zero,
    Option.map_some, h, ne_eq, Option.some.injEq, decide_eq_decide]
  constructor
  · intro hne
    by_cases h0 : 0 < slmEnd
    · left; refine ⟨h0, not_lt.1 (fun hlt => hne ⟨fun _ => h0, fun _ => hlt⟩)⟩
    · right; refine ⟨not_lt.1 h0, ?_⟩
      by_contra hn
      exact hne ⟨fun h' => absurd h' hn, fun h' => absurd h' h0⟩
  · rintro (⟨h0, h1⟩ | ⟨h0, h1⟩) hiff
    · exact absurd (hiff.2 h0) (not_lt.2 h1)
    · exact absurd (hiff.1 h1) (not_lt.2 h0)

/-- With a sorted grid the masked steps form a prefix (emu-sv; emu-mps for k ≥ 1 alike). -/
theorem masked_steps_prefix (g : List α) (hs : g.Pairwise (· < ·)) (j k : ℕ) (hjk : j ≤ k)
    (hk : k < g.length) (hm : stepMasked (svQuery g k) slmEnd = some true) :
    stepMasked (svQuery g j) slmEnd = some true := by
  have hj : j < g.length := lt_of_le_of_lt hjk hk
  simp only [svQuery, stepMasked, List.getElem?_eq_getElem hk, List.getElem?_eq_getElem hj,
    Option.map_some, Option.some.injEq, decide_eq_true_eq] at hm ⊢
  rcases Nat.lt_or_eq_of_le hjk with h | h
  · exact lt_trans (List.pairwise_iff_getElem.1 hs j k hj hk h) hm
  · subst h; exact hm

/-! ### Badly prepared atoms on top of the schedule -/

/-- emu-sv: the matrix used in step `k` is the dark filter applied to the callable **at the start
time of that step** — in particular the SLM switch is re-evaluated at every step. -/
theorem sv_step_matrix (full masked : Mat α) (bad : ℕ → Bool) (g : List α) (k : ℕ) (hk : k < g.length) :
    svStepMat full masked slmEnd (some bad) g k = some (darkSv bad (callable full masked slmEnd g[k])) := by
  simp [svStepMat, svQuery, List.getElem?_eq_getElem hk]

/-- Entry-wise: rows/columns of bad atoms are zero at every step; the other entries are the masked
matrix before the SLM end and the full matrix from the SLM end on. -/
theorem sv_step_entry (full masked : Mat α) (bad : ℕ → Bool) (t : α) (i j : ℕ) :
    darkSv bad (callable full masked slmEnd t) i j =
      if bad i = true ∨ bad j = true then 0 else if t < slmEnd then masked i j else full i j := by
  by_cases hb : bad i = true ∨ bad j = true
  · rcases hb with h | h <;> simp [darkSv, h]
  · have h1 : bad i = false := by simpa using (not_or.1 hb).1
    have h2 : bad j = false := by simpa using (not_or.1 hb).2
    by_cases ht : t < slmEnd <;> simp [darkSv, callable, h1, h2, ht]

/-- Once the SLM mask has ended emu-sv uses the (dark-filtered) **full** matrix. -/
theorem sv_full_after_slm_end (full masked : Mat α) (bad : ℕ → Bool) (g : List α) (k : ℕ)
    (hk : k < g.length) (hend : slmEnd ≤ g[k]) :
    svStepMat full masked slmEnd (some bad) g k = some (darkSv bad full) := by
  rw [sv_step_matrix slmEnd full masked bad g k hk, after_slm_end slmEnd _ full masked (not_lt.2 hend)]

theorem sv_step_matrix_no_error (full masked : Mat α) (g : List α) (k : ℕ) (hk : k < g.length) :
    svStepMat full masked slmEnd none g k = some (callable full masked slmEnd g[k]) := by
  simp [svStepMat, svQuery, List.getElem?_eq_getElem hk]

/-- The dark filter keeps symmetry. -/
theorem darkSv_symm (bad : ℕ → Bool) (m : Mat α) (h : Symm m) : Symm (darkSv bad m) := by
  intro i j; simp only [darkSv, h i j, Bool.or_comm]

/-- emu-mps: the sub-matrix of the well prepared atoms of the callable at the step's query time. -/
theorem mps_step_matrix (full masked : Mat α) (keep : List ℕ) (g : List α) (k : ℕ) (hk : k + 1 < g.length) :
    mpsStepMat (1 / 2 : α) full masked slmEnd (some keep) g (k + 1) =
      some (darkMps keep (callable full masked slmEnd g[k + 1])) := by
  unfold mpsStepMat
  rw [(mps_queries g).2 k, List.getElem?_eq_getElem hk]
  rfl

theorem mps_step_entry (m : Mat α) (keep : List ℕ) (i j : ℕ) (hi : i < keep.length) (hj : j < keep.length) :
    darkMps keep m i j = m keep[i] keep[j] := by
  simp [darkMps, List.getD_eq_getElem?_getD, List.getElem?_eq_getElem hi, List.getElem?_eq_getElem hj]

/-- Qubit reordering: the entry between sites `a` and `b` of the matrix emu-mps uses is the register
interaction of the atoms those sites hold. -/
theorem mps_reordered_entry (m : Mat α) (n : ℕ) (perm : Option (List ℕ)) (bad : ℕ → Bool) (a b : ℕ)
    (ha : a < (siteAtoms n perm bad).length) (hb : b < (siteAtoms n perm bad).length) :
    darkMps (siteAtoms n perm bad) m a b = m (siteAtoms n perm bad)[a] (siteAtoms n perm bad)[b] :=
  mps_step_entry m _ a b ha hb

/-- No surviving site holds a badly prepared atom, and (for a permutation) every good atom is held. -/
theorem siteAtoms_good (n : ℕ) (perm : Option (List ℕ)) (bad : ℕ → Bool) (x : ℕ)
    (hx : x ∈ siteAtoms n perm bad) : bad x = false := by
  simp only [siteAtoms, List.mem_filter] at hx
  simpa using hx.2

theorem siteAtoms_complete (n : ℕ) (p : List ℕ) (bad : ℕ → Bool) (x : ℕ)
    (hperm : ∃ k < n, p.getD k 0 = x) (hgood : bad x = false) : x ∈ siteAtoms n (some p) bad := by
  obtain ⟨k, hk, rfl⟩ := hperm
  simp only [siteAtoms, List.mem_filter, List.mem_map, List.mem_range]
  exact ⟨⟨k, hk, rfl⟩, by rw [hgood]; rfl⟩

/-- Un-permuting with the inverse permutation gives back the register-order matrix. -/
theorem unpermute_reordered (m : Mat α) (perm inv : List ℕ) (i j : ℕ)
    (hi : perm.getD (inv.getD i 0) 0 = i) (hj : perm.getD (inv.getD j 0) 0 = j) :
    darkMps inv (darkMps perm m) i j = m i j := by
  show m (perm.getD (inv.getD i 0) 0) (perm.getD (inv.getD j 0) 0) = m i j
  rw [hi, hj]

/-! ### Non-vacuity -/

/-- A symmetric 2-atom register matrix, cutoff 1/2, atom 0 masked until t = 3: masked before,
full after, entry below the cutoff dropped. -/
example :
    let reg : Mat ℚ := fun i j => if i = j then 0 else if i + j = 1 then 4 else 1 / 4
    Symm (chooseFull none reg) ∧
    sequenceInteraction none reg (1 / 2) [0] 3 2 0 1 = 0 ∧
    sequenceInteraction none reg (1 / 2) [0] 3 3 0 1 = 4 ∧
    sequenceInteraction none reg (1 / 2) [0] 3 3 1 2 = 0 := by
  intro reg
  refine ⟨?_, ?_, ?_, ?_⟩
  · intro i j; simp only [chooseFull, reg, eq_comm, Nat.add_comm]
  · rw [entry_formula]; norm_num
  · rw [entry_formula]; norm_num [chooseFull, reg]
  · rw [entry_formula]; norm_num [chooseFull, reg]

end EmuVerif.Props.C23
