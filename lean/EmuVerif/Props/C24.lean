/-
  C24 — Noise-model channels act on the intended atomic levels.

  Statement (properties.jsonl): each Lindbladian noise channel of a Pulser noise model becomes
  jump operators that, in the emulator's basis, represent the same physical process Pulser
  defines: relaxation r→g, dephasing, depolarizing, and user effective-noise operators
  including transitions to and from the leakage level; rates enter as the square roots Pulser
  specifies. Quantifier: all noise types, rates, arbitrary 2×2/3×3 effective operators given
  in Pulser's (r, g[, x]) or (u, d[, x]) basis.

  All theorems are about `Model.Noise` (tied to `get_lindblad_operators` by the correspondence
  check), read over `Cx α` for an arbitrary commutative ring / field `α`; `math.sqrt` is an
  arbitrary function `sq` with the contract `sq x * sq x = x` *at the arguments the code uses*.
  "Same physical process" = same operator after the basis permutation `toEmu` (= `P A Pᵀ`), or —
  where the emulator uses a different but equivalent operator — same (doubled) dissipator
  `diss2 L ρ = 2LρL† − L†Lρ − ρL†L` for every `ρ`. Basis orderings: see `Model/Noise.lean`.

  Proved at full strength (every rate, every `dim ≥ 2` unless said otherwise):
    * `relaxation_is_sqrt_gamma_g_r`   – relaxation = `sq Γ · |g⟩⟨r|` = Pulser's `σ_gr` transported;
    * `relaxation_rate`               – `L†L = Γ |r⟩⟨r|` for dim 2, 3 (the rate is Γ, not √Γ or Γ²);
    * `dephasing_same_dissipator_dim2` – dim 2, ising and XY: same dissipator as Pulser's `√(2Γ) σ_rr` / `σ_dd`;
    * `depolarizing_ops`, `depolarizing_same_dissipator` – the three operators are ± Pulser's (any dim ≥ 2);
    * `effnoise_xy`                   – XY: operators are Pulser's, unchanged (any dim);
    * `effnoise_ising_dim2`           – ising, dim 2: `sq rate · P A Pᵀ`;
    * `effnoise_repaired`             – the `repaired` variant is right in every dimension;
    * `all_lindblad_is_concat`        – `_get_all_lindblad_noise_operators` concatenates, in the
                                        order of `noise_types`, skipping the non-Lindbladian ones.
  As found, NOT true in dimension 3 (leakage level present) — two defects:
    * eff_noise (D5): `EffNoiseCorrect 3` is the full statement; `effnoise_ising_partial` proves it
      under `SwapInvariantOutsideBlock` (for dim 3: `A[x,r] = A[x,g]` and `A[r,x] = A[g,x]`, e.g.
      no coupling to x), `effnoise_dim3_counterexample : ¬ EffNoiseCorrect 3 ℚ` (witness `A = E₂₀`:
      Pulser's `|x⟩⟨r|` is used as `|x⟩⟨g|`). Pinned by `test_flipping_right_elements`.
    * dephasing: `DephasingSameDissipator 3` is the full statement; `dephasing_dim3_partial` proves
      equality on every `ρ` without coherences to `x`; `dephasing_dim3_counterexample` (coherence
      `ρ_gx`: Pulser's `√(2Γ)|r⟩⟨r|` leaves it alone, the emulator's `√(Γ/2)(|g⟩⟨g| − |r⟩⟨r|)` damps it
      at Γ/4; `ρ_rx` is damped at Γ/4 instead of Γ).
-/
import EmuVerif.Proofs.Noise
import Mathlib.Algebra.Field.Basic
import Mathlib.Tactic.FieldSimp
import Mathlib.Tactic.NormNum
import Mathlib.Data.Rat.Defs

set_option linter.unusedSectionVars false

namespace EmuVerif.Props.C24
open EmuVerif.Noise Matrix

/-! ### relaxation -/
section relax
variable {α : Type} [Field α]

/-- `get_lindblad_operators("relaxation")` returns exactly one operator, `sq Γ · |g⟩⟨r|` in the
emulator's ordering (g = 0, r = 1), which is Pulser's `(sqrt Γ, σ_gr)` transported. -/
theorem relaxation_is_sqrt_gamma_g_r (v : Variant) (sq : α → α) (nm : NoiseModel α) (it : Interact)
    (n : Nat) (hn : 2 ≤ n) (hty : .relaxation ∈ nm.types) :
    getLindblad v sq .relaxation nm it n
        = .ok [smulM (Cx.ofReal (sq nm.relaxRate)) (ketbra n 0 1)]
    ∧ smulM (Cx.ofReal (sq nm.relaxRate)) (ketbra n 0 1)
        = toEmu .ising (pulserRelax n (sq nm.relaxRate)) := by
  have h2 : ¬ n < 2 := by omega
  refine ⟨?_, ?_⟩
  · simp [getLindblad, hty, h2, relaxOp_ketbra]
  · rw [← relaxOp_ketbra, relaxOp_eq n hn]

example : (getLindblad .asFound (fun x : ℚ => x) .relaxation
    { types := [.relaxation], relaxRate := 1, dephRate := 0, depolRate := 0, hyperfineNonzero := false,
      effRates := [], effOps := [] } .ising 3).toOption.map List.length = some 1 := by decide

/-- With the contract `sq Γ · sq Γ = Γ`: `L†L = Γ |r⟩⟨r|`, i.e. the decay rate of `r` is `Γ`. -/
theorem relaxation_rate (sq : α → α) (Γ : α) (hsq : sq Γ * sq Γ = Γ) :
    (toM (relaxOp 2 (sq Γ)))ᴴ * toM (relaxOp 2 (sq Γ)) = Cx.ofReal Γ • toM (ketbra 2 1 1)
    ∧ (toM (relaxOp 3 (sq Γ)))ᴴ * toM (relaxOp 3 (sq Γ)) = Cx.ofReal Γ • toM (ketbra 3 1 1) := by
  constructor
  · apply Matrix.ext; intro i j
    fin_cases i <;> fin_cases j <;>
      simp [Matrix.mul_apply, conjTranspose_apply, relaxOp, ketbra, Cx.zero_eq,
        Cx.one_eq, Cx.star_ofReal, Cx.ofReal_mul, hsq]
  · apply Matrix.ext; intro i j
    fin_cases i <;> fin_cases j <;>
      simp [Matrix.mul_apply, conjTranspose_apply, relaxOp, ketbra, Cx.zero_eq,
        Cx.one_eq, Cx.star_ofReal, Cx.ofReal_mul, hsq]

end relax

/-! ### dephasing -/
section deph
variable {α : Type} [Field α]

/-- What the code returns for dephasing. -/
theorem dephasing_op (v : Variant) (sq : α → α) (nm : NoiseModel α) (it : Interact) (n : Nat)
    (hn : 2 ≤ n) (hty : .dephasing ∈ nm.types) (hyp : nm.hyperfineNonzero = false) :
    getLindblad v sq .dephasing nm it n = .ok [dephOp n (sq (nm.dephRate / 2))] := by
  have h2 : ¬ n < 2 := by omega
  simp [getLindblad, hty, hyp, h2]

/-- Full statement for dimension `n`: the emulator's dephasing operator has the dissipator of
Pulser's `(sqrt(2Γ), σ_rr)` (ising) / `(sqrt(2Γ), σ_dd)` (XY), for every state `ρ`. `p` is Pulser's
coefficient (`np.sqrt(2Γ)`, contract `p·p = 2Γ`). -/
def DephasingSameDissipator (n : Nat) (α : Type) [Field α] : Prop :=
  ∀ (sq : α → α) (Γ p : α) (it : Interact), (2 : α) ≠ 0 →
    sq (Γ / 2) * sq (Γ / 2) = Γ / 2 → p * p = 2 * Γ →
    ∀ ρ : Matrix (Fin n) (Fin n) (Cx α),
      diss2 (toM (dephOp n (sq (Γ / 2)))) ρ = diss2 (toM (toEmu it (pulserDeph it n p))) ρ

theorem dephasing_same_dissipator_dim2 : DephasingSameDissipator 2 α := by
  intro sq Γ p it h2 hs hp ρ
  rw [dephOp_eq, pulserDeph_emu it 2 (le_refl 2), toM_smulM, toM_smulM, diss2_smul, diss2_smul,
    diss2_Z_two, Cx.star_ofReal, Cx.star_ofReal, Cx.ofReal_mul, Cx.ofReal_mul, hs, hp, smul_smul]
  congr 1
  ext <;> simp <;> field_simp <;> ring

/-- Dimension 3, as found: equality holds on every `ρ` that has no coherence between the
leakage level and `g`/`r`. -/
theorem dephasing_dim3_partial (sq : α → α) (Γ p : α) (it : Interact) (h2 : (2 : α) ≠ 0)
    (hs : sq (Γ / 2) * sq (Γ / 2) = Γ / 2) (hp : p * p = 2 * Γ)
    (ρ : Matrix (Fin 3) (Fin 3) (Cx α))
    (h02 : ρ 0 2 = 0) (h20 : ρ 2 0 = 0) (h12 : ρ 1 2 = 0) (h21 : ρ 2 1 = 0) :
    diss2 (toM (dephOp 3 (sq (Γ / 2)))) ρ = diss2 (toM (toEmu it (pulserDeph it 3 p))) ρ := by
  rw [dephOp_eq, pulserDeph_emu it 3 (by omega), toM_smulM, toM_smulM, diss2_smul, diss2_smul,
    diss2_Z_three ρ h02 h20 h12 h21, Cx.star_ofReal, Cx.star_ofReal, Cx.ofReal_mul, Cx.ofReal_mul,
    hs, hp, smul_smul]
  congr 1
  ext <;> simp <;> field_simp <;> ring

/-- non-vacuity of the hypotheses: Γ = 2, sq 1 = 1, p = 2 over ℚ. -/
example : (fun _ : ℚ => (1 : ℚ)) ((2 : ℚ) / 2) * (fun _ : ℚ => (1 : ℚ)) ((2 : ℚ) / 2) = (2 : ℚ) / 2
    ∧ (2 : ℚ) * 2 = 2 * 2 := by norm_num

/-- A state with a `g`–`x` coherence: `(|g⟩ + |x⟩)(⟨g| + ⟨x|)` (unnormalised; `diss2` is linear). -/
def rhoGX : Matrix (Fin 3) (Fin 3) (Cx ℚ) :=
  fun i j => if (i.val = 0 ∨ i.val = 2) ∧ (j.val = 0 ∨ j.val = 2) then 1 else 0

/-- **Counterexample (kernel-checked)**: in dimension 3 the dissipators differ. Γ = 2: the
emulator damps `ρ_gx` (entry (0,2) of `diss2` is −1), Pulser's operator does not (entry 0). -/
theorem dephasing_dim3_counterexample : ¬ DephasingSameDissipator 3 ℚ := by
  intro h
  have h1 := h (fun _ => 1) 2 2 .ising (by norm_num) (by norm_num) (by norm_num) rhoGX
  have h2 := congrArg Cx.re (congrFun (congrFun h1 0) 2)
  rw [dephOp_eq, pulserDeph_emu .ising 3 (by omega)] at h2
  simp [diss2, Matrix.mul_apply, Fin.sum_univ_three, conjTranspose_apply, smulM, subM, ketbra,
    Cx.zero_eq, Cx.one_eq, rhoGX] at h2

end deph

/-! ### depolarizing -/
section depol
variable {α : Type} [Field α]

/-- Sign by which the emulator's depolarizing operators differ from Pulser's transported ones. -/
def depolSign (it : Interact) : List (Cx α) :=
  match it with
  | .ising => [1, -1, -1]
  | .xy => [1, 1, 1]

/-- The three operators returned are `± P (Pulser's x, y, z) Pᵀ` with coefficient `sq (Γ/4)`. -/
theorem depolarizing_ops (v : Variant) (sq : α → α) (nm : NoiseModel α) (it : Interact) (n : Nat)
    (hn : 2 ≤ n) (hty : .depolarizing ∈ nm.types) :
    ∃ X Y Z, getLindblad v sq .depolarizing nm it n = .ok [X, Y, Z]
      ∧ List.map toM [X, Y, Z]
        = List.zipWith (fun ε M => ε • toM (toEmu it M)) (depolSign (α := α) it)
            (pulserDepol n (sq (nm.depolRate / 4))) := by
  have h2 : ¬ n < 2 := by omega
  refine ⟨depolX n (sq (nm.depolRate / 4)), depolY n (sq (nm.depolRate / 4)),
    dephOp n (sq (nm.depolRate / 4)), by simp [getLindblad, hty, h2], ?_⟩
  cases it with
  | xy =>
    simp only [depolSign, pulserDepol, List.zipWith_cons_cons, List.zipWith_nil_right, List.map_cons,
      List.map_nil, one_smul]
    rw [← depolX_eq .xy n hn, ← depolY_eq_xy, ← depolZ_eq_xy]
  | ising =>
    simp only [depolSign, pulserDepol, List.zipWith_cons_cons, List.zipWith_nil_right, List.map_cons,
      List.map_nil, one_smul, neg_smul]
    rw [← depolX_eq .ising n hn, ← toM_neg, ← toM_neg, ← depolY_eq_ising n hn, ← depolZ_eq_ising n hn]

/-- Hence the depolarizing channel has Pulser's dissipator, for every `ρ`, every dim ≥ 2, both
interaction types. -/
theorem depolarizing_same_dissipator (v : Variant) (sq : α → α) (nm : NoiseModel α) (it : Interact)
    (n : Nat) (hn : 2 ≤ n) (hty : .depolarizing ∈ nm.types) :
    ∃ Ls, getLindblad v sq .depolarizing nm it n = .ok Ls ∧
      ∀ ρ, diss2L (Ls.map toM) ρ
        = diss2L ((pulserDepol n (sq (nm.depolRate / 4))).map (fun M => toM (toEmu it M))) ρ := by
  obtain ⟨X, Y, Z, hget, hops⟩ := depolarizing_ops v sq nm it n hn hty
  refine ⟨[X, Y, Z], hget, fun ρ => ?_⟩
  rw [hops]
  cases it <;>
    simp [diss2L, depolSign, pulserDepol, diss2_neg]

example : (getLindblad .asFound (fun x : ℚ => x) .depolarizing
    { types := [.depolarizing], relaxRate := 0, dephRate := 0, depolRate := 4, hyperfineNonzero := false,
      effRates := [], effOps := [] } .ising 2).toOption.map List.length = some 3 := by decide

end depol

/-! ### effective noise -/
section eff
variable {α : Type} [Field α]

/-- Full statement in dimension `n` for the as-found code: every effective operator comes out as
`sq rate · P A Pᵀ`. -/
def EffNoiseCorrect (n : Nat) (α : Type) [Field α] : Prop :=
  ∀ (sq : α → α) (rate : α) (op : EffOp α),
    effOne .asFound sq .ising n rate op = toEmu .ising (pulserEff (sq rate) (op.toMat n))

theorem effnoise_xy (v : Variant) (sq : α → α) (n : Nat) (rate : α) (op : EffOp α) :
    effOne v sq .xy n rate op = toEmu .xy (pulserEff (sq rate) (op.toMat n)) := by
  cases v <;> rfl

theorem effnoise_ising_dim2 : EffNoiseCorrect 2 α := by
  intro sq rate op
  simp only [effOne]
  rw [flipBlock_two]; rfl

theorem effnoise_repaired (sq : α → α) (n : Nat) (rate : α) (op : EffOp α) :
    effOne .repaired sq .ising n rate op = toEmu .ising (pulserEff (sq rate) (op.toMat n)) := by
  simp only [effOne]
  rw [flipFull_eq]; rfl

/-- As found, any dimension ≥ 2, under the guard the proof forces. -/
theorem effnoise_ising_partial (sq : α → α) (n : Nat) (hn : 2 ≤ n) (rate : α) (op : EffOp α)
    (hg : SwapInvariantOutsideBlock (op.toMat n)) :
    effOne .asFound sq .ising n rate op = toEmu .ising (pulserEff (sq rate) (op.toMat n)) := by
  simp only [effOne]
  rw [flipBlock_guard hn _ (swapInvariant_scale _ _ hg)]; rfl

/-- The guard in dimension 3, spelled out: the couplings to the leakage level are the same for
`r` and `g` (in particular: no coupling to `x` at all). -/
theorem guard_dim3 (a : Mat 3 α) (h20 : a 2 0 = a 2 1) (h02 : a 0 2 = a 1 2) :
    SwapInvariantOutsideBlock a := by
  intro i j hb
  fin_cases i <;> fin_cases j <;> simp [toPulser] at hb ⊢ <;>
    first | exact h20 | exact h20.symm | exact h02 | exact h02.symm

/-- Pulser's `|x⟩⟨r|` (row `x` = 2, column `r` = 0 in Pulser's ordering). -/
def opXR : EffOp ℚ := { rows := 3, cols := 3, m := fun i j => if i = 2 ∧ j = 0 then ⟨1, 0⟩ else ⟨0, 0⟩ }

example : ¬ SwapInvariantOutsideBlock (opXR.toMat 3) := by
  intro h
  have := congrArg Cx.re (h 2 0 (by decide))
  simp [opXR, EffOp.toMat, toPulser] at this

/-- **Counterexample (kernel-checked)**, D5: with `A = E₂₀ = |x⟩⟨r|` and rate 1 the emulator's
operator has its 1 at (2,0) = `|x⟩⟨g|` in the emulator's ordering, where the transported
operator has 0 (its 1 is at (2,1) = `|x⟩⟨r|`). -/
theorem effnoise_dim3_counterexample : ¬ EffNoiseCorrect 3 ℚ := by
  intro h
  have h1 := congrArg Cx.re (congrFun (congrFun (h (fun _ => 1) 1 opXR) 2) 0)
  simp [effOne, flipBlock, scaleOp, toEmu, pulserEff, smulM, toPulser, opXR, EffOp.toMat] at h1

/-- The whole `eff_noise` branch for ising, dim 2 (shape check passed): one operator per
(rate, operator) pair, in order. -/
theorem effnoise_branch_dim2 (v : Variant) (sq : α → α) (nm : NoiseModel α)
    (hty : .effNoise ∈ nm.types)
    (hshape : nm.effOps.all (fun op => op.rows == 2 && op.cols == 2) = true) :
    getLindblad v sq .effNoise nm .ising 2
      = .ok (List.zipWith (fun rate op => toEmu .ising (pulserEff (sq rate) (op.toMat 2)))
          nm.effRates nm.effOps) := by
  have key : effOne v sq .ising 2
      = fun rate op => toEmu .ising (pulserEff (sq rate) (op.toMat 2)) := by
    funext rate op
    cases v
    · exact effnoise_ising_dim2 sq rate op
    · exact effnoise_repaired sq 2 rate op
  simp [getLindblad, hty, effBranch, hshape, key]

/-- A wrongly shaped operator is rejected (ValueError), whatever else the model contains. -/
theorem effnoise_shape_rejected (v : Variant) (sq : α → α) (nm : NoiseModel α) (it : Interact) (n : Nat)
    (hty : .effNoise ∈ nm.types)
    (hshape : nm.effOps.all (fun op => op.rows == n && op.cols == n) = false) :
    getLindblad v sq .effNoise nm it n = .error .valueShape := by
  simp [getLindblad, hty, effBranch, hshape]

end eff

/-! ### `_get_all_lindblad_noise_operators` -/
section all
variable {α : Type} [Field α]

/-- The adapter concatenates the per-type lists in the order of `noise_types`, skipping the
non-Lindbladian types; `None` gives no operators. -/
theorem all_lindblad_is_concat (v : Variant) (sq : α → α) (nm : NoiseModel α) (n : Nat) (it : Interact)
    (parts : List (List (Mat n α)))
    (h : (nm.types.filter (fun t => !t.isNonLindblad)).mapM (fun nt => getLindblad v sq nt nm it n) = .ok parts) :
    allLindblad v sq (some nm) n it = .ok parts.flatten
    ∧ allLindblad v sq (none : Option (NoiseModel α)) n it = .ok [] := by
  constructor
  · simp only [allLindblad, h]; rfl
  · rfl

/-- `PulserData.lindblad_ops` are the operators of the noise model **in effect** (the one also given
to `HamiltonianData`), whatever the other model contains. -/
theorem pulserdata_ops_from_effective_model (v : Variant) (sq : α → α) (prefer : Bool)
    (device config : Option (NoiseModel α)) (n : Nat) (it : Interact) :
    pulserDataLindblad v sq prefer device config n it
      = allLindblad v sq (some (effectiveModel prefer device config)) n it := rfl

/-- With `prefer_device_noise_model=True` the operators do not depend on `config.noise_model`. -/
theorem pulserdata_prefer_device_ignores_config (v : Variant) (sq : α → α)
    (device c1 c2 : Option (NoiseModel α)) (n : Nat) (it : Interact) :
    pulserDataLindblad v sq true device c1 n it = pulserDataLindblad v sq true device c2 n it
    ∧ pulserDataLindblad v sq true device c1 n it
        = allLindblad v sq (some (device.getD NoiseModel.empty)) n it := by
  cases device <;> exact ⟨rfl, rfl⟩

/-- Without it they do not depend on the device's default model. -/
theorem pulserdata_config_ignores_device (v : Variant) (sq : α → α)
    (d1 d2 config : Option (NoiseModel α)) (n : Nat) (it : Interact) :
    pulserDataLindblad v sq false d1 config n it = pulserDataLindblad v sq false d2 config n it
    ∧ pulserDataLindblad v sq false d1 config n it
        = allLindblad v sq (some (config.getD NoiseModel.empty)) n it := by
  cases config <;> exact ⟨rfl, rfl⟩

/-- No model in effect (`None`) → `NoiseModel()` → no jump operators. -/
theorem pulserdata_none_no_ops (v : Variant) (sq : α → α) (prefer : Bool) (other : Option (NoiseModel α))
    (n : Nat) (it : Interact) :
    pulserDataLindblad v sq prefer (if prefer then none else other) (if prefer then other else none) n it
      = .ok [] := by
  cases prefer <;> rfl

example : (pulserDataLindblad .asFound (fun x : ℚ => x) true
    (some { types := [.relaxation], relaxRate := 1, dephRate := 0, depolRate := 0, hyperfineNonzero := false,
            effRates := [], effOps := [] })
    (some { types := [.depolarizing], relaxRate := 0, dephRate := 0, depolRate := 4, hyperfineNonzero := false,
            effRates := [], effOps := [] }) 2 .ising).toOption.map List.length = some 1 := by decide

end all

end EmuVerif.Props.C24
