/-
  C25 — Badly prepared atoms behave as absent, on both back-ends.

  Statement (properties.jsonl): with state-preparation errors, the atoms marked as badly prepared stay in
  the ground state, do not interact, and do not change the dynamics of the other atoms; the remaining atoms
  evolve exactly as in the same sequence without the bad atoms — for any number of bad atoms (including all
  but one, or all), with or without leakage, with any qubit-order setting.

  Theorems about `Model/Dark.lean` (tied to emu_mps/utils.py by exact correspondence, harness/props/c25.py),
  over any commutative (star) ring, for EVERY mask, every number of atoms, every physical dimension and every
  sequence of bond dimensions — also for masks with one or zero surviving atoms:

    * `extended_mps_amp`        `extended_mps_factors`: amplitude(s) of the padded state = amplitude of the reduced
                                state on the levels of the good atoms if every dark atom is in level 0, and 0 otherwise;
      `extended_mps_valid`      the padded factors form a valid chain again (bonds match, outer bonds 1, one `d`);
    * `extended_mpo_amp`        `extended_mpo_factors`: ⟨o|padded|i⟩ = ⟨o_good|reduced|i_good⟩ if `o`, `i` agree on every
                                dark atom and 0 otherwise, i.e. padded = reduced ⊗ identity on the dark atoms;
    * `padded_expect_eq_reduced`  hence `MPO.expect` of the padded operator on the padded state = that of the reduced
                                pair (what `fill_results` hands to the observables);
    * `ext_index_none`, `ext_index_position`, `ext_index_raises_iff`, `filter_good_get`
                                `get_extended_site_index`: `None ↦ None`; `k ↦` the position of the k-th good atom;
                                raises iff there are at most `k` good atoms; boolean-mask filtering of drives /
                                interactions (`init_dark_qubits`, `_get_interaction_matrix` of emu-mps) picks exactly
                                those positions;
    * `sv_dark_params`, `sv_dark_hamiltonian`, `sv_dark_embedding`
                                emu-sv `init_dark_qubits`: every coefficient of a term touching a bad atom is 0 and all
                                others are unchanged; in any module, the Hamiltonian `Σ_i (Ω_i c_x(φ_i) X_i + Ω_i c_y(φ_i) Y_i
                                + δ_i N_i) + Σ_ij U_ij NN_ij` with the zeroed parameters is the sum over the good atoms
                                only, and it is the image of the reduced Hamiltonian under any linear embedding that
                                maps the reduced generators to the full ones (ψ ↦ ψ ⊗ |g…g⟩_bad): H = H_red ⊗ 1.
  As found (open, known finding D2d, class mps-one-or-zero-surviving-atoms):
    * `mps_needs_two_survivors`, `d2d_counterexample`  `init_initial_state` calls `MPS.make(qubit_count)`, which raises
      for `qubit_count ≤ 1`: emu-mps rejects the masks with one or zero surviving atoms although the padding algebra
      above covers them (`extended_mps_amp` has no restriction on the mask).
  PARTIAL: `DynamicsAsAbsent` (a full run with bad atoms = the run of the reduced register) is stated, not proved:
  beyond the Hamiltonian identity it rests on the accuracy of the time-steppers (C01/C02/C07); the harness validates it
  end to end on both back-ends for all masks on 2–5 atoms.
-/
import EmuVerif.Proofs.Dark
import Mathlib.Algebra.Module.LinearMap.Defs
import Mathlib.Algebra.Module.BigOperators

set_option linter.unusedSectionVars false
set_option linter.unusedVariables false
set_option linter.unusedSimpArgs false

namespace EmuVerif.Props.C25
open EmuVerif EmuVerif.Tensor EmuVerif.Dark Finset

section ring
variable {K : Type} [CommRing K]

theorem isPad_state (dim : Nat) :
    IsPad (K := K) passState (fun b => Site.make b dim b (padEntries passState)) (fun b => b) ∧
    IsPad (K := K) passState (fun b => Site.make b dim 1 (padEntries passState)) (fun _ => 1) :=
  ⟨fun b => ⟨rfl, rfl, by simp⟩, fun b => ⟨rfl, rfl, by simp⟩⟩

theorem isPad_op (dim : Nat) :
    IsPad (K := K) (passOp dim) (fun b => Site.make b (dim * dim) b (padEntries (passOp dim))) (fun b => b) ∧
    IsPad (K := K) (passOp dim) (fun b => Site.make b (dim * dim) 1 (padEntries (passOp dim))) (fun _ => 1) :=
  ⟨fun b => ⟨rfl, rfl, by simp⟩, fun b => ⟨rfl, rfl, by simp⟩⟩

/-- `extended_mps_factors`: the padded state is `reduced ⊗ |0…0⟩_dark`, for every mask. -/
theorem extended_mps_amp (fs gs : List (Site K)) (w : List Bool) (h : extendedMps fs w = some gs)
    (hw : Wf fs) (h1 : headDl fs = 1) (s : List Nat) (hs : s.length = w.length) :
    amp gs s = if darkPass passState w s = true then amp fs (restrict w s) else 0 := by
  unfold extendedMps at h
  split at h
  · exact absurd h (by simp)
  · rename_i hc
    simp only [Option.some.injEq] at h
    subst h
    simp only [amp_eq]
    exact ampVecF_extend passState _ _ _ _ (isPad_state _).1 (isPad_state _).2 w fs 1 hw h1.symm
      (by simpa using hc) s hs _

/-- the padded factors satisfy what the `MPS` constructor asserts (Wf form: bonds match, outer bonds 1) -/
theorem extended_mps_valid (fs gs : List (Site K)) (w : List Bool) (h : extendedMps fs w = some gs)
    (hw : Wf fs) (h1 : headDl fs = 1) (dim : Nat) (hdim : stateDim fs = dim) (hd : ∀ A ∈ fs, A.d = dim) :
    Wf gs ∧ headDl gs = 1 ∧ gs.length = w.length ∧ ∀ A ∈ gs, A.d = dim := by
  unfold extendedMps at h
  split at h
  · exact absurd h (by simp)
  · rename_i hc
    simp only [Option.some.injEq] at h
    subst h
    obtain ⟨a, b, c⟩ := wf_extend passState _ _ (isPad_state (stateDim fs)).1 (isPad_state _).2 w fs 1 hw h1.symm
      (by simpa using hc)
    exact ⟨a, b, c, d_extend dim _ _ (fun b => by simp [hdim]) (fun b => by simp [hdim]) w fs 1 hd⟩

/-- `extended_mpo_factors`: the padded operator is `reduced ⊗ identity on the dark atoms`, for every mask. -/
theorem extended_mpo_amp (dim : Nat) (ws hs : List (Site K)) (w : List Bool) (h : extendedMpo ws w = some hs)
    (hw : Wf ws) (h1 : headDl ws = 1) (hdim : opDim ws = dim) (o i : List Nat) (ho : o.length = w.length)
    (hi : i.length = w.length) (hid : ∀ y ∈ i, y < dim) :
    opAmp dim hs o i = if darkAgree w o i = true then opAmp dim ws (restrict w o) (restrict w i) else 0 := by
  unfold extendedMpo at h
  split at h
  · exact absurd h (by simp)
  · rename_i hc
    simp only [Option.some.injEq] at h
    subst h
    have hoi : o.length = i.length := by rw [ho, hi]
    simp only [opAmp, amp_eq, hdim]
    rw [ampVecF_extend (passOp dim) _ _ _ _ (isPad_op dim).1 (isPad_op dim).2 w ws 1 hw h1.symm
      (by simpa using hc) (opString dim o i) (by simp [opString, hoi, hi]) _]
    rw [darkPass_opString dim w o i hoi hid, restrict_opString dim w o i hoi]

theorem extended_mpo_valid (dim : Nat) (ws hs : List (Site K)) (w : List Bool) (h : extendedMpo ws w = some hs)
    (hw : Wf ws) (h1 : headDl ws = 1) (hdim : opDim ws = dim) :
    Wf hs ∧ headDl hs = 1 ∧ hs.length = w.length := by
  unfold extendedMpo at h
  split at h
  · exact absurd h (by simp)
  · rename_i hc
    simp only [Option.some.injEq] at h
    subst h
    exact wf_extend (passOp (opDim ws)) _ _ (isPad_op _).1 (isPad_op _).2 w ws 1 hw h1.symm (by simpa using hc)

/-! ### `get_extended_site_index` and boolean-mask filtering -/

theorem ext_index_none (w : List Bool) : getExtendedSiteIndex w none = some none := rfl

/-- the answer is the position of the `k`-th good atom -/
theorem ext_index_position (w : List Bool) (k p : Nat) (h : getExtendedSiteIndex w (some k) = some (some p)) :
    w[p]? = some true ∧ countGood (w.take p) = k := by
  simp only [getExtendedSiteIndex, Option.map_eq_some_iff] at h
  obtain ⟨q, hq, hqp⟩ := h
  simp only [Option.some.injEq] at hqp
  subst hqp
  simpa using (extIndex_some w k 0 0 q (Nat.zero_le _) hq).2

/-- `ValueError` exactly when there is no `k`-th good atom -/
theorem ext_index_raises_iff (w : List Bool) (k : Nat) :
    getExtendedSiteIndex w (some k) = none ↔ countGood w ≤ k := by
  simp only [getExtendedSiteIndex, Option.map_eq_none_iff]
  simpa using extIndex_none_iff w k 0 0 (Nat.zero_le _)

/-- `omega[:, mask]`, `matrix[mask, :][:, mask]`: reduced index `k` holds the entry of the `k`-th good atom -/
theorem filter_good_get {β : Type} (w : List Bool) (xs : List β) (hl : xs.length = w.length) (k p : Nat)
    (h : getExtendedSiteIndex w (some k) = some (some p)) : (filterGood w xs)[k]? = xs[p]? := by
  simp only [getExtendedSiteIndex, Option.map_eq_some_iff] at h
  obtain ⟨q, hq, hqp⟩ := h
  simp only [Option.some.injEq] at hqp
  subst hqp
  simpa [filterGood] using restrict_get w xs hl k 0 0 q (Nat.zero_le _) hq

/-! ### emu-sv: zeroed parameters -/

/-- every coefficient touching a bad atom is zero, every other coefficient is unchanged -/
theorem sv_dark_params (bad : Nat → Bool) (p : Drives K) (U : Nat → Nat → K) (i : Nat) :
    (bad i = true → (svZeroDrives bad p).omega i = 0 ∧ (svZeroDrives bad p).delta i = 0 ∧
        (svZeroDrives bad p).phi i = 0 ∧ ∀ j, svZeroU bad U i j = 0 ∧ svZeroU bad U j i = 0) ∧
    (bad i = false → (svZeroDrives bad p).omega i = p.omega i ∧ (svZeroDrives bad p).delta i = p.delta i ∧
        (svZeroDrives bad p).phi i = p.phi i ∧ ∀ j, bad j = false → svZeroU bad U i j = U i j) := by
  constructor
  · intro h; simp [svZeroDrives, svZeroU, h]
  · intro h
    exact ⟨by simp [svZeroDrives, h], by simp [svZeroDrives, h], by simp [svZeroDrives, h],
      fun j hj => by simp [svZeroU, h, hj]⟩

section ham
variable {M Mr : Type} [AddCommGroup M] [Module K M] [AddCommGroup Mr] [Module K Mr]

/-- a Rydberg-type Hamiltonian over the atoms in `S`, in any module: `X i, Y i, N i, NN i j` are the embedded
one- and two-atom operators, `cx, cy` the phase functions (cos, −sin) -/
def hamOn (S : Finset Nat) (X Y N : Nat → M) (NN : Nat → Nat → M) (cx cy : K → K) (p : Drives K)
    (U : Nat → Nat → K) : M :=
  ∑ i ∈ S, ((p.omega i * cx (p.phi i)) • X i + (p.omega i * cy (p.phi i)) • Y i + p.delta i • N i)
    + ∑ i ∈ S, ∑ j ∈ S, U i j • NN i j

/-- emu-sv `init_dark_qubits`: the Hamiltonian built from the zeroed parameters contains the terms of the
good atoms only (with their original coefficients). -/
theorem sv_dark_hamiltonian (n : Nat) (bad : Nat → Bool) (X Y N : Nat → M) (NN : Nat → Nat → M) (cx cy : K → K)
    (p : Drives K) (U : Nat → Nat → K) :
    hamOn (range n) X Y N NN cx cy (svZeroDrives bad p) (svZeroU bad U)
      = hamOn ((range n).filter (fun i => bad i = false)) X Y N NN cx cy p U := by
  unfold hamOn
  simp only [Finset.sum_filter]
  congr 1
  · refine Finset.sum_congr rfl (fun i _ => ?_)
    by_cases h : bad i = true <;> simp [svZeroDrives, h]
  · refine Finset.sum_congr rfl (fun i _ => ?_)
    by_cases h : bad i = true
    · simp [svZeroU, h]
    · have h' : bad i = false := by simpa using h
      simp only [h', if_true]
      refine Finset.sum_congr rfl (fun j _ => ?_)
      by_cases hj : bad j = true
      · simp [svZeroU, hj]
      · have hj' : bad j = false := by simpa using hj
        simp [svZeroU, h', hj']

/-- `H = H_red ⊗ 1`: any linear embedding that maps the reduced generators of the good atoms to the full
ones maps the reduced Hamiltonian to the Hamiltonian of the good atoms. -/
theorem sv_dark_embedding (S : Finset Nat) (emb : Mr →ₗ[K] M) (X Y N : Nat → M) (NN : Nat → Nat → M)
    (Xr Yr Nr : Nat → Mr) (NNr : Nat → Nat → Mr) (hX : ∀ i ∈ S, emb (Xr i) = X i) (hY : ∀ i ∈ S, emb (Yr i) = Y i)
    (hN : ∀ i ∈ S, emb (Nr i) = N i) (hNN : ∀ i ∈ S, ∀ j ∈ S, emb (NNr i j) = NN i j)
    (cx cy : K → K) (p : Drives K) (U : Nat → Nat → K) :
    emb (hamOn S Xr Yr Nr NNr cx cy p U) = hamOn S X Y N NN cx cy p U := by
  unfold hamOn
  simp only [map_add, map_sum, map_smul]
  congr 1
  · exact Finset.sum_congr rfl (fun i hi => by rw [hX i hi, hY i hi, hN i hi])
  · exact Finset.sum_congr rfl (fun i hi => Finset.sum_congr rfl (fun j hj => by rw [hNN i hi j hj]))

end ham

/-! ### as found: one or zero surviving atoms (D2d, open) -/

theorem mps_needs_two_survivors (w : List Bool) : mpsInitialSites w = none ↔ countGood w ≤ 1 := by
  unfold mpsInitialSites; split <;> simp_all

/-- emu-mps does not accept every mask (the property asks for "all but one, or all of them") -/
theorem d2d_counterexample : ¬ ∀ w : List Bool, (mpsInitialSites w).isSome = true := by
  intro h
  exact absurd (h [false, false, true]) (by decide)

end ring

section star
variable {K : Type} [CommRing K] [StarRing K]

/-- `expect_eq_dense` of C11 with the constructor assertions in `Wf` form (no lower bound on the length) -/
theorem expect_dense_wf (d : Nat) (As Ws : List (Site K)) (hlen : As.length = Ws.length) (aW : Wf As)
    (a1 : headDl As = 1) (ad : ∀ A ∈ As, A.d = d) (wW : Wf Ws) (w1 : headDl Ws = 1) :
    expect As Ws = some (sumStrings d As.length (fun s => sumStrings d As.length (fun t =>
      star (amp As s) * opAmp d Ws s t * amp As t))) := by
  unfold expect
  rw [if_neg (by simpa using hlen)]
  congr 1
  rw [expectAcc_get3, expectAccF_eq d As Ws hlen aW wW ad]
  refine sumStrings_congr _ _ _ _ (fun s _ => sumStrings_congr _ _ _ _ (fun t _ => ?_))
  simp [a1, w1, ones3, opAmp, amp_eq_col As aW a1, amp_eq_col Ws wW w1]

/-- What `fill_results` hands to the observables: the expectation value of the padded operator on the padded
state equals that of the reduced pair — for every mask (any number of dark atoms) and every dimension. -/
theorem padded_expect_eq_reduced (dim : Nat) (hdpos : 0 < dim) (fs ws gs hs : List (Site K)) (w : List Bool)
    (hg : extendedMps fs w = some gs) (hh : extendedMpo ws w = some hs)
    (fW : Wf fs) (f1 : headDl fs = 1) (fd : ∀ A ∈ fs, A.d = dim) (fdim : stateDim fs = dim)
    (wW : Wf ws) (w1 : headDl ws = 1) (wdim : opDim ws = dim) :
    expect gs hs = expect fs ws := by
  obtain ⟨gW, g1, gl, gd⟩ := extended_mps_valid fs gs w hg fW f1 dim fdim fd
  obtain ⟨hW, h1, hl⟩ := extended_mpo_valid dim ws hs w hh wW w1 wdim
  have hfl : fs.length = countGood w := by
    unfold extendedMps at hg; split at hg
    · exact absurd hg (by simp)
    · rename_i hc; simpa using hc
  have hwl : ws.length = countGood w := by
    unfold extendedMpo at hh; split at hh
    · exact absurd hh (by simp)
    · rename_i hc; simpa using hc
  rw [expect_dense_wf dim gs hs (by rw [gl, hl]) gW g1 gd hW h1,
    expect_dense_wf dim fs ws (by rw [hfl, hwl]) fW f1 fd wW w1, gl, hfl]
  congr 1
  rw [← sumStrings_mask dim hdpos w]
  refine sumStrings_congr' _ _ _ _ (fun s hs' hsd => ?_)
  rw [extended_mps_amp fs gs w hg fW f1 s hs']
  by_cases hps : darkPass passState w s = true
  · simp only [hps, if_true]
    rw [← sumStrings_mask dim hdpos w]
    refine sumStrings_congr' _ _ _ _ (fun t ht' htd => ?_)
    rw [extended_mps_amp fs gs w hg fW f1 t ht', extended_mpo_amp dim ws hs w hh wW w1 wdim s t hs' ht' htd]
    by_cases hpt : darkPass passState w t = true
    · simp [hpt, darkAgree_of_pass w s t hps hpt (by rw [hs', ht'])]
    · simp [hpt]
  · simp only [hps]
    simp only [Bool.false_eq_true, if_false, star_zero, zero_mul]
    exact sumStrings_zero _ _

end star

/-! ### PARTIAL: the dynamics (not proved here) -/

/-- Full-strength statement for a back-end `run`: running with a bad-atom mask and looking at the good atoms
gives the run of the reduced register. NOT proved: rests on the accuracy of the time-steppers. -/
def DynamicsAsAbsent {Params Results : Type} (run : Params → Results) (withMask : List Bool → Params → Params)
    (reduce : List Bool → Params → Params) (goodPart : List Bool → Results → Results) : Prop :=
  ∀ (w : List Bool) (p : Params), goodPart w (run (withMask w p)) = run (reduce w p)

/-! ### non-vacuity -/

def exState : List (Site ℤ) :=
  [{ dl := 1, d := 3, dr := 2, t := fun x _ r => (x : ℤ) + r + 1 },
   { dl := 2, d := 3, dr := 1, t := fun x l _ => (x : ℤ) * l - 1 }]
def exOp : List (Site ℤ) :=
  [{ dl := 1, d := 9, dr := 1, t := fun x _ _ => (x : ℤ) - 2 },
   { dl := 1, d := 9, dr := 1, t := fun x _ _ => if x = 4 then 3 else 1 }]
def exMask : List Bool := [false, true, false, false, true, false]

example : ∃ gs, extendedMps exState exMask = some gs ∧ gs.length = 6 ∧
    amp gs [0, 2, 0, 0, 1, 0] = amp exState [2, 1] ∧ amp exState [2, 1] = -3 ∧ amp gs [0, 2, 1, 0, 1, 0] = 0 :=
  ⟨_, rfl, by decide, by decide, by decide, by decide⟩
example : Wf exState ∧ headDl exState = 1 ∧ stateDim exState = 3 ∧ opDim exOp = 3 := by
  refine ⟨⟨rfl, rfl, trivial⟩, rfl, rfl, by decide⟩
example : ∃ hs, extendedMpo exOp exMask = some hs ∧
    opAmp 3 hs [2, 1, 1, 0, 1, 2] [2, 0, 1, 0, 1, 2] = opAmp 3 exOp [1, 1] [0, 1] ∧ opAmp 3 exOp [1, 1] [0, 1] = 3 ∧
    opAmp 3 hs [2, 1, 1, 0, 1, 2] [2, 0, 1, 0, 1, 1] = 0 := ⟨_, rfl, by decide, by decide, by decide⟩
/-- one survivor and no survivor: the padding algebra covers them -/
example : ∃ gs, extendedMps ([] : List (Site ℤ)) [false, false] = some gs ∧ amp gs [0, 0] = 1 ∧ amp gs [0, 1] = 0 :=
  ⟨_, rfl, by decide, by decide⟩
example : getExtendedSiteIndex exMask (some 1) = some (some 4) ∧ getExtendedSiteIndex exMask (some 2) = none ∧
    filterGood exMask [10, 11, 12, 13, 14, 15] = [11, 14] := by decide
example : mpsInitialSites [false, true, false] = none ∧ mpsInitialSites exMask = some 2 := by decide

end EmuVerif.Props.C25
