/-
  C26 — Resuming from an autosave gives the same results as an uninterrupted run.

  Statement (properties.jsonl): if an emu-mps simulation is interrupted at any point after an
  autosave and resumed from that file, the returned results equal those of the same simulation
  run without interruption (noiseless: same values, times, atom order; noisy: same distribution).
  The autosave file is removed when the run finishes. Quantifier: every progress step at which an
  autosave can be written, reordering on/off, TDVP/DMRG/noisy.

  The theorems are about the glue (`MPSBackend._run`, `.resume`, `._run_from_sequence_data`,
  `save_simulation`, `permute_results`) over an ABSTRACT back-end: any state type `σ`, any
  deterministic `progress : σ → σ`, any `finished`, any `results`, any post-processing `post`.
  Contract assumed (validated by the harness on every run, not proved): unpickling the autosave
  gives back a state on which `progress`/`finished`/`results`/`post` behave as on the pickled one
  (`pickle` round trip of `MPSBackendImpl`), and `progress` is a function of the pickled state
  (+ the RNG stream for noisy runs). The numerical content of `progress` is not modelled here.

  Proved, full strength on the glue:
    * `iterate_add`                 – `iter f (m+n) = iter f n ∘ iter f m`;
    * `resume_eq_run`               – the uninterrupted run takes `n` progress calls ⇒ for every save
                                      point `m ≤ n`, `resume (snapshot_m) = run`, and both are
                                      `post sf (results sf)` for the same final state `sf` (the
                                      post-processing `permute_results` is applied exactly once);
    * `resume_eq_run_of_terminates` – same, from "the uninterrupted run returns" alone;
    * `crash_during_autosave_then_resume` – C27 + C26: crash anywhere inside any later autosave,
                                      load whatever is under the advertised name, resume ⇒ the
                                      uninterrupted results;
    * `autosave_removed_run` / `autosave_removed_resume` – the advertised file is absent at the end;
    * `run_results_clock_independent` – results do not depend on the clock / save schedule;
    * `saved_snapshots_are_iterates` – everything `_run` ever writes is a complete
                                      `save_simulation` of some iterate `1 ≤ m ≤ n` (so the
                                      quantifier "every save point" above is the right one);
    * `asFound_counterexample`      – the `resume` before commit ae5e263 (no `permute_results`)
                                      differs from `run` as soon as `post` is not the identity.
  Noisy runs (the RNG state is NOT in the pickle):
    * `noisy_same_tape`             – with `progress` deterministic given an RNG tape, resuming from
                                      snapshot `m` *with the unread rest of the tape* reproduces the
                                      uninterrupted run (state and tape position);
    * `noisy_other_tape_counterexample` – with a fresh tape the values differ in general;
    * `noisy_same_law`              – for every lawful monad `m` and `progress : σ → m σ` (independent
                                      fresh randomness at each call): the law of the uninterrupted run
                                      with `a + b` progress calls is the law of the snapshot at `a`
                                      bound to the law of a resumed run — "same distribution".
                                      `Props/C26Law.lean` instantiates it at Mathlib's `PMF`
                                      (`noisy_same_law_pmf`, audited in the thorough tier: the import
                                      of Mathlib's measure theory costs 10–25 s per run).
      Assumed there: the draws after a restart are independent of the past and identically
      distributed (fresh `random` state) — this is the kernel reading of `progress`.
-/
import EmuVerif.Proofs.Autosave

namespace EmuVerif.Props.C26
open EmuVerif.Autosave

variable {σ ρ : Type}

theorem iterate_add (f : σ → σ) (m n : Nat) : iter f (m + n) = iter f n ∘ iter f m := by
  funext s; exact iter_add f m n s

/-- The uninterrupted run takes exactly `n` progress calls. -/
structure TakesSteps (M : Machine σ ρ) (s0 : σ) (n : Nat) : Prop where
  running : ∀ k, k < n → M.finished (iter M.progress k s0) = false
  done : M.finished (iter M.progress n s0) = true

theorem resume_eq_run (M : Machine σ ρ) (s0 : σ) (n fuel : Nat) (h : TakesSteps M s0 n)
    (hfuel : n ≤ fuel) (m : Nat) (hm : m ≤ n) :
    resume M fuel (iter M.progress m s0) = run M fuel s0 ∧
      run M fuel s0 =
        some (M.post (iter M.progress n s0) (M.results (iter M.progress n s0))) := by
  have h1 := loop_from_iterate M s0 n m fuel hm (by omega) h.running h.done
  have h2 := loop_eq_of_first M n s0 fuel hfuel h.running h.done
  simp [resume, run, h1, h2]

/-- Every returning run takes some exact number of steps. -/
theorem takesSteps_of_run (M : Machine σ ρ) (s0 : σ) (fuel : Nat) (r : ρ)
    (h : run M fuel s0 = some r) : ∃ n, n ≤ fuel ∧ TakesSteps M s0 n := by
  unfold run at h
  cases hl : loop M fuel s0 with
  | none => simp [hl] at h
  | some sf =>
    obtain ⟨n, hn, he, hfin, hmin⟩ := loop_some M fuel s0 sf hl
    exact ⟨n, hn, hmin, by rw [← he]; exact hfin⟩

theorem resume_eq_run_of_terminates (M : Machine σ ρ) (s0 : σ) (fuel : Nat) (r : ρ)
    (h : run M fuel s0 = some r) :
    ∃ n, TakesSteps M s0 n ∧ ∀ m, m ≤ n → resume M fuel (iter M.progress m s0) = some r := by
  obtain ⟨n, hn, ht⟩ := takesSteps_of_run M s0 fuel r h
  exact ⟨n, ht, fun m hm => by rw [(resume_eq_run M s0 n fuel ht hn m hm).1, h]⟩

/-- C27 + C26: any directory, any completed autosaves of iterates `≤ n` (at least one, of the
`m`-th), a crash anywhere inside the autosave of the `m'`-th iterate; `resume` from the advertised
name loads a snapshot and returns the uninterrupted results. -/
theorem crash_during_autosave_then_resume (M : Machine σ ρ) (s0 : σ) (n fuel : Nat)
    (h : TakesSteps M s0 n) (hfuel : n ≤ fuel) (fs0 : FS σ) (ms : List Nat) (m m' : Nat)
    (hm : m ≤ n) (hm' : m' ≤ n) :
    ∀ s ∈ crashStates (afterSaves fs0 ((ms ++ [m]).map (fun k => iter M.progress k s0)))
        (saveNew (iter M.progress m' s0)),
      resumeFS M fuel s = run M fuel s0 ∧ (run M fuel s0).isSome := by
  intro s hs
  have hr := resume_eq_run M s0 n fuel h hfuel
  rw [List.map_append, List.map_singleton] at hs
  have hb := EmuVerif.Autosave.afterSaves_snoc_base fs0 (ms.map (fun k => iter M.progress k s0))
    (iter M.progress m s0)
  have hc : s.base = .complete (iter M.progress m s0) ∨ s.base = .complete (iter M.progress m' s0) := by
    have := crashStates_saveNew (afterSaves fs0 (ms.map (fun k => iter M.progress k s0) ++
      [iter M.progress m s0])) (iter M.progress m' s0)
    rw [this] at hs
    simp only [List.mem_cons, List.mem_nil_iff, or_false] at hs
    rcases hs with rfl | rfl | rfl | rfl | rfl | rfl
    · exact Or.inl hb
    · exact Or.inl hb
    · exact Or.inl hb
    · exact Or.inl hb
    · exact Or.inl hb
    · exact Or.inr rfl
  refine ⟨?_, by rw [(hr 0 (Nat.zero_le _)).2]; rfl⟩
  rcases hc with hc | hc
  · simp [resumeFS, load_of_base hc, (hr m hm).1]
  · simp [resumeFS, load_of_base hc, (hr m' hm').1]

/-! ### With the clock and the directory -/

theorem autosave_removed_run (M : Machine σ ρ) (dt : Int) (clock : List Int) (p : Proc σ)
    (fs : FS σ) (r : ρ) (fs' : FS σ) (h : runW M dt clock p fs = some (r, fs')) :
    fs'.base = .absent := by
  unfold runW at h
  cases ht : runTrace M dt clock p with
  | none => simp [ht] at h
  | some x =>
    obtain ⟨s, ops⟩ := x
    simp [ht] at h
    rw [← h.2]; exact runOps_finalOps_base _

theorem autosave_removed_resume (M : Machine σ ρ) (dt now0 : Int) (clock : List Int)
    (fs : FS σ) (r : ρ) (fs' : FS σ) (h : resumeW M dt now0 clock fs = some (r, fs')) :
    fs'.base = .absent := by
  unfold resumeW at h
  cases hl : load fs with
  | none => simp [hl] at h
  | some v => simp [hl] at h; exact autosave_removed_run M dt clock _ fs r fs' h

/-- The results of `_run` + `permute_results` do not depend on clock readings, `autosave_dt`,
`last_save_time` or the directory: they are `run` with one unit of fuel per clock reading. -/
theorem run_results_clock_independent (M : Machine σ ρ) (dt : Int) (clock : List Int)
    (p : Proc σ) (fs : FS σ) (r : ρ) (fs' : FS σ) (h : runW M dt clock p fs = some (r, fs')) :
    run M clock.length p.st = some r := by
  unfold runW at h
  cases ht : runTrace M dt clock p with
  | none => simp [ht] at h
  | some x =>
    obtain ⟨s, ops⟩ := x
    simp [ht] at h
    simp [run, runTrace_loop M dt clock p s ops ht, h.1]

theorem saved_snapshots_are_iterates (M : Machine σ ρ) (dt : Int) (clock : List Int) (p : Proc σ)
    (s : σ) (ops : List (Op σ)) (h : runTrace M dt clock p = some (s, ops)) :
    ∃ n, s = iter M.progress n p.st ∧ SavesOf M p.st n ops :=
  runTrace_saves M dt clock p s ops h

/-! ### The `resume` of the tree before commit ae5e263 -/

/-- Counter machine: state = number of progress calls, finished at 2, results = the state,
post-processing = a non-trivial relabelling. -/
def toy : Machine Nat Nat := ⟨(· + 1), (· ≥ 2), id, fun _ r => r + 100⟩

theorem asFound_counterexample : resumeAsFound toy 5 (iter toy.progress 1 0) ≠ run toy 5 0 := by
  decide

/-! ### Noisy runs -/

/-- Identical RNG stream: the uninterrupted run of `a + b` progress calls on tape `t` equals the
run of `a` calls (snapshot + unread tape) followed by a resumed run of `b` calls on the unread tape. -/
theorem noisy_same_tape {τ : Type} (finished : σ → Bool) (f : TapeStep τ σ) (a b : Nat) (s0 : σ)
    (t : List τ) :
    runTape finished f (a + b) s0 t =
      runTape finished f b (runTape finished f a s0 t).1 (runTape finished f a s0 t).2 := by
  unfold runTape
  rw [iterM_add]
  rfl

/-- Toy noisy machine: each progress call adds the next tape entry (0 when the tape is empty). -/
def toyNoisy : TapeStep Nat Nat := fun s => do
  let t ← get
  match t with
  | [] => pure s
  | x :: r => set r; pure (s + x)

/-- A resumed run that draws from a *different* stream gives different values: equality of
values needs the identical stream, otherwise only the law can agree. -/
theorem noisy_other_tape_counterexample :
    let snap := runTape (fun _ => false) toyNoisy 1 0 [5, 7]
    (runTape (fun _ => false) toyNoisy 1 snap.1 [9]).1 ≠
      (runTape (fun _ => false) toyNoisy 2 0 [5, 7]).1 := by
  decide

/-- Same distribution, for every lawful (probability) monad `m`: with `progress : σ → m σ` drawing fresh
randomness at each call (a Markov kernel), the law of the uninterrupted run (`a + b` calls) is the law of the
`a`-th snapshot bound to the law of the resumed run from that snapshot (`b` more calls). Instantiated at
Mathlib's `PMF` in `Props/C26Law.lean` (`noisy_same_law_pmf`); at `StateM tape` it is `noisy_same_tape`. -/
theorem noisy_same_law {m : Type → Type} [Monad m] [LawfulMonad m] (finished : σ → Bool)
    (f : σ → m σ) (a b : Nat) (s0 : σ) :
    iterM (stepM finished f) (a + b) s0 =
      iterM (stepM finished f) a s0 >>= iterM (stepM finished f) b :=
  iterM_add _ a b s0

/-! ### Non-vacuity -/

example : TakesSteps toy 0 2 := ⟨by decide, by decide⟩

/-- `resume_eq_run` instantiated: three different save points, same (post-processed) result. -/
example : (List.range 3).map (fun m => resume toy 5 (iter toy.progress m 0)) =
    [some 102, some 102, some 102] ∧ run toy 5 0 = some 102 := by decide

/-- A run on the clock `10, 20, 30` with `autosave_dt = 15`, `last_save_time = 0`: one autosave
(at the second progress call), removed at the end. -/
example : (runW toy 15 [10, 20, 30] ⟨0, 0⟩ FS.empty) = some (102, FS.empty) ∧
    (runTrace toy 15 [10, 20, 30] ⟨0, 0⟩).map (·.2) = some (saveNew 2) := by decide

example : runTape (fun _ => false) toyNoisy 2 0 [5, 7] = (12, []) := by decide

end EmuVerif.Props.C26
