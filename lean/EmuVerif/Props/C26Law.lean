/-
  C26, noisy clause at Mathlib's `PMF`: "for noisy runs, the same distribution".

  `progress : σ → PMF σ` is the Markov kernel of one `progress` call (fresh, independent randomness
  at each call — the RNG state is not pickled, a restarted process draws from a fresh stream).
    * `noisy_same_law_pmf`           – law of the uninterrupted run (`a + b` progress calls) = law of
                                       the `a`-th snapshot bound to the law of the resumed run;
    * `noisy_same_law_deterministic` – for point-mass kernels this is `iterate_add`.
  Kept apart from `Props/C26.lean` because importing Mathlib's probability-mass functions (measure
  theory) costs 10–25 s per check run; audited by the thorough tier (`Audit/C26Law.lean`).
-/
import EmuVerif.Props.C26
import Mathlib.Probability.ProbabilityMassFunction.Constructions

namespace EmuVerif.Props.C26
open EmuVerif.Autosave

variable {σ : Type}

theorem noisy_same_law_pmf (finished : σ → Bool) (f : σ → PMF σ) (a b : Nat) (s0 : σ) :
    iterM (stepM finished f) (a + b) s0 =
      (iterM (stepM finished f) a s0).bind (iterM (stepM finished f) b) :=
  noisy_same_law finished f a b s0

theorem noisy_same_law_deterministic (finished : σ → Bool) (g : σ → σ) (n : Nat) (s0 : σ) :
    iterM (stepM finished (fun s => PMF.pure (g s))) n s0 =
      PMF.pure (iter (fun s => if finished s then s else g s) n s0) := by
  induction n generalizing s0 with
  | zero => rfl
  | succ n ih =>
    simp only [iterM, iter, stepM]
    split
    · rw [show (pure s0 : PMF σ) = PMF.pure s0 from rfl]
      show (PMF.pure s0).bind _ = _
      rw [PMF.pure_bind]; exact ih s0
    · show (PMF.pure (g s0)).bind _ = _
      rw [PMF.pure_bind]; exact ih (g s0)

/-- Non-vacuity: a fair-coin kernel on `Bool` is a legitimate (genuinely random) `progress`. -/
noncomputable example : Bool → PMF Bool := fun _ =>
  PMF.ofFintype (fun _ : Bool => (2 : ENNReal)⁻¹) (by simp; exact ENNReal.mul_inv_cancel (by norm_num) (by norm_num))

end EmuVerif.Props.C26
