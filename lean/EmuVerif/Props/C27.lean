/-
  C27 — A loadable autosave always survives a crash during autosaving.

  Statement (properties.jsonl): once the first autosave has completed, a crash at any point
  during a later autosave leaves a complete, loadable snapshot under the advertised autosave
  file name (the previous or the new one); resuming from it never fails because the file is
  missing or partially written. Quantifier: a crash before/after every file-system operation
  (write, rename, remove) of every autosave after the first.

  All theorems are about `Model.Autosave` (tied to `MPSBackendImpl.save_simulation` by the
  operation-trace and crash-injection correspondence of harness/props/c27.py). Snapshots are an
  arbitrary type `σ`; directories are arbitrary (left-over `.new`/`.bak` files of any kind are
  allowed), histories are of any length.

  Crash semantics = process kill: the write buffer of an open handle is lost, so `write` leaves the
  file `part` and only `close` (end of the `with` block) makes it `complete` (Model.Autosave).

  Proved, full strength, for the current code (`saveNew` = open `.new`, write, close, `os.replace(.new, base)`):
    * `current_crash_safe`          – `CrashSafe`: if `base` holds snapshot `v` at entry, then in
                                      every crash state of `save_simulation(w)` (before/after each
                                      operation and inside the write) `base` is `complete v` or
                                      `complete w`;
    * `autosave_survives_crash`     – the same for every history: any directory, any ≥ 1 completed
                                      autosaves, then a crash anywhere in the next one: `base` holds
                                      the previous or the new snapshot, and `load` succeeds;
    * `loadable_forever`            – invariant over arbitrary interleavings of completed saves,
                                      crashed saves and restarts: `base` stays `complete`;
    * `save_completes`              – a completed save leaves `base = complete w`, no `.new`.
  The variant with `os.replace` inside the `with` block (`saveEarlyReplace` = open, write, replace, close):
    * `earlyReplace_counterexample` – kernel-checked witness: killed after the rename and before the
                                      flush, `base` is a truncated pickle and the previous snapshot
                                      exists nowhere;
    * `earlyReplace_not_crash_safe` – hence `¬ CrashSafe saveEarlyReplace`;
    * `earlyReplace_completes`      – an undisturbed save ends in the same directory as the current
                                      code (why normal runs, and crashes that unwind through the `with`
                                      block, do not show the difference).
  Exceptions (unwinding) instead of kills — `unwindStates ops cleanup`:
    * `current_exception_safe`        – the current code has no handler: exception states = kill states;
    * `finallyReplace_counterexample` – `os.replace` moved into a `finally:` clause: an exception in the
                                        middle of the write renames the truncated `.new` over the last
                                        good snapshot; `finallyReplace_same_ops`: its kill states and its
                                        undisturbed path are those of the current code.
  Found on the tree before 8d35338 (finding A1-C27 `autosave-suffix-new-in-place`, now fixed:
  `appended_temp_name_distinct` — the appended temporary name differs from every advertised name):
    * `aliased_counterexample`        – a back-end resumed from a file whose suffix is `.new` has
                                        `with_suffix(".new") == autosave_file`: autosaves are written in
                                        place and a crash inside the write truncates the advertised file.
  The three-step variant that was in the tree before commit 3262c67 (`saveOld`):
    * `threeStep_counterexample`    – kernel-checked witness: after `rename(base, .bak)` and before
                                      `rename(.new, base)` nothing exists under `base`;
    * `threeStep_not_crash_safe`    – hence `¬ CrashSafe saveOld`;
    * `threeStep_data_not_lost`     – what the old code did guarantee: the previous snapshot is
                                      always complete in `base` or `.bak` (or the new one in `base`).
  Not modelled: durability of the bytes under power loss of the machine (`save_simulation` never calls
  `fsync`; the model's file is complete at `close`), other processes touching the directory, Windows
  semantics of `os.rename` onto an existing file.
-/
import EmuVerif.Proofs.Autosave

namespace EmuVerif.Props.C27
open EmuVerif.Autosave

variable {σ : Type}

/-- The property, for a save procedure `save fs w` (operations computed from the directory at entry
and the snapshot to write): at every crash point the advertised name holds the previous or the
new snapshot. -/
def CrashSafe (save : FS σ → σ → List (Op σ)) : Prop :=
  ∀ (fs : FS σ) (v w : σ), fs.base = .complete v →
    ∀ s ∈ crashStates fs (save fs w), s.base = .complete v ∨ s.base = .complete w

theorem current_crash_safe : CrashSafe (σ := σ) (fun _ w => saveNew w) := by
  intro fs v w hb s hs
  rw [crashStates_saveNew] at hs
  simp only [List.mem_cons, List.mem_nil_iff, or_false] at hs
  rcases hs with rfl | rfl | rfl | rfl | rfl | rfl
  · exact Or.inl hb
  · exact Or.inl hb
  · exact Or.inl hb
  · exact Or.inl hb
  · exact Or.inl hb
  · exact Or.inr rfl

theorem save_completes (fs : FS σ) (w : σ) :
    (runOps fs (saveNew w)).base = .complete w ∧ (runOps fs (saveNew w)).new = .absent ∧
      (runOps fs (saveNew w)).bak = fs.bak := by
  rw [runOps_saveNew]; exact ⟨rfl, rfl, rfl⟩

/-- C27 for every history: start from any directory `fs0`, complete the autosaves `vs ++ [v]`
(at least one), then crash anywhere in the autosave of `w`. -/
theorem autosave_survives_crash (fs0 : FS σ) (vs : List σ) (v w : σ) :
    ∀ s ∈ crashStates (afterSaves fs0 (vs ++ [v])) (saveNew w),
      (s.base = .complete v ∨ s.base = .complete w) ∧ (load s = some v ∨ load s = some w) := by
  intro s hs
  have h := current_crash_safe (afterSaves fs0 (vs ++ [v])) v w (afterSaves_snoc_base fs0 vs v) s hs
  exact ⟨h, h.imp load_of_base load_of_base⟩

/-- Directories reachable from `fs0` by completed saves and by saves that crash at an arbitrary
point (after which a restarted process keeps using the same names). -/
inductive Reach (fs0 : FS σ) : FS σ → Prop where
  | start : Reach fs0 fs0
  | saved {fs : FS σ} (w : σ) : Reach fs0 fs → Reach fs0 (runOps fs (saveNew w))
  | crashed {fs s : FS σ} (w : σ) : Reach fs0 fs → s ∈ crashStates fs (saveNew w) → Reach fs0 s

theorem loadable_forever (fs0 : FS σ) (v0 : σ) (h0 : fs0.base = .complete v0) :
    ∀ fs, Reach fs0 fs → ∃ v, fs.base = .complete v ∧ load fs = some v := by
  intro fs hr
  induction hr with
  | start => exact ⟨v0, h0, load_of_base h0⟩
  | saved w _ _ => exact ⟨w, by rw [runOps_saveNew]; rfl, by rw [runOps_saveNew]; rfl⟩
  | crashed w _ hs ih =>
    obtain ⟨v, hv, _⟩ := ih
    rcases current_crash_safe _ v w hv _ hs with h | h
    · exact ⟨v, h, load_of_base h⟩
    · exact ⟨w, h, load_of_base h⟩

/-! ### `os.replace` inside the `with` block (rename before the flush) -/

/-- Witness: first autosave (snapshot 1) completed, the process is killed in the second (snapshot 2)
right after `os.replace(.new, base)` and before the handle is flushed/closed: crash point `b3`. -/
def earlyCrash : FS Nat := ⟨.part, .absent, .absent⟩

theorem earlyReplace_counterexample :
    earlyCrash ∈ crashStates (⟨.complete 1, .absent, .absent⟩ : FS Nat) (saveEarlyReplace 2) ∧
      load earlyCrash = none := by
  decide

theorem earlyReplace_not_crash_safe : ¬ CrashSafe (σ := Nat) (fun _ w => saveEarlyReplace w) := by
  intro h
  have := h ⟨.complete 1, .absent, .absent⟩ 1 2 rfl earlyCrash earlyReplace_counterexample.1
  revert this
  decide

theorem earlyReplace_completes (fs : FS σ) (w : σ) :
    runOps fs (saveEarlyReplace w) = runOps fs (saveNew w) := by
  simp [saveEarlyReplace, saveNew, runOps, applyOp, FS.set, FS.get, move]

/-! ### Exceptions instead of kills; `os.replace` in a `finally:` clause -/

/-- Current code under exception semantics: there is no handler, so the states an exception can leave
are the kill states: the advertised file holds the previous or the new snapshot. -/
theorem current_exception_safe (fs : FS σ) (v w : σ) (hb : fs.base = .complete v) :
    ∀ s ∈ unwindStates fs (saveNew w) [], s.base = .complete v ∨ s.base = .complete w := by
  intro s hs
  simp only [unwindStates, runOps, List.map_id'] at hs
  exact current_crash_safe fs v w hb s hs

/-- Witness: first autosave (snapshot 1) complete; the second `pickle.dump` raises in the middle
(disk full, MemoryError, KeyboardInterrupt); the `finally:` clause renames the truncated `.new` over the
last good snapshot. -/
theorem finallyReplace_counterexample :
    (⟨.part, .absent, .absent⟩ : FS Nat) ∈
        unwindStates ⟨.complete 1, .absent, .absent⟩ (finallyBody 2) finallyCleanup ∧
      load (⟨.part, .absent, .absent⟩ : FS Nat) = none := by
  decide

/-- Under process-kill semantics (and on every undisturbed path) the variant IS the current code:
only exception injection in the middle of the write can tell them apart. -/
theorem finallyReplace_same_ops (w : σ) : finallyBody w ++ finallyCleanup = saveNew w := rfl

/-! ### A refused rename (`os.replace` raises `OSError`) -/

/-- Current code: the error propagates; the directory is a crash state of the save (`b3`), the previous
snapshot is intact under the advertised name and the new one is complete in `.new`. -/
theorem refused_replace_safe (fs : FS σ) (v w : σ) (hb : fs.base = .complete v) :
    refusedAt fs w ∈ crashStates fs (saveNew w) ∧ (refusedAt fs w).base = .complete v ∧
      (refusedAt fs w).new = .complete w := by
  refine ⟨?_, ?_, ?_⟩
  · rw [crashStates_saveNew]
    simp [refusedAt, runOps, applyOp, FS.set, FS.get]
  · simpa [refusedAt, runOps, applyOp, FS.set, FS.get] using hb
  · simp [refusedAt, runOps, applyOp, FS.set, FS.get]

/-- Copy fallback after a refused rename (round-5 seed v05-C27): killed right after the fallback opened the
advertised file for writing, `base` is truncated and the previous snapshot is gone (the new one is still
complete — but only under the temporary name). An undisturbed fallback ends like a normal save. -/
theorem copyFallback_counterexample :
    (⟨.part, .complete 2, .absent⟩ : FS Nat) ∈
        crashStates (refusedAt ⟨.complete 1, .absent, .absent⟩ 2) (copyFallback 2) ∧
      load (⟨.part, .complete 2, .absent⟩ : FS Nat) = none ∧
      runOps (refusedAt (⟨.complete 1, .absent, .absent⟩ : FS Nat) 2) (copyFallback 2) =
        runOps ⟨.complete 1, .absent, .absent⟩ (saveNew 2) := by
  decide

/-! ### Resuming from a file called `….new` (names coincide) -/

/-- Found on the unchanged tree: after `MPSBackend.resume("x.new")` every autosave is written in
place; a crash inside the write leaves the advertised file truncated. -/
theorem aliased_counterexample :
    (⟨.part, .absent, .absent⟩ : FS Nat) ∈
        crashStates ⟨.complete 1, .absent, .absent⟩ (saveAliased 2) ∧
      ¬ CrashSafe (σ := Nat) (fun _ w => saveAliased w) := by
  refine ⟨by decide, fun h => ?_⟩
  have := h ⟨.complete 1, .absent, .absent⟩ 1 2 rfl ⟨.part, .absent, .absent⟩ (by decide)
  revert this
  decide

/-- The repair of that finding (8d35338): the temporary name is built by APPENDING `".new"` to the file
name (`basename.with_name(basename.name + ".new")`), so it differs from the advertised name for every
advertised name — the abstract names `base` and `new` of the model are distinct files again, whatever the
file passed to `resume` is called (`with_suffix(".new")` is the identity on names ending in `.new`). -/
theorem appended_temp_name_distinct (name : String) : name ++ ".new" ≠ name := by
  intro h
  have := congrArg String.length h
  simp [String.length_append] at this

/-! ### The three-step variant (before commit 3262c67) -/

/-- Witness: first autosave (snapshot 1) completed, crash in the second (snapshot 2) right after
`os.rename(base, .bak)`: crash point `b4` (before operation 4 = `rename(.new, base)`). -/
def witnessFS : FS Nat := ⟨.complete 1, .absent, .absent⟩
def witnessCrash : FS Nat := ⟨.absent, .complete 2, .complete 1⟩

theorem threeStep_counterexample :
    witnessCrash ∈ crashStates witnessFS (saveOld witnessFS 2) ∧ load witnessCrash = none := by
  decide

theorem threeStep_not_crash_safe : ¬ CrashSafe (σ := Nat) saveOld := by
  intro h
  have := h witnessFS 1 2 rfl witnessCrash threeStep_counterexample.1
  revert this
  decide

/-- The old code never lost the data, it only lost the *name*. -/
theorem threeStep_data_not_lost (fs : FS σ) (v w : σ) (hb : fs.base = .complete v) :
    ∀ s ∈ crashStates fs (saveOld fs w),
      s.base = .complete v ∨ s.bak = .complete v ∨ s.base = .complete w := by
  obtain ⟨b, n, k⟩ := fs
  simp only at hb
  subst hb
  intro s hs
  simp [saveOld, FileSt.present, crashStates, midStates, applyOp, FS.set, FS.get, move] at hs
  rcases hs with rfl | rfl | rfl | rfl | rfl | rfl | rfl | rfl <;> simp

/-! ### Non-vacuity -/

/-- The hypotheses of `autosave_survives_crash` are met by a concrete history, and the crash
states really differ (old snapshot in four of them, new one in the last). -/
example : (crashStates (afterSaves (FS.empty : FS Nat) [7, 8]) (saveNew 9)).map (·.base) =
    [.complete 8, .complete 8, .complete 8, .complete 8, .complete 8, .complete 9] := by decide

example : (crashStates (afterSaves (FS.empty : FS Nat) [7, 8]) (saveNew 9)).map (·.new) =
    [.absent, .part, .part, .part, .complete 9, .absent] := by decide

/-- `Reach` contains a state with a torn `.new` next to a complete `base`. -/
example : Reach (⟨.complete 1, .absent, .absent⟩ : FS Nat) ⟨.complete 1, .part, .absent⟩ :=
  Reach.crashed 2 Reach.start (by decide)

/-- The old variant's crash states for the witness: the sixth has no `base`. -/
example : (crashStates witnessFS (saveOld witnessFS 2)).map (·.base) =
    [.complete 1, .complete 1, .complete 1, .complete 1, .complete 1, .absent, .complete 2,
      .complete 2] := by
  decide

/-- The early-replace variant's crash states: the fifth has a truncated `base`. -/
example : (crashStates (⟨.complete 1, .absent, .absent⟩ : FS Nat) (saveEarlyReplace 2)).map (·.base) =
    [.complete 1, .complete 1, .complete 1, .complete 1, .part, .complete 2] := by
  decide

end EmuVerif.Props.C27
