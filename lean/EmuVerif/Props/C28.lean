/-
  C28 — noiseless evolution conserves the norm; energy and its second moment are constant while
  the Hamiltonian does not change. **PARTIAL.**

  Statement (properties.jsonl): in noiseless runs the state stays normalised at every evaluation
  time, to within the backend's precision; whenever the Hamiltonian does not change over a time
  window, the reported energy and its second moment stay constant across that window; for
  register sizes beyond a dense reference.

  Proved here (ideal kernel, dense picture, every dimension — no bound on the register size):
    * `propagator_unitary`        – `H` Hermitian ⇒ `exp(-i t H)` is unitary (both products are 1);
    * `norm_conserved`            – `⟨Uψ|Uψ⟩ = ⟨ψ|ψ⟩`, and the same in the 2-norm of
                                    `EuclideanSpace ℂ n` (`norm_conserved_euclid`);
    * `energy_conserved`, `second_moment_conserved` – `⟨H⟩` and `⟨H²⟩` are unchanged by
                                    `ψ ↦ exp(-i t H)ψ` (`H` commutes with its propagator);
    * `window_conservation`       – over any window of the emu-sv schedule (`Model.SvLoop`'s
                                    `StepArgs`) in which every step has the same Hamiltonian, the
                                    ideal kernel leaves norm, energy and second moment exactly
                                    constant at *every* step boundary, for any step lengths.
  Assumed / not proved:
    * the real kernels are not the ideal one: emu-sv's Krylov step is within `10·krylov_tolerance`
      (C07), emu-mps' TDVP sweep is a product of exponentials of Hermitian *effective* operators
      followed by truncation (C10 bound). **TDVP energy conservation is not proved** (it is a
      property of the projected dynamics, not of this algebra) — validated numerically only.
    * C06 (operator applied = dense Hermitian `H`), C13 (energy / second moment observables are
      `⟨H⟩`, `⟨H²⟩` of the last step's Hamiltonian).
  The full statement about the real back-ends is `FullClaim`; it is *not* proved.
-/
import EmuVerif.Proofs.IdealUnitary
import EmuVerif.Proofs.IdealEuclid
import EmuVerif.Model.SvLoop

set_option linter.unusedSectionVars false

namespace EmuVerif.Props.C28
open EmuVerif EmuVerif.Ideal EmuVerif.SvLoop Matrix

variable {n : Type} [Fintype n] [DecidableEq n]

/-- **`exp(-i t H)` is unitary for Hermitian `H`.** -/
theorem propagator_unitary {H : Matrix n n ℂ} (hH : H.IsHermitian) (t : ℝ) :
    (expU H t)ᴴ * expU H t = 1 ∧ expU H t * (expU H t)ᴴ = 1 :=
  ⟨expU_conjTranspose_mul hH t, expU_mul_conjTranspose hH t⟩

/-- …so it is an element of Mathlib's unitary group. -/
theorem propagator_mem_unitaryGroup {H : Matrix n n ℂ} (hH : H.IsHermitian) (t : ℝ) :
    expU H t ∈ Matrix.unitaryGroup n ℂ := by
  rw [Matrix.mem_unitaryGroup_iff]
  exact expU_mul_conjTranspose hH t

/-- **Norm conservation.** -/
theorem norm_conserved {H : Matrix n n ℂ} (hH : H.IsHermitian) (t : ℝ) (ψ : n → ℂ) :
    normSq (expU H t *ᵥ ψ) = normSq ψ :=
  normSq_mulVec_of_isometry (expU_conjTranspose_mul hH t) ψ

theorem norm_conserved_euclid {H : Matrix n n ℂ} (hH : H.IsHermitian) (t : ℝ)
    (ψ : EuclideanSpace ℂ n) : ‖actE (expU H t) ψ‖ = ‖ψ‖ :=
  norm_actE (expU_conjTranspose_mul hH t) ψ

/-- **Energy conservation** under the Hamiltonian's own propagator. -/
theorem energy_conserved {H : Matrix n n ℂ} (hH : H.IsHermitian) (t : ℝ) (ψ : n → ℂ) :
    expect H (expU H t *ᵥ ψ) = expect H ψ :=
  expect_mulVec_of_commute (expU_conjTranspose_mul hH t) (commute_expU H t) ψ

/-- **Second moment conservation.** -/
theorem second_moment_conserved {H : Matrix n n ℂ} (hH : H.IsHermitian) (t : ℝ) (ψ : n → ℂ) :
    expect (H * H) (expU H t *ᵥ ψ) = expect (H * H) ψ :=
  expect_mulVec_of_commute (expU_conjTranspose_mul hH t)
    ((commute_expU H t).mul_left (commute_expU H t)) ψ

/-- The ideal kernel run over a list of schedule entries (`ham` = C06's dense Hamiltonian of a
drive row and an interaction matrix). -/
noncomputable def idealRun {ρ μ : Type} (ham : ρ → μ → Matrix n n ℂ) (w : List (StepArgs ℝ ρ μ))
    (ψ : n → ℂ) : n → ℂ :=
  w.foldl (fun ψ a => expU (ham a.row a.u) a.dt *ᵥ ψ) ψ

/-- **Window-wise conservation.** If every step of a window `w` of the schedule has the same
(Hermitian) Hamiltonian `H`, then after *every prefix* of the window — i.e. at every evaluation
time inside it — the ideal kernel's state has the norm, the energy and the second moment it had
at the start of the window; whatever the step lengths. -/
theorem window_conservation {ρ μ : Type} (ham : ρ → μ → Matrix n n ℂ) {H : Matrix n n ℂ}
    (hH : H.IsHermitian) (w : List (StepArgs ℝ ρ μ)) (hw : ∀ a ∈ w, ham a.row a.u = H)
    (ψ : n → ℂ) (k : Nat) :
    normSq (idealRun ham (w.take k) ψ) = normSq ψ
    ∧ expect H (idealRun ham (w.take k) ψ) = expect H ψ
    ∧ expect (H * H) (idealRun ham (w.take k) ψ) = expect (H * H) ψ := by
  induction w generalizing ψ k with
  | nil => simp [idealRun]
  | cons a w ih =>
    cases k with
    | zero => simp [idealRun]
    | succ k =>
      have ha : ham a.row a.u = H := hw a List.mem_cons_self
      have ih' := ih (fun b hb => hw b (List.mem_cons_of_mem _ hb)) (expU H a.dt *ᵥ ψ) k
      simp only [idealRun, List.take_succ_cons, List.foldl_cons, ha] at ih' ⊢
      rw [ih'.1, ih'.2.1, ih'.2.2, norm_conserved hH, energy_conserved hH,
        second_moment_conserved hH]
      exact ⟨rfl, rfl, rfl⟩

/-- **Full statement of C28 for concrete back-ends**, as a proposition about a stepper `kern`
(emu-sv's Krylov step, or emu-mps' TDVP sweep read in the dense picture) and its precision `ε`:
at every evaluation index the norm is within `((1+ε)ᵏ−1)` of 1 and, across a window with an
unchanged Hamiltonian, energy and second moment drift by at most the same relative amount.
NOT proved (needs the kernels' accuracy contracts; for TDVP the energy clause is not even a
consequence of one). -/
def FullClaim {ρ μ : Type} (ham : ρ → μ → Matrix n n ℂ)
    (kern : ℝ → ρ → μ → (n → ℂ) → (n → ℂ)) (ε : ℝ) : Prop :=
  ∀ (w : List (StepArgs ℝ ρ μ)) (H : Matrix n n ℂ), H.IsHermitian → (∀ a ∈ w, ham a.row a.u = H) →
    ∀ (C C2 : ℝ), (∀ φ, ‖expect H φ‖ ≤ C * ‖normSq φ‖) → (∀ φ, ‖expect (H * H) φ‖ ≤ C2 * ‖normSq φ‖) →
    ∀ (ψ : n → ℂ) (k : Nat),
      let φ := (w.take k).foldl (fun ψ a => kern a.dt a.row a.u ψ) ψ
      ‖normSq φ - normSq ψ‖ ≤ ((1 + ε) ^ (2 * k) - 1) * ‖normSq ψ‖
      ∧ ‖expect H φ - expect H ψ‖ ≤ ((1 + ε) ^ (2 * k) - 1) * C * ‖normSq ψ‖
      ∧ ‖expect (H * H) φ - expect (H * H) ψ‖ ≤ ((1 + ε) ^ (2 * k) - 1) * C2 * ‖normSq ψ‖

/-- the ideal kernel satisfies the full claim with `ε = 0` (sanity of the statement) -/
theorem fullClaim_ideal {ρ μ : Type} (ham : ρ → μ → Matrix n n ℂ) :
    FullClaim ham (fun dt r u ψ => expU (ham r u) dt *ᵥ ψ) 0 := by
  intro w H hH hw C C2 _ _ ψ k
  have := window_conservation ham hH w hw ψ k
  simp only [idealRun] at this
  simp [this.1, this.2.1, this.2.2]

/-! ### Non-vacuity: Pauli matrices -/

/-- σx -/
def σx : Matrix (Fin 2) (Fin 2) ℂ := !![0, 1; 1, 0]
/-- the one-atom Rydberg Hamiltonian `(Ω/2)σx − δ n` with Ω = 2, δ = 3 -/
def h1 : Matrix (Fin 2) (Fin 2) ℂ := !![0, 1; 1, -3]

theorem σx_hermitian : σx.IsHermitian := by
  ext i j; fin_cases i <;> fin_cases j <;> simp [σx]

theorem h1_hermitian : h1.IsHermitian := by
  ext i j; fin_cases i <;> fin_cases j <;> simp [h1]

example (t : ℝ) : (expU σx t)ᴴ * expU σx t = 1 := (propagator_unitary σx_hermitian t).1

/-- the energy of `|g⟩` under `h1` is 0 and its second moment is 1 ≠ 0: the conserved quantities
are not trivially zero -/
example : expect (h1 * h1) ![1, 0] = 1 ∧ expect h1 ![0, 1] = -3 := by
  constructor <;> simp [expect, h1, Matrix.mul_apply, dotProduct, Matrix.mulVec, Fin.sum_univ_two]

/-- a two-step window with different step lengths and the same Hamiltonian -/
example (ψ : Fin 2 → ℂ) :
    expect h1 (idealRun (fun (_ : Unit) (_ : Unit) => h1)
      [⟨0, 0.003, (), ()⟩, ⟨1, 0.0075, (), ()⟩] ψ) = expect h1 ψ := by
  have := (window_conservation (fun (_ : Unit) (_ : Unit) => h1) h1_hermitian
    [⟨0, 0.003, (), ()⟩, ⟨1, 0.0075, (), ()⟩] (fun _ _ => rfl) ψ 2).2.1
  simpa using this

end EmuVerif.Props.C28
