/-
  C29 — physically equivalent inputs give equivalent results (Hamiltonian level). PARTIAL.

  Theorems about `Model.SvOps` (the emu-sv Hamiltonian of C06) and `Model.SvSym`, for every number of qubits, all
  parameters and vectors, over any commutative star ring with the `LawfulCx` laws. `cos`/`sin` of the offset enter as an
  abstract rotation `(cθ, sθ)` with `cθ² + sθ² = 1`, both real; the phases of the drive as the `(cos, sin)` tape of C06.

  Proved:
    * `phase_offset_is_conjugation`   `H(φ+θ) = V H(φ) V†`, `V = ⊗_q diag(1, e^{iθ})`, `e^{iθ} = cθ + i sθ`
                                      (sign convention of the code: `H[1,0] = (Ω/2) e^{iφ}` on every qubit)
    * `offset_commutes_with_n`        `V n_k = n_k V`; `offset_fixes_ground_state` `V|g…g⟩ = |g…g⟩`;
      `offset_preserves_probabilities` all `|ψ_s|²` (sampling weights), hence `offset_preserves_occupation`,
      `offset_preserves_correlation`; `offset_is_unitary` (inner products, hence energies `⟨ψ|Hψ⟩`)
    * `propagator_conjugation`        every polynomial `Σ c_m H(φ+θ)ᵐ = V (Σ c_m H(φ)ᵐ) V†`
    * `results_invariant_under_phase_offset`   for any sequence of steps, each a polynomial in that step's Hamiltonian (every
      truncated Taylor / Krylov propagator is one), started from `|g…g⟩`: all basis-state probabilities — occupations,
      correlations, bitstring weights — are the same with and without the offset; `energy_invariant_under_phase_offset`
    * `phase_negation_is_conjugation` `H(−φ) = conj H(φ)` entry-wise (real drives); `propagator_under_negation`:
      `p̄(H(−φ)) ψ̄ = conj(p(H(φ)) ψ)` — the *conjugate-coefficient* polynomial, i.e. `e^{−iH̄t} = conj(e^{+iHt})`
    * `hamiltonian_depends_on_register_only_through_U`  the model's only geometric input is `U_ij`, `i < j < n`
  **The clause "negating all phases leaves every result unchanged" of C29 is false as stated**: conjugation maps forward
  evolution to *backward* evolution, which has the same probabilities only in special cases (time-independent phase —
  then negation is an offset —, or zero detuning/time-reversal symmetric drives). `phase_negation_not_an_invariance` is a
  kernel-checked instance for polynomial steps; the harness shows the same on the real emu-sv and emu-mps (δ ≠ 0, two phase
  values: occupations differ by O(1)) and that both agree with an independent `scipy.linalg.expm` reference — the emulators
  are right, the property text is too strong. Not a defect of the code; recorded in `notes/treevec2.md`.
  Not proved (outside the repository / not modelled): the ideal `exp` itself (only polynomials in `H`), register
  isometries → equal interaction matrix (Pulser's computation; metamorphic check in the harness), (de)serialisation,
  the emu-mps Hamiltonian (C05 ties it to the same dense `H`).
-/
import EmuVerif.Proofs.SvSym
import Mathlib.Algebra.Order.Field.Rat

set_option linter.unusedSectionVars false

namespace EmuVerif.Props.C29
open EmuVerif EmuVerif.TreeVec EmuVerif.SvOps EmuVerif.SvState EmuVerif.SvObs EmuVerif.SvSym

variable {κ β : Type} {n : Nat}

/-- one step of an evolution: Hamiltonian parameters and the coefficients of the polynomial propagator -/
structure Step (κ : Type) where
  Ω : Nat → κ
  δ : Nat → κ
  ph : Nat → Phase κ
  U : Nat → Nat → κ
  cs : List κ

section
variable [CommRing κ] [StarRing κ] [CxLike κ] [LawfulCx κ]

/-- `ψ ↦ Σ_m c_m H^m ψ` -/
def Step.op (s : Step κ) {n : Nat} : Vec κ n → Vec κ n := polyApply (hamMulWith true s.Ω s.δ s.ph s.U) s.cs
def Step.shift (cθ sθ : κ) (s : Step κ) : Step κ := { s with ph := fun k => shiftPhase cθ sθ (s.ph k) }
def Step.neg (s : Step κ) : Step κ := { s with ph := fun k => negPhase (s.ph k) }

theorem unit_of_rotation (cθ sθ : κ) (hc : star cθ = cθ) (hs : star sθ = sθ) (hunit : cθ * cθ + sθ * sθ = 1) :
    (cθ + CxLike.I * sθ) * star (cθ + CxLike.I * sθ) = 1 := by
  rw [star_add, star_mul', hc, hs, LawfulCx.star_I]
  linear_combination hunit - (sθ * sθ) * (LawfulCx.I_mul_I : (CxLike.I : κ) * CxLike.I = -1)

variable [AddCommGroup β] [Module κ β]

theorem phase_offset_is_conjugation (Ω δ : Nat → κ) (ph : Nat → Phase κ) (U : Nat → Nat → κ) (cθ sθ : κ)
    (hc : star cθ = cθ) (hs : star sθ = sθ) (hunit : cθ * cθ + sθ * sθ = 1) (v : Vec β n) :
    hamMulWith true Ω δ (fun k => shiftPhase cθ sθ (ph k)) U v
      = phase (cθ + CxLike.I * sθ) (hamMulWith true Ω δ ph U (phase (star (cθ + CxLike.I * sθ)) v)) :=
  phase_offset_conjugation Ω δ ph U cθ sθ hc hs hunit v

theorem offset_commutes_with_n (u : κ) (k : Nat) (hk : k < n) (x : Vec β n) :
    phase u (applyAt k (M2.nOp : M2 κ) x) = applyAt k (M2.nOp : M2 κ) (phase u x) := by
  induction n generalizing k with
  | zero => omega
  | succ n ih =>
    cases x with
    | node a b =>
      cases k with
      | zero => rw [applyAt_nOp_zero, phase_node, phase_node, applyAt_nOp_zero, phase_zero]
      | succ k => simp [applyAt, ih k (Nat.lt_of_succ_lt_succ hk), applyAt_smul_vec]

theorem offset_fixes_ground_state (u : κ) (n : Nat) : phase u (ground n : Vec κ n) = ground n := phase_ground u n

theorem offset_preserves_probabilities (u : κ) (h : u * star u = 1) (ψ : Vec κ n) :
    (phase u ψ).map absSq = ψ.map absSq := phase_probabilities u h ψ
theorem offset_preserves_occupation (u : κ) (h : u * star u = 1) (ψ : Vec κ n) (k : Nat) :
    occSv (phase u ψ) k = occSv ψ k := occupation_phase u h ψ k
theorem offset_preserves_correlation (u : κ) (h : u * star u = 1) (ψ : Vec κ n) (i j : Nat) :
    corrSv (phase u ψ) i j = corrSv ψ i j := correlation_phase u h ψ i j
theorem offset_is_unitary (u : κ) (h : u * star u = 1) (a b : Vec κ n) :
    Vec.vdot (phase u a) (phase u b) = Vec.vdot a b := vdot_phase u h a b

/-- every polynomial in `H(φ+θ)` is the `V`-conjugate of the same polynomial in `H(φ)` -/
theorem propagator_conjugation (s : Step κ) (cθ sθ : κ)
    (hc : star cθ = cθ) (hs : star sθ = sθ) (hunit : cθ * cθ + sθ * sθ = 1) (v : Vec κ n) :
    (s.shift cθ sθ).op v = phase (cθ + CxLike.I * sθ) (s.op (phase (star (cθ + CxLike.I * sθ)) v)) := by
  have hu := unit_of_rotation cθ sθ hc hs hunit
  have hu' : star (cθ + CxLike.I * sθ) * (cθ + CxLike.I * sθ) = 1 := by rw [mul_comm]; exact hu
  exact polyApply_conj _ _ _ _ (phase_phase _ _ hu) (phase_add _) (fun c x => phase_smul _ c x)
    (fun x => phase_offset_conjugation s.Ω s.δ s.ph s.U cθ sθ hc hs hunit x) (phase_phase _ _ hu') s.cs v

/-- **All basis-state probabilities of a run from `|g…g⟩` are unchanged by a common phase offset**
(any number of steps with arbitrary, step-dependent parameters; the offset is the same in every step). -/
theorem results_invariant_under_phase_offset (steps : List (Step κ)) (cθ sθ : κ)
    (hc : star cθ = cθ) (hs : star sθ = sθ) (hunit : cθ * cθ + sθ * sθ = 1) :
    (evolve (steps.map (fun s => (s.shift cθ sθ).op)) (ground n : Vec κ n)).map absSq
      = (evolve (steps.map (fun s => s.op)) (ground n : Vec κ n)).map absSq := by
  have hu := unit_of_rotation cθ sθ hc hs hunit
  have hu' : star (cθ + CxLike.I * sθ) * (cθ + CxLike.I * sθ) = 1 := by rw [mul_comm]; exact hu
  have key := evolve_conj (β := κ) (n := n) (phase (cθ + CxLike.I * sθ)) (phase (star (cθ + CxLike.I * sθ)))
    (phase_phase _ _ hu') (steps.map (fun s => (s.op, (s.shift cθ sθ).op)))
    (fun p hp x => by
      obtain ⟨s, _, rfl⟩ := List.mem_map.mp hp
      exact propagator_conjugation s cθ sθ hc hs hunit x) (ground n)
  simp only [List.map_map, Function.comp_def] at key
  rw [phase_ground] at key
  rw [key, phase_probabilities _ hu]

/-- and so is the energy: `⟨Vψ| H(φ+θ) Vψ⟩ = ⟨ψ| H(φ) ψ⟩` -/
theorem energy_invariant_under_phase_offset (Ω δ : Nat → κ) (ph : Nat → Phase κ) (U : Nat → Nat → κ) (cθ sθ : κ)
    (hc : star cθ = cθ) (hs : star sθ = sθ) (hunit : cθ * cθ + sθ * sθ = 1) (ψ : Vec κ n) :
    Vec.vdot (phase (cθ + CxLike.I * sθ) ψ)
        (hamMulWith true Ω δ (fun k => shiftPhase cθ sθ (ph k)) U (phase (cθ + CxLike.I * sθ) ψ))
      = Vec.vdot ψ (hamMulWith true Ω δ ph U ψ) := by
  have hu := unit_of_rotation cθ sθ hc hs hunit
  have hu' : star (cθ + CxLike.I * sθ) * (cθ + CxLike.I * sθ) = 1 := by rw [mul_comm]; exact hu
  rw [phase_offset_conjugation Ω δ ph U cθ sθ hc hs hunit, phase_phase _ _ hu', vdot_phase _ hu]

theorem phase_negation_is_conjugation (Ω δ : Nat → κ) (ph : Nat → Phase κ) (U : Nat → Nat → κ) (v : Vec κ n)
    (hΩ : ∀ k, k < n → star (Ω k) = Ω k) (hδ : ∀ k, k < n → star (δ k) = δ k)
    (hU : ∀ i j, i < j → j < n → star (U i j) = U i j)
    (hph : ∀ k, k < n → star (ph k).c = (ph k).c ∧ star (ph k).s = (ph k).s) :
    hamMulWith true Ω δ (fun k => negPhase (ph k)) U v = cj (hamMulWith true Ω δ ph U (cj v)) :=
  phase_negation_conjugation Ω δ ph U v hΩ hδ hU hph

theorem propagator_under_negation (s : Step κ) (v : Vec κ n)
    (hΩ : ∀ k, k < n → star (s.Ω k) = s.Ω k) (hδ : ∀ k, k < n → star (s.δ k) = s.δ k)
    (hU : ∀ i j, i < j → j < n → star (s.U i j) = s.U i j)
    (hph : ∀ k, k < n → star (s.ph k).c = (s.ph k).c ∧ star (s.ph k).s = (s.ph k).s) :
    ({ s.neg with cs := s.cs.map star } : Step κ).op (cj v) = cj (s.op v) :=
  polyApply_cj _ _ (fun x => phase_negation_conjugation s.Ω s.δ s.ph s.U x hΩ hδ hU hph) s.cs v

theorem hamiltonian_depends_on_register_only_through_U (cplx : Bool) (Ω δ : Nat → κ) (ph : Nat → Phase κ)
    (U U' : Nat → Nat → κ) (hU : ∀ i j, i < j → j < n → U i j = U' i j) (v : Vec β n) :
    hamMulWith cplx Ω δ ph U v = hamMulWith cplx Ω δ ph U' v := hamMulWith_congr_U cplx Ω δ ph U U' hU v

end

/-! ### concrete instances (kernel-evaluated over `Cx ℚ`) -/
section examples
abbrev K := Cx ℚ

/-- first-order step `1 − i H` with `Ω = 2`, `δ = 1`, phase `(cos, sin)` -/
def exStep (c s : ℚ) : Step K :=
  { Ω := fun _ => ⟨2, 0⟩, δ := fun _ => ⟨1, 0⟩, ph := fun _ => ⟨true, ⟨c, 0⟩, ⟨s, 0⟩⟩, U := fun _ _ => 0, cs := [1, ⟨0, -1⟩] }

/-- non-vacuity: a rotation `(cθ, sθ) = (3/5, 4/5)` satisfies the hypotheses; test of the invariance on two steps -/
example : star (⟨3 / 5, 0⟩ : K) = ⟨3 / 5, 0⟩ ∧ (⟨3 / 5, 0⟩ : K) * ⟨3 / 5, 0⟩ + ⟨4 / 5, 0⟩ * ⟨4 / 5, 0⟩ = 1 := by decide +kernel
example :
    occSvR (evolve ([exStep 1 0, exStep (5 / 13) (12 / 13)].map (fun s => (s.shift ⟨3 / 5, 0⟩ ⟨4 / 5, 0⟩).op)) (ground 1 : Vec K 1)) 0
      = occSvR (evolve ([exStep 1 0, exStep (5 / 13) (12 / 13)].map (fun s => s.op)) (ground 1 : Vec K 1)) 0 := by
  decide +kernel

/-- **Negating all phases is not an invariance**: two steps with phases `0` and `φ₂` (`cos φ₂ = 3/5`, `sin φ₂ = 4/5`),
`δ = 1`: the excited-state weight differs between `φ` and `−φ`. -/
theorem phase_negation_not_an_invariance :
    occSvR (evolve ([exStep 1 0, exStep (3 / 5) (4 / 5)].map (fun s => s.neg.op)) (ground 1 : Vec K 1)) 0
      ≠ occSvR (evolve ([exStep 1 0, exStep (3 / 5) (4 / 5)].map (fun s => s.op)) (ground 1 : Vec K 1)) 0 := by
  decide +kernel

end examples
end EmuVerif.Props.C29
