/-
  C29 (continued) — the phase-offset / phase-negation clauses at the level of the IDEAL propagator `exp(−i t H)`.

  `Props/C29.lean` proves `H(φ+θ) = V H(φ) V†` for the emu-sv Hamiltonian and that every POLYNOMIAL in `H` is conjugated
  likewise; the exponential itself was left out. This file closes that gap for complex square matrices of ANY size
  (any finite index type `n`; `NormedSpace.exp` on `Matrix n n ℂ`, i.e. the matrix exponential of Mathlib):

    * `exp_smul_conj`               `V W = 1` ⇒ `exp(c • (V H W)) = V exp(c • H) W` for every scalar `c`
      (`exp_smul_conj_inv`: the same with `W = V⁻¹`, `V` a unit); `propagator_conj` is the case `c = −i t`.
    * `run_conj`                    piecewise-constant schedule (a list of steps `(H_k, t_k)`, any length, step-dependent
      `H_k`, all conjugated by the SAME `V`): `run (V H_k W)_k (V ψ) = V (run (H_k)_k ψ)` — induction over the list.
    * `prob_diagonal_mulVec`        a diagonal matrix with unit-modulus entries leaves every `|ψ_s|²` unchanged;
      `diagonal_unitary` such a matrix times its conjugate transpose is 1.
    * `probabilities_invariant`     **the result**: `V = diag(d)`, `|d_s| = 1`, `V ψ₀ = c ψ₀` with `|c| = 1` (`ψ₀` fixed up to
      a phase — `|g…g⟩` is fixed exactly): all basis-state probabilities `|ψ_s|²` (occupations, correlations, bitstring
      weights are sums of them) of the ideal evolution are the same for `(V H_k V†)_k` and `(H_k)_k`, for every list of steps
      and all step lengths; `probabilities_invariant_step` is the single-step statement "for every `s` and `t`".
    * `expect_conj`, `energy_invariant`   `⟨Vψ| V H V† |Vψ⟩ = ⟨ψ|H|ψ⟩`, and the energy of the final state of the conjugated run
      w.r.t. the conjugated Hamiltonian equals that of the original run (any `A`, in particular the last step's `H`).
    * `exp_map_conj`, `propagator_entrywise_conj`   phase negation: for `H(−φ) = conj H(φ)` entry-wise,
      `exp(−i t conj H) = conj(exp(+i t H))`; `negation_is_time_reversal`: the run with `(conj H_k, t_k)` from a real `ψ₀` is the
      entry-wise conjugate of the run with `(H_k, −t_k)` — same probabilities as the TIME-REVERSED run, not as the original.
    * `negation_invariant_of_real_up_to_diagonal`   the precise sufficient condition under which negation IS an invariance:
      every `H_k = D R_k D†` with `R_k` real and one diagonal unitary `D` (for the Rydberg Hamiltonian: the phase is the
      same in every step, `D = ⊗ diag(1, e^{iφ})`; negation is then the offset `−2φ`), and `D̄ D† ψ₀ = c ψ₀`.
    * `exp_smul_of_mul_self_eq_one` `K² = 1` ⇒ `exp(c • K) = cosh c • 1 + sinh c • K` (any size; used to evaluate the
      counterexample without numerics), `propagator_of_involution`: `exp(−i t K) = cos t • 1 − i sin t • K`.
    * `negation_not_an_invariance`  **the unrestricted negation clause is false**: two Hermitian 2×2 steps with `K_k² = 1`
      (`K = H + (δ/2)·1` for `Ω = 8/5`, `δ = 6/5`; phases `0` and `φ₂` with `(cos φ₂, sin φ₂) = (3/5, 4/5)`), `t₁ = π/4`,
      `t₂ = π/2`, from `|g⟩`: the ground-state weight is `4385/15625` for `φ` and `13985/15625` for `−φ` (exact values).

  Link to `Props/C29.lean`. `C29.phase_offset_is_conjugation` states, on tree vectors over any `LawfulCx` scalar ring,
  `H(φ+θ) v = P_u (H(φ) (P_ū v))` with `P_u = phase u = ⊗_q diag(1, u)`, `u = e^{iθ}`, `u ū = 1`;
  `C29.offset_fixes_ground_state` is `P_u |g…g⟩ = |g…g⟩`. `Props/C29ExpLink.lean` transports these to dense matrices
  `Matrix (Idx n) (Idx n) ℂ` (`hamMatrix_shift`: `H(φ+θ) = D H(φ) Dᴴ`, `D` diagonal with unit-modulus entries fixing `|g…g⟩`)
  and instantiates the theorems below for the model's Hamiltonian (`ideal_results_invariant_under_phase_offset`,
  `ideal_energy_invariant_under_phase_offset`, `ideal_negation_is_time_reversal`). The theorems here are stated for
  arbitrary `H`, `H' = V H W`, so they do not depend on that bridge.
-/
import EmuVerif.Proofs.IdealUnitary
import Mathlib.Analysis.SpecialFunctions.Trigonometric.Series
import Mathlib.LinearAlgebra.Matrix.NonsingularInverse

set_option linter.unusedSectionVars false
set_option linter.unusedVariables false

namespace EmuVerif.Props.C29Exp
open EmuVerif EmuVerif.Ideal Matrix NormedSpace

variable {n : Type} [Fintype n] [DecidableEq n]

/-! ### conjugation of the exponential -/

/-- **`exp(c • V H W) = V exp(c • H) W` whenever `V W = 1`**, every scalar `c`, every size. -/
theorem exp_smul_conj (V W H : Matrix n n ℂ) (hVW : V * W = 1) (c : ℂ) :
    exp (c • (V * H * W)) = V * exp (c • H) * W := by
  have hW : V⁻¹ = W := Matrix.inv_eq_right_inv hVW
  have hu : IsUnit V := (Matrix.isUnit_iff_isUnit_det V).mpr (Matrix.isUnit_det_of_right_inverse hVW)
  rw [← hW, ← Matrix.exp_conj V (c • H) hu]
  congr 1
  rw [Matrix.mul_smul, Matrix.smul_mul]

/-- the same with the inverse written as `V⁻¹` -/
theorem exp_smul_conj_inv (V H : Matrix n n ℂ) (hV : IsUnit V) (c : ℂ) :
    exp (c • (V * H * V⁻¹)) = V * exp (c • H) * V⁻¹ :=
  exp_smul_conj V V⁻¹ H (Matrix.mul_nonsing_inv V ((Matrix.isUnit_iff_isUnit_det V).mp hV)) c

theorem left_inverse_of_right (V W : Matrix n n ℂ) (hVW : V * W = 1) : W * V = 1 := by
  have hW : V⁻¹ = W := Matrix.inv_eq_right_inv hVW
  rw [← hW]
  exact Matrix.nonsing_inv_mul V (Matrix.isUnit_det_of_right_inverse hVW)

/-- the ideal propagator of the conjugated Hamiltonian is the conjugated propagator -/
theorem propagator_conj (V W H : Matrix n n ℂ) (hVW : V * W = 1) (t : ℝ) :
    expU (V * H * W) t = V * expU H t * W := exp_smul_conj V W H hVW _

/-! ### piecewise-constant schedules -/

/-- the ideal evolution over a list of steps `(H_k, t_k)` (first element first) -/
noncomputable def run (steps : List (Matrix n n ℂ × ℝ)) (ψ : n → ℂ) : n → ℂ :=
  steps.foldl (fun ψ s => expU s.1 s.2 *ᵥ ψ) ψ

/-- every step's Hamiltonian conjugated by the same `V` (`W` its inverse) -/
def conjSteps (V W : Matrix n n ℂ) (steps : List (Matrix n n ℂ × ℝ)) : List (Matrix n n ℂ × ℝ) :=
  steps.map (fun s => (V * s.1 * W, s.2))

@[simp] theorem run_nil (ψ : n → ℂ) : run [] ψ = ψ := rfl
@[simp] theorem run_cons (s : Matrix n n ℂ × ℝ) (steps : List (Matrix n n ℂ × ℝ)) (ψ : n → ℂ) :
    run (s :: steps) ψ = run steps (expU s.1 s.2 *ᵥ ψ) := rfl

theorem run_smul (steps : List (Matrix n n ℂ × ℝ)) (c : ℂ) (ψ : n → ℂ) : run steps (c • ψ) = c • run steps ψ := by
  induction steps generalizing ψ with
  | nil => rfl
  | cons s steps ih => rw [run_cons, run_cons, mulVec_smul, ih]

/-- **the whole run is conjugated**: induction over the list of steps -/
theorem run_conj (V W : Matrix n n ℂ) (hVW : V * W = 1) (steps : List (Matrix n n ℂ × ℝ)) (ψ : n → ℂ) :
    run (conjSteps V W steps) (V *ᵥ ψ) = V *ᵥ run steps ψ := by
  have hWV := left_inverse_of_right V W hVW
  induction steps generalizing ψ with
  | nil => rfl
  | cons s steps ih =>
    have : expU (V * s.1 * W) s.2 *ᵥ (V *ᵥ ψ) = V *ᵥ (expU s.1 s.2 *ᵥ ψ) := by
      rw [propagator_conj V W s.1 hVW, mulVec_mulVec, Matrix.mul_assoc, hWV, Matrix.mul_one, mulVec_mulVec]
    show run (conjSteps V W steps) (expU (V * s.1 * W) s.2 *ᵥ (V *ᵥ ψ)) = _
    rw [this, ih, run_cons]

/-! ### diagonal unitaries and probabilities -/

/-- `|ψ_s|²`: the weight of basis state `s` -/
noncomputable def prob (ψ : n → ℂ) (s : n) : ℝ := Complex.normSq (ψ s)

theorem prob_smul (c : ℂ) (hc : ‖c‖ = 1) (ψ : n → ℂ) (s : n) : prob (c • ψ) s = prob ψ s := by
  unfold prob
  rw [Pi.smul_apply, smul_eq_mul, Complex.normSq_mul, Complex.normSq_eq_norm_sq, hc]
  ring

theorem prob_diagonal_mulVec (d : n → ℂ) (hd : ∀ s, ‖d s‖ = 1) (ψ : n → ℂ) (s : n) :
    prob (diagonal d *ᵥ ψ) s = prob ψ s := by
  unfold prob
  rw [mulVec_diagonal, Complex.normSq_mul, Complex.normSq_eq_norm_sq, hd s]
  ring

theorem diagonal_unitary (d : n → ℂ) (hd : ∀ s, ‖d s‖ = 1) : diagonal d * (diagonal d)ᴴ = 1 := by
  rw [diagonal_conjTranspose, diagonal_mul_diagonal, ← diagonal_one]
  congr 1
  funext s
  rw [Pi.star_apply, Complex.star_def, Complex.mul_conj, Complex.normSq_eq_norm_sq, hd s]
  simp

/-- **Invariance of all basis-state probabilities under conjugation by a diagonal unitary fixing `ψ₀` up to a phase**,
for any finite list of steps with step-dependent Hamiltonians and arbitrary step lengths. -/
theorem probabilities_invariant (d : n → ℂ) (hd : ∀ s, ‖d s‖ = 1) (ψ₀ : n → ℂ) (c : ℂ) (hc : ‖c‖ = 1)
    (hfix : diagonal d *ᵥ ψ₀ = c • ψ₀) (steps : List (Matrix n n ℂ × ℝ)) (s : n) :
    prob (run (conjSteps (diagonal d) (diagonal d)ᴴ steps) ψ₀) s = prob (run steps ψ₀) s := by
  have key := run_conj (diagonal d) (diagonal d)ᴴ (diagonal_unitary d hd) steps ψ₀
  rw [hfix, run_smul] at key
  rw [← prob_smul c hc, key, prob_diagonal_mulVec d hd]

/-- single step: `|(exp(−i t V H V†) ψ₀)_s|² = |(exp(−i t H) ψ₀)_s|²` for every `s` and `t` -/
theorem probabilities_invariant_step (d : n → ℂ) (hd : ∀ s, ‖d s‖ = 1) (ψ₀ : n → ℂ) (c : ℂ) (hc : ‖c‖ = 1)
    (hfix : diagonal d *ᵥ ψ₀ = c • ψ₀) (H : Matrix n n ℂ) (t : ℝ) (s : n) :
    prob (expU (diagonal d * H * (diagonal d)ᴴ) t *ᵥ ψ₀) s = prob (expU H t *ᵥ ψ₀) s :=
  probabilities_invariant d hd ψ₀ c hc hfix [(H, t)] s

/-! ### energies -/

theorem expect_conj (V A : Matrix n n ℂ) (hV : Vᴴ * V = 1) (ψ : n → ℂ) :
    expect (V * A * Vᴴ) (V *ᵥ ψ) = expect A ψ := by
  unfold expect
  rw [star_mulVec, mulVec_mulVec, Matrix.mul_assoc, hV, Matrix.mul_one, ← mulVec_mulVec, dotProduct_mulVec,
    vecMul_vecMul, hV, vecMul_one]

theorem expect_smul (A : Matrix n n ℂ) (c : ℂ) (hc : ‖c‖ = 1) (ψ : n → ℂ) : expect A (c • ψ) = expect A ψ := by
  unfold expect
  rw [mulVec_smul, star_smul, smul_dotProduct, dotProduct_smul, smul_smul]
  have : star c * c = 1 := by
    rw [Complex.star_def, mul_comm, Complex.mul_conj, Complex.normSq_eq_norm_sq, hc]; simp
  rw [this, one_smul]

/-- **Energies**: the expectation of `V A V†` in the final state of the conjugated run equals the expectation of `A` in the
final state of the original run (take `A` = the Hamiltonian of the last step). -/
theorem energy_invariant (d : n → ℂ) (hd : ∀ s, ‖d s‖ = 1) (ψ₀ : n → ℂ) (c : ℂ) (hc : ‖c‖ = 1)
    (hfix : diagonal d *ᵥ ψ₀ = c • ψ₀) (steps : List (Matrix n n ℂ × ℝ)) (A : Matrix n n ℂ) :
    expect (diagonal d * A * (diagonal d)ᴴ) (run (conjSteps (diagonal d) (diagonal d)ᴴ steps) ψ₀)
      = expect A (run steps ψ₀) := by
  have hVW := diagonal_unitary d hd
  have key := run_conj (diagonal d) (diagonal d)ᴴ hVW steps ψ₀
  rw [hfix, run_smul] at key
  rw [← expect_smul _ c hc, key, expect_conj _ _ (left_inverse_of_right _ _ hVW)]

/-! ### phase negation = entry-wise conjugation = time reversal -/

/-- `exp` commutes with entry-wise complex conjugation -/
theorem exp_map_conj (A : Matrix n n ℂ) : exp (A.map star) = (exp A).map star := by
  have h1 : ∀ B : Matrix n n ℂ, B.map star = Bᴴᵀ := fun B => by
    ext i j; simp [conjTranspose_apply]
  rw [h1, h1, Matrix.exp_transpose, Matrix.exp_conjTranspose]

/-- **`exp(−i t conj H) = conj(exp(+i t H))`** -/
theorem propagator_entrywise_conj (H : Matrix n n ℂ) (t : ℝ) :
    expU (H.map star) t = (expU H (-t)).map star := by
  unfold expU
  rw [← exp_map_conj]
  congr 1
  ext i j
  simp [Complex.conj_ofReal]

/-- time-reversed schedule (same order, negated step lengths) and the entry-wise conjugated one -/
def reverseTime (steps : List (Matrix n n ℂ × ℝ)) : List (Matrix n n ℂ × ℝ) := steps.map (fun s => (s.1, -s.2))
def negSteps (steps : List (Matrix n n ℂ × ℝ)) : List (Matrix n n ℂ × ℝ) := steps.map (fun s => (s.1.map star, s.2))

theorem run_negSteps (steps : List (Matrix n n ℂ × ℝ)) (ψ : n → ℂ) :
    run (negSteps steps) (star ψ) = star (run (reverseTime steps) ψ) := by
  induction steps generalizing ψ with
  | nil => rfl
  | cons s steps ih =>
    show run (negSteps steps) (expU (s.1.map star) s.2 *ᵥ star ψ) = star (run (reverseTime steps) (expU s.1 (-s.2) *ᵥ ψ))
    rw [← ih, propagator_entrywise_conj]
    congr 1
    ext i
    simp [mulVec, dotProduct, Pi.star_apply]

theorem prob_star (ψ : n → ℂ) (s : n) : prob (star ψ) s = prob ψ s := by
  unfold prob; rw [Pi.star_apply, Complex.star_def, Complex.normSq_conj]

/-- **Negating all phases is time reversal**: from a real initial state the run with the conjugated Hamiltonians has the
probabilities of the run with the ORIGINAL Hamiltonians and NEGATED step lengths. -/
theorem negation_is_time_reversal (steps : List (Matrix n n ℂ × ℝ)) (ψ₀ : n → ℂ) (hψ : star ψ₀ = ψ₀) (s : n) :
    prob (run (negSteps steps) ψ₀) s = prob (run (reverseTime steps) ψ₀) s := by
  have := run_negSteps steps ψ₀
  rw [hψ] at this
  rw [this, prob_star]

/-- **When negation IS an invariance**: every step's Hamiltonian is real up to ONE diagonal unitary, `H_k = D R_k D†`
with `conj R_k = R_k` (Rydberg Hamiltonian: the same phase `φ` in every step, `D = ⊗ diag(1, e^{iφ})`), and the diagonal unitary
`D̄ D†` fixes `ψ₀` up to a phase. Then `conj H_k = (D̄ D†) H_k (D̄ D†)†` and all probabilities agree. -/
theorem negation_invariant_of_real_up_to_diagonal (d : n → ℂ) (hd : ∀ s, ‖d s‖ = 1)
    (R : List (Matrix n n ℂ × ℝ)) (hR : ∀ r ∈ R, r.1.map star = r.1) (ψ₀ : n → ℂ) (c : ℂ) (hc : ‖c‖ = 1)
    (hfix : diagonal (fun s => star (d s) * star (d s)) *ᵥ ψ₀ = c • ψ₀) (s : n) :
    prob (run (negSteps (conjSteps (diagonal d) (diagonal d)ᴴ R)) ψ₀) s
      = prob (run (conjSteps (diagonal d) (diagonal d)ᴴ R) ψ₀) s := by
  set e : n → ℂ := fun s => star (d s) * star (d s) with he
  have hnorm : ∀ s, ‖e s‖ = 1 := fun s => by simp [he, hd s]
  have hdd : ∀ s, d s * star (d s) = 1 := fun s => by
    rw [Complex.star_def, Complex.mul_conj, Complex.normSq_eq_norm_sq, hd s]; simp
  have hsteps : negSteps (conjSteps (diagonal d) (diagonal d)ᴴ R)
      = conjSteps (diagonal e) (diagonal e)ᴴ (conjSteps (diagonal d) (diagonal d)ᴴ R) := by
    unfold negSteps conjSteps
    rw [List.map_map, List.map_map]
    apply List.map_congr_left
    intro r hr
    have hr' := hR r hr
    simp only [Function.comp_apply, Prod.mk.injEq, and_true]
    have hentry : ∀ i j, r.1 i j = star (r.1 i j) := fun i j => by
      have := congrFun (congrFun hr' i) j
      simpa using this.symm
    ext i j
    simp only [diagonal_conjTranspose, map_apply, Matrix.mul_assoc, diagonal_mul, mul_diagonal, Pi.star_apply, he,
      star_mul', star_star]
    rw [← hentry i j]
    have h1 := hdd i
    have h2 := hdd j
    linear_combination (-(star (d i) * r.1 i j * d j)) * h1
      - (star (d i) * r.1 i j * d j) * (d i * star (d i)) * h2
  rw [hsteps]
  exact probabilities_invariant e hnorm ψ₀ c hc hfix _ s

/-! ### closed form for involutions (to evaluate the counterexample exactly) -/

/-- `K² = 1` ⇒ `exp(c • K) = cosh c • 1 + sinh c • K` -/
theorem exp_smul_of_mul_self_eq_one (K : Matrix n n ℂ) (hK : K * K = 1) (c : ℂ) :
    exp (c • K) = Complex.cosh c • (1 : Matrix n n ℂ) + Complex.sinh c • K := by
  have hpow_even : ∀ k : ℕ, K ^ (2 * k) = 1 := fun k => by rw [pow_mul, pow_two, hK, one_pow]
  have hpow_odd : ∀ k : ℕ, K ^ (2 * k + 1) = K := fun k => by rw [pow_succ, hpow_even, one_mul]
  rw [exp_eq_tsum ℂ]
  refine HasSum.tsum_eq ?_
  refine HasSum.even_add_odd ?_ ?_
  · have h := (Complex.hasSum_cosh c).smul_const (1 : Matrix n n ℂ)
    have hfun : (fun k : ℕ => (c ^ (2 * k) / ((2 * k).factorial : ℂ)) • (1 : Matrix n n ℂ))
        = fun k : ℕ => (((2 * k).factorial : ℂ)⁻¹) • (c • K) ^ (2 * k) := by
      funext k
      rw [smul_pow, hpow_even, smul_smul, div_eq_inv_mul]
    rw [hfun] at h
    exact h
  · have h := (Complex.hasSum_sinh c).smul_const K
    have hfun : (fun k : ℕ => (c ^ (2 * k + 1) / ((2 * k + 1).factorial : ℂ)) • K)
        = fun k : ℕ => (((2 * k + 1).factorial : ℂ)⁻¹) • (c • K) ^ (2 * k + 1) := by
      funext k
      rw [smul_pow, hpow_odd, smul_smul, div_eq_inv_mul]
    rw [hfun] at h
    exact h

/-- `K² = 1` ⇒ `exp(−i t K) = cos t − i sin t K` -/
theorem propagator_of_involution (K : Matrix n n ℂ) (hK : K * K = 1) (t : ℝ) :
    expU K t = (Real.cos t : ℂ) • (1 : Matrix n n ℂ) - (Complex.I * (Real.sin t : ℂ)) • K := by
  unfold expU
  rw [exp_smul_of_mul_self_eq_one K hK, Complex.cosh_neg, Complex.sinh_neg, mul_comm Complex.I (t : ℂ),
    Complex.cosh_mul_I, Complex.sinh_mul_I, neg_smul, ← sub_eq_add_neg, Complex.ofReal_cos, Complex.ofReal_sin,
    mul_comm (Complex.sin (t : ℂ)) Complex.I]


theorem prob_smul_general (c : ℂ) (ψ : n → ℂ) (s : n) : prob (c • ψ) s = Complex.normSq c * prob ψ s := by
  unfold prob
  rw [Pi.smul_apply, smul_eq_mul, Complex.normSq_mul]

/-! ### the unrestricted negation clause is false: an exactly evaluated 2×2 instance

One atom, `Ω = 8/5`, `δ = 6/5`, shifted by `(δ/2)·1` (a global phase of the propagator, invisible in every probability) so that
`K = (Ω/2)(cos φ σx + sin φ σy) + (δ/2) σz` squares to 1. Step 1: phase 0 for a time `π/4`; step 2: phase `±φ₂`,
`(cos φ₂, sin φ₂) = (3/5, 4/5)`, for a time `π/2`. Convention of the code: `H[1,0] = (Ω/2) e^{iφ}`. -/
section counterexample

noncomputable def K1 : Matrix (Fin 2) (Fin 2) ℂ := !![3 / 5, 4 / 5; 4 / 5, -(3 / 5)]
/-- phase `+φ₂` -/
noncomputable def K2 : Matrix (Fin 2) (Fin 2) ℂ :=
  !![3 / 5, 12 / 25 - 16 / 25 * Complex.I; 12 / 25 + 16 / 25 * Complex.I, -(3 / 5)]
/-- phase `−φ₂` -/
noncomputable def K2neg : Matrix (Fin 2) (Fin 2) ℂ :=
  !![3 / 5, 12 / 25 + 16 / 25 * Complex.I; 12 / 25 - 16 / 25 * Complex.I, -(3 / 5)]
/-- `|g⟩` -/
noncomputable def gnd : Fin 2 → ℂ := ![1, 0]

theorem K1_sq : K1 * K1 = 1 := by
  ext i j
  fin_cases i <;> fin_cases j <;> simp [K1, Matrix.mul_apply, Fin.sum_univ_two] <;> norm_num
theorem K2_sq : K2 * K2 = 1 := by
  ext i j
  fin_cases i <;> fin_cases j <;> simp [K2, Matrix.mul_apply, Fin.sum_univ_two, Complex.ext_iff] <;> norm_num
theorem K2neg_sq : K2neg * K2neg = 1 := by
  ext i j
  fin_cases i <;> fin_cases j <;> simp [K2neg, Matrix.mul_apply, Fin.sum_univ_two, Complex.ext_iff] <;> norm_num
theorem K1_hermitian : K1.IsHermitian := by
  ext i j
  fin_cases i <;> fin_cases j <;> simp [K1, Matrix.conjTranspose_apply]
theorem K2_hermitian : K2.IsHermitian := by
  ext i j
  fin_cases i <;> fin_cases j <;> simp [K2, Matrix.conjTranspose_apply, Complex.ext_iff]
theorem K1_conj : K1.map star = K1 := by
  ext i j
  fin_cases i <;> fin_cases j <;> simp [K1, Complex.conj_ofNat]
theorem K2_conj : K2.map star = K2neg := by
  ext i j
  fin_cases i <;> fin_cases j <;> simp [K2, K2neg, Complex.ext_iff, Complex.conj_ofNat]

/-- the two-step run in closed form, for any involution in the second step -/
theorem two_step_run (K : Matrix (Fin 2) (Fin 2) ℂ) (hK : K * K = 1) :
    run [(K1, Real.pi / 4), (K, Real.pi / 2)] gnd
      = (((Real.sqrt 2 / 2 : ℝ) : ℂ) * (-Complex.I)) • (K *ᵥ ![1 - 3 / 5 * Complex.I, -(4 / 5 * Complex.I)]) := by
  have h1 : expU K1 (Real.pi / 4) *ᵥ gnd
      = ((Real.sqrt 2 / 2 : ℝ) : ℂ) • ![1 - 3 / 5 * Complex.I, -(4 / 5 * Complex.I)] := by
    rw [propagator_of_involution K1 K1_sq, Real.cos_pi_div_four, Real.sin_pi_div_four]
    ext i
    fin_cases i <;> simp [K1, gnd, Matrix.mulVec, dotProduct, Fin.sum_univ_two] <;> ring
  have h2 : expU K (Real.pi / 2) = (-Complex.I) • K := by
    rw [propagator_of_involution K hK, Real.cos_pi_div_two, Real.sin_pi_div_two]
    simp
  rw [run_cons, run_cons, run_nil]
  show expU K (Real.pi / 2) *ᵥ (expU K1 (Real.pi / 4) *ᵥ gnd) = _
  rw [h1, h2, Matrix.mulVec_smul, Matrix.smul_mulVec, smul_smul, mul_comm]

theorem half_sqrt_two_normSq : Complex.normSq ((((Real.sqrt 2 / 2 : ℝ) : ℂ)) * (-Complex.I)) = 1 / 2 := by
  rw [Complex.normSq_mul, Complex.normSq_ofReal, Complex.normSq_neg, Complex.normSq_I, mul_one]
  have := Real.mul_self_sqrt (show (0 : ℝ) ≤ 2 by norm_num)
  nlinarith [this]

/-- ground-state weight with phases `(0, +φ₂)`: exactly `4385/15625 ≈ 0.28` -/
theorem weight_original : prob (run [(K1, Real.pi / 4), (K2, Real.pi / 2)] gnd) 0 = 4385 / 15625 := by
  rw [two_step_run K2 K2_sq, prob_smul_general, half_sqrt_two_normSq]
  have : (K2 *ᵥ ![1 - 3 / 5 * Complex.I, -(4 / 5 * Complex.I)]) 0 = 11 / 125 - 93 / 125 * Complex.I := by
    simp [K2, Matrix.mulVec, dotProduct, Fin.sum_univ_two, Complex.ext_iff]; norm_num
  unfold prob
  rw [this, Complex.normSq_apply]
  simp
  norm_num

/-- ground-state weight with the phases negated `(0, −φ₂)`: exactly `13985/15625 ≈ 0.90` -/
theorem weight_negated : prob (run (negSteps [(K1, Real.pi / 4), (K2, Real.pi / 2)]) gnd) 0 = 13985 / 15625 := by
  have hs : negSteps [(K1, Real.pi / 4), (K2, Real.pi / 2)] = [(K1, Real.pi / 4), (K2neg, Real.pi / 2)] := by
    unfold negSteps
    simp only [List.map_cons, List.map_nil, K1_conj, K2_conj]
  rw [hs, two_step_run K2neg K2neg_sq, prob_smul_general, half_sqrt_two_normSq]
  have : (K2neg *ᵥ ![1 - 3 / 5 * Complex.I, -(4 / 5 * Complex.I)]) 0 = 139 / 125 - 93 / 125 * Complex.I := by
    simp [K2neg, Matrix.mulVec, dotProduct, Fin.sum_univ_two, Complex.ext_iff]; norm_num
  unfold prob
  rw [this, Complex.normSq_apply]
  simp
  norm_num

/-- **"Negating all phases leaves every result unchanged" is false** for the ideal propagator: Hermitian steps, real initial
state `|g⟩`, and the ground-state weight changes from `0.28` to `0.90`. -/
theorem negation_not_an_invariance :
    ¬ ∀ (steps : List (Matrix (Fin 2) (Fin 2) ℂ × ℝ)) (ψ₀ : Fin 2 → ℂ) (s : Fin 2),
      (∀ st ∈ steps, st.1.IsHermitian) → star ψ₀ = ψ₀ → prob (run (negSteps steps) ψ₀) s = prob (run steps ψ₀) s := by
  intro h
  have := h [(K1, Real.pi / 4), (K2, Real.pi / 2)] gnd 0
    (by intro st hst; simp at hst; rcases hst with rfl | rfl; exacts [K1_hermitian, K2_hermitian])
    (by ext i; fin_cases i <;> simp [gnd])
  rw [weight_original, weight_negated] at this
  norm_num at this

end counterexample

/-! ### non-vacuity -/
section examples

/-- `diag(1, e^{iθ})` with `e^{iθ} = 3/5 + 4/5 i` -/
noncomputable def dEx : Fin 2 → ℂ := ![1, 3 / 5 + 4 / 5 * Complex.I]

theorem dEx_norm : ∀ s, ‖dEx s‖ = 1 := by
  intro s
  fin_cases s
  · simp [dEx]
  · have : Complex.normSq (3 / 5 + 4 / 5 * Complex.I) = 1 := by
      rw [Complex.normSq_apply]; simp; norm_num
    simp [dEx, Complex.norm_def, this]

theorem dEx_fixes_gnd : diagonal dEx *ᵥ gnd = (1 : ℂ) • gnd := by
  ext i; fin_cases i <;> simp [dEx, gnd, mulVec_diagonal]

/-- the hypotheses of `probabilities_invariant` / `energy_invariant` are satisfiable, with a non-trivial `V` -/
example (steps : List (Matrix (Fin 2) (Fin 2) ℂ × ℝ)) (s : Fin 2) :
    prob (run (conjSteps (diagonal dEx) (diagonal dEx)ᴴ steps) gnd) s = prob (run steps gnd) s :=
  probabilities_invariant dEx dEx_norm gnd 1 (by simp) dEx_fixes_gnd steps s

example (steps : List (Matrix (Fin 2) (Fin 2) ℂ × ℝ)) :
    expect (diagonal dEx * K2 * (diagonal dEx)ᴴ) (run (conjSteps (diagonal dEx) (diagonal dEx)ᴴ steps) gnd)
      = expect K2 (run steps gnd) :=
  energy_invariant dEx dEx_norm gnd 1 (by simp) dEx_fixes_gnd steps K2

/-- the conjugation is not the identity: the `[1,0]` entry of `K1` is rotated by `e^{iθ}` -/
example : (diagonal dEx * K1 * (diagonal dEx)ᴴ) 1 0 = 4 / 5 * (3 / 5 + 4 / 5 * Complex.I) := by
  simp [dEx, K1, diagonal_conjTranspose, Matrix.mul_apply, Matrix.diagonal_apply]
  ring

/-- `negation_invariant_of_real_up_to_diagonal`: constant phase `θ` in every step (`R` real, e.g. `K1`), from `|g⟩` -/
example (t₁ t₂ : ℝ) (s : Fin 2) :
    prob (run (negSteps (conjSteps (diagonal dEx) (diagonal dEx)ᴴ [(K1, t₁), (K1, t₂)])) gnd) s
      = prob (run (conjSteps (diagonal dEx) (diagonal dEx)ᴴ [(K1, t₁), (K1, t₂)]) gnd) s :=
  negation_invariant_of_real_up_to_diagonal dEx dEx_norm _
    (by intro r hr; simp at hr; rcases hr with rfl | rfl <;> exact K1_conj) gnd 1 (by simp)
    (by ext i; fin_cases i <;> simp [dEx, gnd, mulVec_diagonal]) s

/-- `exp_smul_conj` with a non-unitary invertible `V` -/
example (H : Matrix (Fin 2) (Fin 2) ℂ) (c : ℂ) :
    exp (c • (!![1, 1; 0, 1] * H * !![1, -1; 0, 1])) = !![1, 1; 0, 1] * exp (c • H) * !![1, -1; 0, 1] :=
  exp_smul_conj _ _ H (by ext i j; fin_cases i <;> fin_cases j <;> simp [Matrix.mul_apply, Fin.sum_univ_two]) c

end examples

end EmuVerif.Props.C29Exp
