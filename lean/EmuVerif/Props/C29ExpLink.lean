/-
  C29 — bridge between `Props/C29.lean` (the emu-sv Hamiltonian on tree vectors, any `LawfulCx` scalar ring) and
  `Props/C29Exp.lean` (the ideal propagator `exp(−i t H)` on `Matrix ι ι ℂ`).

  * `ℂ` is a `LawfulCx` scalar type (`CxLike.I = Complex.I`, `conj = star`, `half = 1/2`), so every theorem of
    `Props/C29.lean` applies to tree vectors over `ℂ`.
  * `Idx n` (a binary tree of depth `n` of `Unit`s, `2ⁿ` elements, leftmost = `|g…g⟩`) indexes the entries of `Vec ℂ n`;
    `vecEquiv n : Vec ℂ n ≃ₗ[ℂ] (Idx n → ℂ)` reads a tree vector as a function. `matOf A` is the matrix of a linear operator
    `A` on tree vectors w.r.t. it: `vecEquiv (A v) = matOf A *ᵥ vecEquiv v` (`toFun_apply_matOf`).
  * `hamLin` = `RydbergHamiltonian.__mul__` (complex path) as a linear map — linearity from C06's
    `hamMulWith_eq_dense_entries`; `hamMatrix` its dense matrix.
  * `toFun_phase`                         the matrix of `C29`'s `phase u = ⊗_q diag(1, u)` is `diagonal (phaseDiag u n)`,
    `phaseDiag_norm`: unit-modulus entries when `|u| = 1`.
  * `hamMatrix_shift`                     **`C29.phase_offset_is_conjugation` transported**: the dense matrix of `H(φ+θ)` is
    `D · H(φ) · Dᴴ` with `D = diagonal (phaseDiag e^{iθ} n)`.
  * `ideal_results_invariant_under_phase_offset`, `ideal_energy_invariant_under_phase_offset`
    **the result for the real model's Hamiltonian and the IDEAL propagator**: for any number of qubits, any list of steps with
    step-dependent `Ω, δ, φ, U` and step lengths `t_k`, a common phase offset `θ` (the same in every step) leaves every
    basis-state probability of `Π_k exp(−i t_k H_k) |g…g⟩` unchanged, and the energy w.r.t. any step's Hamiltonian.
    (`Props/C29.lean` has this for polynomial propagators; here it is the exponential.)
  * `hamMatrix_neg`                       `C29.phase_negation_is_conjugation` transported: for real drives the dense matrix of
    `H(−φ)` is the entry-wise conjugate of that of `H(φ)`; `ideal_negation_is_time_reversal`: the ideal run with all phases
    negated has, from `|g…g⟩`, the probabilities of the run with the original phases and NEGATED step lengths.
-/
import EmuVerif.Props.C29
import EmuVerif.Props.C29Exp
import Mathlib.LinearAlgebra.Matrix.ToLin

set_option linter.unusedSectionVars false
set_option linter.unusedVariables false

namespace EmuVerif.Props.C29ExpLink
open EmuVerif EmuVerif.TreeVec EmuVerif.SvOps EmuVerif.SvSym EmuVerif.Ideal Matrix
open EmuVerif.Props.C29Exp

/-! ### `ℂ` as a model scalar -/

noncomputable instance instCxLikeComplex : CxLike ℂ := ⟨Complex.I, star, 1 / 2⟩

instance instLawfulCxComplex : LawfulCx ℂ where
  conj_eq _ := rfl
  I_mul_I := Complex.I_mul_I
  star_I := Complex.conj_I
  half_add := by show (1 / 2 : ℂ) + 1 / 2 = 1; norm_num
  star_half := by show star (1 / 2 : ℂ) = 1 / 2; simp

/-! ### entries of a tree vector -/

/-- index set of a depth-`n` tree vector: `2ⁿ` elements; `Sum.inl` = qubit 0 in `g`, `Sum.inr` = qubit 0 in `r` -/
def Idx : Nat → Type
  | 0 => Unit
  | n + 1 => Idx n ⊕ Idx n

instance instFintypeIdx : (n : Nat) → Fintype (Idx n)
  | 0 => (inferInstance : Fintype Unit)
  | n + 1 => @instFintypeSum (Idx n) (Idx n) (instFintypeIdx n) (instFintypeIdx n)

instance instDecidableEqIdx : (n : Nat) → DecidableEq (Idx n)
  | 0 => (inferInstance : DecidableEq Unit)
  | n + 1 => @instDecidableEqSum (Idx n) (Idx n) (instDecidableEqIdx n) (instDecidableEqIdx n)

def toFun : {n : Nat} → Vec ℂ n → Idx n → ℂ
  | _, .leaf x => fun _ => x
  | _, .node a b => Sum.elim (toFun a) (toFun b)

def ofFun : (n : Nat) → (Idx n → ℂ) → Vec ℂ n
  | 0, f => .leaf (f ())
  | n + 1, f => .node (ofFun n (fun i => f (Sum.inl i))) (ofFun n (fun i => f (Sum.inr i)))

theorem toFun_add : ∀ {n} (v w : Vec ℂ n), toFun (v + w) = toFun v + toFun w
  | _, .leaf x, .leaf y => rfl
  | _, .node a b, .node c d => by
    rw [Vec.node_add]
    funext i
    cases i with
    | inl i => show toFun (a + c) i = _; rw [toFun_add]; rfl
    | inr i => show toFun (b + d) i = _; rw [toFun_add]; rfl

theorem toFun_smul (s : ℂ) : ∀ {n} (v : Vec ℂ n), toFun (s • v) = s • toFun v
  | _, .leaf x => rfl
  | _, .node a b => by
    rw [Vec.smul_node]
    funext i
    cases i with
    | inl i => show toFun (s • a) i = _; rw [toFun_smul s]; rfl
    | inr i => show toFun (s • b) i = _; rw [toFun_smul s]; rfl

theorem ofFun_toFun : ∀ {n} (v : Vec ℂ n), ofFun n (toFun v) = v
  | _, .leaf x => rfl
  | _, .node a b => by
    show Vec.node (ofFun _ (toFun a)) (ofFun _ (toFun b)) = _
    rw [ofFun_toFun, ofFun_toFun]

theorem toFun_ofFun : ∀ (n : Nat) (f : Idx n → ℂ), toFun (ofFun n f) = f
  | 0, f => by funext i; cases i; rfl
  | n + 1, f => by
    funext i
    cases i with
    | inl i => show toFun (ofFun n _) i = _; rw [toFun_ofFun]
    | inr i => show toFun (ofFun n _) i = _; rw [toFun_ofFun]

/-- a tree vector over `ℂ` read as a function on `Idx n` -/
noncomputable def vecEquiv (n : Nat) : Vec ℂ n ≃ₗ[ℂ] (Idx n → ℂ) where
  toFun := toFun
  map_add' := toFun_add
  map_smul' s v := toFun_smul s v
  invFun := ofFun n
  left_inv := ofFun_toFun
  right_inv := toFun_ofFun n

/-- the dense matrix of a linear operator on tree vectors -/
noncomputable def matOf {n : Nat} (A : Vec ℂ n →ₗ[ℂ] Vec ℂ n) : Matrix (Idx n) (Idx n) ℂ :=
  LinearMap.toMatrix' ((vecEquiv n).toLinearMap ∘ₗ A ∘ₗ (vecEquiv n).symm.toLinearMap)

theorem toFun_apply_matOf {n : Nat} (A : Vec ℂ n →ₗ[ℂ] Vec ℂ n) (v : Vec ℂ n) :
    toFun (A v) = matOf A *ᵥ toFun v := by
  unfold matOf
  rw [← Matrix.toLin'_apply, Matrix.toLin'_toMatrix']
  show toFun (A v) = toFun (A ((vecEquiv n).symm (vecEquiv n v)))
  rw [LinearEquiv.symm_apply_apply]

/-- two matrices that act alike on every `toFun v` are equal -/
theorem matrix_ext_of_toFun {n : Nat} (M N : Matrix (Idx n) (Idx n) ℂ)
    (h : ∀ v : Vec ℂ n, M *ᵥ toFun v = N *ᵥ toFun v) : M = N := by
  apply Matrix.toLin'.injective
  apply LinearMap.ext
  intro x
  rw [Matrix.toLin'_apply, Matrix.toLin'_apply]
  have := h (ofFun n x)
  rwa [toFun_ofFun] at this

/-! ### the Hamiltonian and the phase operator as matrices -/

/-- `RydbergHamiltonian.__mul__` (complex path) as a linear map on tree vectors over `ℂ` -/
noncomputable def hamLin (n : Nat) (Ω δ : Nat → ℂ) (ph : Nat → Phase ℂ) (U : Nat → Nat → ℂ) : Vec ℂ n →ₗ[ℂ] Vec ℂ n where
  toFun v := hamMulWith true Ω δ ph U v
  map_add' v w := by
    simp only [hamMulWith_eq_dense_entries]
    exact Mat.mulVec_add_vec _ v w
  map_smul' s v := by
    simp only [hamMulWith_eq_dense_entries, RingHom.id_apply]
    exact Mat.mulVec_smul_vec s _ v

/-- dense matrix of the emu-sv Hamiltonian -/
noncomputable def hamMatrix (n : Nat) (Ω δ : Nat → ℂ) (ph : Nat → Phase ℂ) (U : Nat → Nat → ℂ) :
    Matrix (Idx n) (Idx n) ℂ := matOf (hamLin n Ω δ ph U)

theorem toFun_ham (n : Nat) (Ω δ : Nat → ℂ) (ph : Nat → Phase ℂ) (U : Nat → Nat → ℂ) (v : Vec ℂ n) :
    toFun (hamMulWith true Ω δ ph U v) = hamMatrix n Ω δ ph U *ᵥ toFun v :=
  toFun_apply_matOf (hamLin n Ω δ ph U) v

/-- entries of `⊗_q diag(1, u)`: `u^(number of excited qubits)` -/
noncomputable def phaseDiag (u : ℂ) : (n : Nat) → Idx n → ℂ
  | 0 => fun _ => 1
  | n + 1 => Sum.elim (phaseDiag u n) (fun i => u * phaseDiag u n i)

theorem toFun_phase (u : ℂ) : ∀ {n} (v : Vec ℂ n), toFun (phase u v) = diagonal (phaseDiag u n) *ᵥ toFun v
  | _, .leaf x => by funext i; rw [mulVec_diagonal]; show x = 1 * x; rw [one_mul]
  | n + 1, .node a b => by
    funext i
    rw [mulVec_diagonal, phase_node]
    cases i with
    | inl i =>
      show toFun (phase u a) i = phaseDiag u n i * toFun a i
      rw [toFun_phase u a, mulVec_diagonal]
    | inr i =>
      show toFun (u • phase u b) i = (u * phaseDiag u n i) * toFun b i
      rw [toFun_smul, Pi.smul_apply, toFun_phase u b, mulVec_diagonal, smul_eq_mul, mul_assoc]

theorem phaseDiag_norm (u : ℂ) (hu : ‖u‖ = 1) : ∀ (n : Nat) (i : Idx n), ‖phaseDiag u n i‖ = 1
  | 0, _ => by simp [phaseDiag]
  | n + 1, .inl i => phaseDiag_norm u hu n i
  | n + 1, .inr i => by
    show ‖u * phaseDiag u n i‖ = 1
    rw [norm_mul, hu, phaseDiag_norm u hu n i, one_mul]

theorem phaseDiag_star (u : ℂ) : ∀ (n : Nat) (i : Idx n), star (phaseDiag u n i) = phaseDiag (star u) n i
  | 0, _ => by simp [phaseDiag]
  | n + 1, .inl i => phaseDiag_star u n i
  | n + 1, .inr i => by
    show star (u * phaseDiag u n i) = star u * phaseDiag (star u) n i
    rw [star_mul', phaseDiag_star u n i]

theorem norm_of_unit (u : ℂ) (h : u * star u = 1) : ‖u‖ = 1 := by
  have h1 : (Complex.normSq u : ℂ) = 1 := by rw [← Complex.mul_conj]; exact h
  have h2 : Complex.normSq u = 1 := by exact_mod_cast h1
  rw [Complex.norm_def, h2, Real.sqrt_one]

/-- **`C29.phase_offset_is_conjugation` on dense matrices**: `H(φ+θ) = D H(φ) Dᴴ`, `D = ⊗_q diag(1, e^{iθ})`. -/
theorem hamMatrix_shift (n : Nat) (Ω δ : Nat → ℂ) (ph : Nat → Phase ℂ) (U : Nat → Nat → ℂ) (cθ sθ : ℂ)
    (hc : star cθ = cθ) (hs : star sθ = sθ) (hunit : cθ * cθ + sθ * sθ = 1) :
    hamMatrix n Ω δ (fun k => shiftPhase cθ sθ (ph k)) U
      = diagonal (phaseDiag (cθ + Complex.I * sθ) n) * hamMatrix n Ω δ ph U
        * (diagonal (phaseDiag (cθ + Complex.I * sθ) n))ᴴ := by
  apply matrix_ext_of_toFun
  intro v
  have key := C29.phase_offset_is_conjugation (κ := ℂ) (β := ℂ) (n := n) Ω δ ph U cθ sθ hc hs hunit v
  have hI : (CxLike.I : ℂ) = Complex.I := rfl
  rw [hI] at key
  rw [← toFun_ham, key, toFun_phase, toFun_ham, toFun_phase, diagonal_conjTranspose, mulVec_mulVec, mulVec_mulVec]
  congr 3
  funext i
  exact (phaseDiag_star _ n i).symm

/-! ### the ideal evolution of the model's Hamiltonian under a common phase offset -/

/-- dense Hamiltonian of a `C29.Step` (its polynomial coefficients are not used here) with a step length -/
noncomputable def idealSteps (n : Nat) (steps : List (C29.Step ℂ × ℝ)) : List (Matrix (Idx n) (Idx n) ℂ × ℝ) :=
  steps.map (fun s => (hamMatrix n s.1.Ω s.1.δ s.1.ph s.1.U, s.2))

/-- `|g…g⟩` as a function on `Idx n` -/
noncomputable def groundFun (n : Nat) : Idx n → ℂ := toFun (ground n : Vec ℂ n)

theorem idealSteps_shift (n : Nat) (steps : List (C29.Step ℂ × ℝ)) (cθ sθ : ℂ)
    (hc : star cθ = cθ) (hs : star sθ = sθ) (hunit : cθ * cθ + sθ * sθ = 1) :
    idealSteps n (steps.map (fun s => (s.1.shift cθ sθ, s.2)))
      = conjSteps (diagonal (phaseDiag (cθ + Complex.I * sθ) n)) (diagonal (phaseDiag (cθ + Complex.I * sθ) n))ᴴ
          (idealSteps n steps) := by
  unfold idealSteps conjSteps
  rw [List.map_map, List.map_map]
  apply List.map_congr_left
  intro s _
  simp only [Function.comp_apply, C29.Step.shift]
  rw [hamMatrix_shift n s.1.Ω s.1.δ s.1.ph s.1.U cθ sθ hc hs hunit]

theorem ground_fixed (n : Nat) (u : ℂ) : diagonal (phaseDiag u n) *ᵥ groundFun n = (1 : ℂ) • groundFun n := by
  unfold groundFun
  rw [← toFun_phase, C29.offset_fixes_ground_state, one_smul]

/-- **All basis-state probabilities of the IDEAL evolution `Π_k exp(−i t_k H_k)|g…g⟩` of the emu-sv Hamiltonian are unchanged
by a common phase offset** (any number of qubits, any steps with step-dependent parameters and lengths). -/
theorem ideal_results_invariant_under_phase_offset (n : Nat) (steps : List (C29.Step ℂ × ℝ)) (cθ sθ : ℂ)
    (hc : star cθ = cθ) (hs : star sθ = sθ) (hunit : cθ * cθ + sθ * sθ = 1) (i : Idx n) :
    prob (run (idealSteps n (steps.map (fun s => (s.1.shift cθ sθ, s.2)))) (groundFun n)) i
      = prob (run (idealSteps n steps) (groundFun n)) i := by
  have hu : ‖cθ + Complex.I * sθ‖ = 1 := norm_of_unit _ (C29.unit_of_rotation (κ := ℂ) cθ sθ hc hs hunit)
  rw [idealSteps_shift n steps cθ sθ hc hs hunit]
  exact probabilities_invariant _ (phaseDiag_norm _ hu n) (groundFun n) 1 (by simp) (ground_fixed n _) _ i

/-- … and so is the energy w.r.t. the (shifted resp. unshifted) Hamiltonian of any parameter set `e`. -/
theorem ideal_energy_invariant_under_phase_offset (n : Nat) (steps : List (C29.Step ℂ × ℝ)) (e : C29.Step ℂ) (cθ sθ : ℂ)
    (hc : star cθ = cθ) (hs : star sθ = sθ) (hunit : cθ * cθ + sθ * sθ = 1) :
    expect (hamMatrix n e.Ω e.δ (fun k => shiftPhase cθ sθ (e.ph k)) e.U)
        (run (idealSteps n (steps.map (fun s => (s.1.shift cθ sθ, s.2)))) (groundFun n))
      = expect (hamMatrix n e.Ω e.δ e.ph e.U) (run (idealSteps n steps) (groundFun n)) := by
  have hu : ‖cθ + Complex.I * sθ‖ = 1 := norm_of_unit _ (C29.unit_of_rotation (κ := ℂ) cθ sθ hc hs hunit)
  rw [idealSteps_shift n steps cθ sθ hc hs hunit, hamMatrix_shift n e.Ω e.δ e.ph e.U cθ sθ hc hs hunit]
  exact energy_invariant _ (phaseDiag_norm _ hu n) (groundFun n) 1 (by simp) (ground_fixed n _) _ _

/-! ### phase negation for the model's Hamiltonian -/

theorem toFun_cj : ∀ {n} (v : Vec ℂ n), toFun (cj v) = star (toFun v)
  | _, .leaf x => rfl
  | _, .node a b => by
    funext i
    cases i with
    | inl i => show toFun (cj a) i = star (toFun a i); rw [toFun_cj a]; rfl
    | inr i => show toFun (cj b) i = star (toFun b i); rw [toFun_cj b]; rfl

theorem map_star_mulVec {ι : Type} [Fintype ι] (M : Matrix ι ι ℂ) (x : ι → ℂ) :
    (M.map star) *ᵥ x = star (M *ᵥ star x) := by
  funext i
  simp only [mulVec, dotProduct, map_apply, Pi.star_apply, star_sum, star_mul', star_star]

/-- real drive parameters of a step (what `C29.phase_negation_is_conjugation` needs) -/
def RealStep (n : Nat) (s : C29.Step ℂ) : Prop :=
  (∀ k, k < n → star (s.Ω k) = s.Ω k) ∧ (∀ k, k < n → star (s.δ k) = s.δ k) ∧
  (∀ i j, i < j → j < n → star (s.U i j) = s.U i j) ∧
  (∀ k, k < n → star (s.ph k).c = (s.ph k).c ∧ star (s.ph k).s = (s.ph k).s)

/-- **`C29.phase_negation_is_conjugation` on dense matrices**: `H(−φ) = conj H(φ)` entry-wise. -/
theorem hamMatrix_neg (n : Nat) (s : C29.Step ℂ) (hs : RealStep n s) :
    hamMatrix n s.Ω s.δ (fun k => negPhase (s.ph k)) s.U = (hamMatrix n s.Ω s.δ s.ph s.U).map star := by
  apply matrix_ext_of_toFun
  intro v
  rw [← toFun_ham, C29.phase_negation_is_conjugation (κ := ℂ) (n := n) s.Ω s.δ s.ph s.U v hs.1 hs.2.1 hs.2.2.1 hs.2.2.2,
    toFun_cj, toFun_ham, toFun_cj, map_star_mulVec]

theorem toFun_zero : ∀ (n : Nat), toFun (Vec.replicate n (0 : ℂ)) = 0
  | 0 => rfl
  | n + 1 => by
    funext i
    cases i with
    | inl i => show toFun (Vec.replicate n (0 : ℂ)) i = 0; rw [toFun_zero n]; rfl
    | inr i => show toFun (Vec.replicate n (0 : ℂ)) i = 0; rw [toFun_zero n]; rfl

theorem groundFun_real : ∀ (n : Nat), star (groundFun n) = groundFun n
  | 0 => by funext i; show star (1 : ℂ) = 1; simp
  | n + 1 => by
    funext i
    cases i with
    | inl i => show star (groundFun n i) = groundFun n i; exact congrFun (groundFun_real n) i
    | inr i =>
      show star (toFun (Vec.replicate n (0 : ℂ)) i) = toFun (Vec.replicate n (0 : ℂ)) i
      rw [toFun_zero n]; simp

/-- **Negating all phases of the model's Hamiltonian is time reversal of the ideal evolution** (real drives, from `|g…g⟩`). -/
theorem ideal_negation_is_time_reversal (n : Nat) (steps : List (C29.Step ℂ × ℝ)) (hreal : ∀ s ∈ steps, RealStep n s.1)
    (i : Idx n) :
    prob (run (idealSteps n (steps.map (fun s => (s.1.neg, s.2)))) (groundFun n)) i
      = prob (run (reverseTime (idealSteps n steps)) (groundFun n)) i := by
  have hneg : idealSteps n (steps.map (fun s => (s.1.neg, s.2))) = negSteps (idealSteps n steps) := by
    unfold idealSteps negSteps
    rw [List.map_map, List.map_map]
    apply List.map_congr_left
    intro s hs
    simp only [Function.comp_apply, C29.Step.neg]
    rw [hamMatrix_neg n s.1 (hreal s hs)]
  rw [hneg]
  exact negation_is_time_reversal _ _ (groundFun_real n) i

/-! ### non-vacuity -/

/-- a rotation `(cθ, sθ) = (3/5, 4/5)` satisfies the hypotheses -/
example : star (3 / 5 : ℂ) = 3 / 5 ∧ star (4 / 5 : ℂ) = 4 / 5 ∧ (3 / 5 : ℂ) * (3 / 5) + (4 / 5) * (4 / 5) = 1 := by
  refine ⟨by simp, by simp, by norm_num⟩

/-- the bridge is not trivial: on one qubit `D = diag(1, u)` and `|g⟩ = (1, 0)` -/
example (u : ℂ) : phaseDiag u 1 (Sum.inl ()) = 1 ∧ phaseDiag u 1 (Sum.inr ()) = u ∧
    groundFun 1 (Sum.inl ()) = 1 ∧ groundFun 1 (Sum.inr ()) = 0 := by
  refine ⟨rfl, ?_, rfl, rfl⟩
  show u * 1 = u
  rw [mul_one]

/-- the matrix acts as the model's `H`: entry `[r]` of `H|g⟩` on one qubit -/
example (Ω δ c s : ℂ) :
    toFun (hamMulWith true (fun _ => Ω) (fun _ => δ) (fun _ => ⟨true, c, s⟩) (fun _ _ => 0)
      (Vec.node (.leaf 1) (.leaf 0) : Vec ℂ 1)) (Sum.inr ())
      = (hamMatrix 1 (fun _ => Ω) (fun _ => δ) (fun _ => ⟨true, c, s⟩) (fun _ _ => 0)
          *ᵥ toFun (Vec.node (.leaf 1) (.leaf 0) : Vec ℂ 1)) (Sum.inr ()) := by
  rw [toFun_ham]

end EmuVerif.Props.C29ExpLink
