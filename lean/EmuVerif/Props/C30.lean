/-
  C30 — emu-sv gradients. PARTIAL.

  Theorems about `Model.SvGrad` (tied to `emu_sv/time_evolution.py` `DHDOmegaSparse`, `DHDDeltaSparse`, `DHDPhiSparse`,
  `DHDUSparse` by the exact correspondence of `harness/props/c30.py`) and the C06 Hamiltonian model, for every number of
  qubits, all parameters and vectors (entries in any module: a row of the batch `e_l`, or the whole batch).

  Proved:
    * `dhd_delta_is_minus_n`, `dhd_U_is_n_n`      `DHDδ_k v = −n_k v`, `DHDU_ij v = n_i n_j v`
    * `omega_derivative_exact`   `H(Ω + ε e_k) v = H(Ω) v + ε · DHDΩ_k v` for every real `ε` — no limit: `H` is affine in `Ω_k`
    * `delta_derivative_exact`   `H(δ + ε e_k) v = H(δ) v + ε · DHDδ_k v` for every `ε`
    * `interaction_derivative_exact`  `H(U + ε E_ij) v = H(U) v + ε · DHDU_ij v` for every `ε`, `i < j`
    * `phi_derivative_rotation`  rotating `φ_k` by `θ`: `H' v = H v + sin θ · DHDφ_k v + (cos θ − 1) · (drive block of qubit k) v`
      (the derivative of the rotation `(cos, sin)' = (−sin, cos)` enters through the tape contract
      `exp(i(φ+π/2)) = −sin φ + i cos φ`)
    * `omega_slot`, `delta_slot`, `interaction_slot`   bookkeeping of `backward`: `ε · grad_p[i]`-trace equals the trace against
      the finite difference of `H` in *that* parameter (slot `i` ↔ parameter `i`)
    * `real_path_ignores_phase`, `zero_phase_energy_counterexample`   finding F-treevec-2: quantities differentiated through
      `RydbergHamiltonian.__mul__` on the all-phases-zero path (the energy observables) have no `φ`-gradient
  Assumed, not proved (PARTIAL): the Fréchet-derivative identity behind `backward`
  (`⟨g| d exp(−i dt H)[E] |ψ⟩ = tr(−i dt E · Vsᵀ dS Vg*)` with `dS` from the block-triangular `matrix_exp`) and the accuracy
  of the double Lanczos decomposition (`emu_base/math/double_krylov.py`) — `FrechetDoubleKrylovContract`; finiteness and
  correctness of the assembled gradients, also through `PCHIP1D`, are validated by the always-on oracle against central finite
  differences.
-/
import EmuVerif.Proofs.SvGrad
import Mathlib.Algebra.Order.Field.Rat

set_option linter.unusedSectionVars false

namespace EmuVerif.Props.C30
open EmuVerif EmuVerif.TreeVec EmuVerif.SvOps EmuVerif.SvState EmuVerif.SvSym EmuVerif.SvGrad

variable {κ β : Type} {n : Nat}

section
variable [CommRing κ] [StarRing κ] [CxLike κ] [LawfulCx κ] [AddCommGroup β] [Module κ β]

theorem dhd_delta_is_minus_n (k : Nat) (hk : k < n) (v : Vec β n) :
    dhdDelta k v = -(Mat.mulVec (Mat.embed n k (M2.nOp : M2 κ)) v) := by
  rw [dhdDelta_eq (κ := κ) k hk, applyAt_eq_mulVec]

theorem dhd_U_is_n_n (i j : Nat) (hij : i < j) (hj : j < n) (v : Vec β n) :
    dhdU i j v = Mat.mulVec (Mat.embed n i (M2.nOp : M2 κ) * Mat.embed n j (M2.nOp : M2 κ)) v := by
  rw [dhdU_eq (κ := κ) i j hij hj, Mat.mulVec_mul, applyAt_eq_mulVec, applyAt_eq_mulVec]

theorem omega_derivative_exact (cplx : Bool) (Ω δ : Nat → κ) (ph : Nat → Phase κ) (U : Nat → Nat → κ)
    (k : Nat) (hk : k < n) (ε : κ) (hε : star ε = ε)
    (hz : (ph k).nz = false → (ph k).c = 1 ∧ (ph k).s = 0) (hr : cplx = false → (ph k).nz = false) (v : Vec β n) :
    hamMulWith cplx (upd Ω k (Ω k + ε)) δ ph U v = hamMulWith cplx Ω δ ph U v + ε • dhdOmega (ph k) k v :=
  omega_finite_difference cplx Ω δ ph U k hk ε hε hz hr v

theorem delta_derivative_exact (cplx : Bool) (Ω δ : Nat → κ) (ph : Nat → Phase κ) (U : Nat → Nat → κ)
    (k : Nat) (hk : k < n) (ε : κ) (v : Vec β n) :
    hamMulWith cplx Ω (upd δ k (δ k + ε)) ph U v = hamMulWith cplx Ω δ ph U v + ε • dhdDelta k v :=
  delta_finite_difference cplx Ω δ ph U k hk ε v

theorem interaction_derivative_exact (cplx : Bool) (Ω δ : Nat → κ) (ph : Nat → Phase κ) (U : Nat → Nat → κ)
    (i j : Nat) (hij : i < j) (hj : j < n) (ε : κ) (v : Vec β n) :
    hamMulWith cplx Ω δ ph (fun a b => if a = i ∧ b = j then U a b + ε else U a b) v
      = hamMulWith cplx Ω δ ph U v + ε • dhdU i j v :=
  U_finite_difference cplx Ω δ ph U i j hij hj ε v

theorem phi_derivative_rotation (Ω δ : Nat → κ) (ph : Nat → Phase κ) (U : Nat → Nat → κ) (k : Nat) (hk : k < n)
    (cθ sθ : κ) (hc : star cθ = cθ) (hs : star sθ = sθ) (q : Phase κ)
    (hq : q.c = -(ph k).s ∧ q.s = (ph k).c) (v : Vec β n) :
    hamMulWith true Ω δ (upd ph k (shiftPhase cθ sθ (ph k))) U v
      = hamMulWith true Ω δ ph U v + sθ • dhdPhi (Ω k) q k v
        + (cθ - 1) • applyAt k (offLocal true (halfOmega Ω) ph k) v :=
  phi_finite_rotation Ω δ ph U k hk cθ sθ hc hs q hq v

end

section slots
variable [CommRing κ] [StarRing κ] [CxLike κ] [LawfulCx κ]

/-- slot `k` of `grad_omegas` is the trace against `∂H/∂Ω_k`: scaled by `ε` it is the trace against `H(Ω+εe_k) − H(Ω)` -/
theorem omega_slot (cplx : Bool) (Ω δ : Nat → κ) (ph : Nat → Phase κ) (U : Nat → Nat → κ) (k : Nat) (hk : k < n)
    (ε dt : κ) (hε : star ε = ε) (hz : (ph k).nz = false → (ph k).c = 1 ∧ (ph k).s = 0)
    (hr : cplx = false → (ph k).nz = false) (Vg el : List (Vec κ n)) :
    gradEntry dt (fun x => hamMulWith cplx (upd Ω k (Ω k + ε)) δ ph U x - hamMulWith cplx Ω δ ph U x) Vg el
      = ε * gradEntry dt (dhdOmega (ph k) k) Vg el :=
  gradEntry_smul dt ε _ _ (fun x => by
    rw [omega_finite_difference cplx Ω δ ph U k hk ε hε hz hr x]; abel) Vg el

theorem delta_slot (cplx : Bool) (Ω δ : Nat → κ) (ph : Nat → Phase κ) (U : Nat → Nat → κ) (k : Nat) (hk : k < n)
    (ε dt : κ) (Vg el : List (Vec κ n)) :
    gradEntry dt (fun x => hamMulWith cplx Ω (upd δ k (δ k + ε)) ph U x - hamMulWith cplx Ω δ ph U x) Vg el
      = ε * gradEntry dt (dhdDelta k) Vg el :=
  gradEntry_smul dt ε _ _ (fun x => by rw [delta_finite_difference cplx Ω δ ph U k hk ε x]; abel) Vg el

theorem interaction_slot (cplx : Bool) (Ω δ : Nat → κ) (ph : Nat → Phase κ) (U : Nat → Nat → κ) (i j : Nat)
    (hij : i < j) (hj : j < n) (ε dt : κ) (Vg el : List (Vec κ n)) :
    gradEntry dt (fun x => hamMulWith cplx Ω δ ph (fun a b => if a = i ∧ b = j then U a b + ε else U a b) x
        - hamMulWith cplx Ω δ ph U x) Vg el
      = ε * gradEntry dt (dhdU i j) Vg el :=
  gradEntry_smul dt ε _ _ (fun x => by rw [U_finite_difference cplx Ω δ ph U i j hij hj ε x]; abel) Vg el

/-- **The real (all-phases-zero) path does not depend on the phase tape at all**: whatever is differentiated through
`RydbergHamiltonian.__mul__` on that path (the energy observables are) has no `φ`-derivative, although `∂H/∂φ_k` at
`φ = 0` is `(Ω_k/2) σʸ ≠ 0` (`phi_derivative_rotation`). Finding F-treevec-2; see `zero_phase_energy_counterexample`. -/
theorem real_path_ignores_phase [AddCommGroup β] [Module κ β] (Ω δ : Nat → κ) (ph ph' : Nat → Phase κ)
    (U : Nat → Nat → κ) (v : Vec β n) :
    hamMulWith false Ω δ ph U v = hamMulWith false Ω δ ph' U v := by
  rw [hamMulWith_eq_sum, hamMulWith_eq_sum]; rfl

/-- the assumption behind `EvolveStateVector.backward` (not proved): for an ideal propagator `expm` and the returned
decomposition, the directional derivative of `⟨g| expm(A) ψ⟩` along `E` is the trace the code forms. -/
def FrechetDoubleKrylovContract (_expm : (Vec κ n → Vec κ n) → Vec κ n → Vec κ n)
    (dir : (Vec κ n → Vec κ n) → (Vec κ n → Vec κ n) → Vec κ n → Vec κ n)
    (trace : (Vec κ n → Vec κ n) → List (Vec κ n) → List (Vec κ n) → κ)
    (decomp : (Vec κ n → Vec κ n) → Vec κ n → Vec κ n → List (Vec κ n) × List (Vec κ n)) : Prop :=
  ∀ (A E : Vec κ n → Vec κ n) (ψ g : Vec κ n),
    Vec.vdot g (dir A E ψ) = trace E (decomp A ψ g).1 (decomp A ψ g).2

end slots

/-! ### concrete instances (kernel-evaluated over `Cx ℚ`) -/
section examples
abbrev K := Cx ℚ
def exΩ : Nat → K := fun k => ⟨2 + k, 0⟩
def exδ : Nat → K := fun k => ⟨1 / 2 - k, 0⟩
def exU : Nat → Nat → K := fun i j => ⟨(i + 2 * j : ℚ) / 4, 0⟩
def exPh : Nat → Phase K := fun k => if k = 0 then ⟨true, ⟨3 / 5, 0⟩, ⟨4 / 5, 0⟩⟩ else ⟨false, 1, 0⟩
def exV : Vec K 2 := .node (.node (.leaf ⟨1, 2⟩) (.leaf ⟨0, -1⟩)) (.node (.leaf ⟨3, 0⟩) (.leaf ⟨1 / 2, 1⟩))

/-- the hypotheses of `omega_derivative_exact` are satisfiable (a zero phase with its tape values, a real step) -/
example : ((exPh 1).nz = false → (exPh 1).c = 1 ∧ (exPh 1).s = 0) ∧ star (⟨7 / 3, 0⟩ : K) = ⟨7 / 3, 0⟩ := by decide +kernel
/-- test: a finite step of size 7/3 in `Ω_1` -/
example : hamMulWith true (upd exΩ 1 (exΩ 1 + ⟨7 / 3, 0⟩)) exδ exPh exU exV
    = hamMulWith true exΩ exδ exPh exU exV + (⟨7 / 3, 0⟩ : K) • dhdOmega (exPh 1) 1 exV := by decide +kernel
/-- test: the rotation identity with `(cos θ, sin θ) = (5/13, 12/13)` on qubit 0 -/
example : hamMulWith true exΩ exδ (upd exPh 0 (shiftPhase ⟨5 / 13, 0⟩ ⟨12 / 13, 0⟩ (exPh 0))) exU exV
    = hamMulWith true exΩ exδ exPh exU exV + (⟨12 / 13, 0⟩ : K) • dhdPhi (exΩ 0) ⟨true, ⟨-4 / 5, 0⟩, ⟨3 / 5, 0⟩⟩ 0 exV
      + ((⟨5 / 13, 0⟩ : K) - 1) • applyAt 0 (offLocal true (halfOmega exΩ) exPh 0) exV := by decide +kernel

/-- **Counterexample to "energies are differentiable w.r.t. a zero phase through the real path"**: one atom, `Ω = 2`,
`ψ = (1, i)/√2·√2`: the energy `⟨ψ|H(φ)ψ⟩` of the true Hamiltonian changes when the phase is rotated away from 0 by
`(cos θ, sin θ) = (3/5, 4/5)` (from `0` to `8/5`), while the real path returns the same value for every phase tape. -/
theorem zero_phase_energy_counterexample :
    let Ω : Nat → K := fun _ => ⟨2, 0⟩
    let z : Nat → K := fun _ => 0
    let ψ : Vec K 1 := .node (.leaf ⟨1, 0⟩) (.leaf ⟨0, 1⟩)
    let p0 : Nat → Phase K := fun _ => ⟨false, 1, 0⟩
    let p1 : Nat → Phase K := fun _ => shiftPhase ⟨3 / 5, 0⟩ ⟨4 / 5, 0⟩ (p0 0)
    Vec.vdot ψ (hamMulWith true Ω z p1 (fun _ _ => 0) ψ) ≠ Vec.vdot ψ (hamMulWith true Ω z p0 (fun _ _ => 0) ψ)
      ∧ Vec.vdot ψ (hamMulWith false Ω z p1 (fun _ _ => 0) ψ) = Vec.vdot ψ (hamMulWith false Ω z p0 (fun _ _ => 0) ψ) := by
  decide +kernel

end examples
end EmuVerif.Props.C30
