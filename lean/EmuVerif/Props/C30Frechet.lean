/-
  C30 (second part) — the Fréchet-derivative / double-Krylov identity behind `EvolveStateVector.backward`
  (`emu_sv/time_evolution.py`) and `double_krylov` (`emu_base/math/double_krylov.py`).  Replaces the assumption
  `Props.C30.FrechetDoubleKrylovContract`.

  Notation: `D_k(A,E,B)` = `Frechet.dpow A E B k` (`D_0 = 0`, `D_{k+1} = A D_k + E B^k`), `expBlock A E B` = top-right block
  of `exp [[A,E],[0,B]]` (Mathlib's `NormedSpace.exp` on complex matrices).

  Proved (every size, every matrix):
   1. `block_triangular_pow`            `[[A,E],[0,B]]^k = [[A^k, Σ_{j<k} A^j E B^{k-1-j}],[0,B^k]]`, entries in any semiring
      `pow_first_order`                 `(a + t•e)^k = a^k + t•D_k(a,e,a) + t²•R_k(t)` in any algebra (non-commutative), explicit `R_k`
      `pow_dual_number`                 `(a + εe)^k = a^k + ε D_k(a,e,a)` over the dual numbers of any semiring
   2. `exp_block_triangular`            `exp [[A,E],[0,B]] = [[exp A, L],[0, exp B]]`, `L = Σ_k D_k/k!` (HasSum)
      `frechet_first_order_coefficients`  for every `k` the `t¹`-coefficient of `(A + t•E)^k/k!` is the `k`-th term of the series of
                                        `L = expBlock A E A` (series-level Fréchet derivative)
      `exp_add_smul_hasDerivAt`         `d/dt exp(A + t•E)|_{t=0} = expBlock A E A`: the NON-COMMUTING derivative as a `HasDerivAt` (operator
                                        norm), from `exp(A+tE) = exp A + t L + t² S(t)`, `‖S(t)‖ ≤ exp(3(‖A‖+‖E‖))` for `|t| ≤ 1`
                                        (`Proofs/FrechetDeriv.lean`, any complete normed ℂ-algebra; Mathlib has the commuting case only)
      `expectation_hasDerivAt(_real)`   `d/dt ⟨g| exp(A + tE) |ψ⟩|_{t=0} = ⟨g| expBlock A E A |ψ⟩`, complex and real parameter
   3. `double_krylov_identity`          in the code's convention (rows of `Vs`, `Vg` = Lanczos vectors, `dU = Vsᵀ @ dS @ Vg*`): for an
                                        anti-Hermitian `A` (`op = −i·dt·H`), exact Lanczos relations and orthonormal `Vg`,
                                        `expBlock A |state⟩⟨grad| A = Vsᵀ · expBlock Ts (‖s‖‖g‖ e₀e₀ᵀ) Tg · Vg*` — `Tg` enters
                                        *unconjugated* because `A` is anti-Hermitian (`left_relation_of_skew`)
      `backward_parameter_gradient`     `⟨g| expBlock A (−i dt ∂H) A |ψ⟩ = −i dt · tr(Vg* · (∂H · (Vsᵀ dS)))` — the number
                                        `-1j*dt*tensordot(Vg.conj(), dH @ e_l)`, `e_l = dS.mT @ Vs`, of `backward`
      `backward_state_gradient`         `⟨g| exp(A) x⟩ = ⟨exp(−A) g| x⟩` for anti-Hermitian `A` (`grad_state_in = exp(+i dt H) g`)
      `backward_gradient_is_derivative` all of it: `d/dt ⟨g| exp(−i·dt·(H + t·∂H)) |ψ⟩|_{t=0}` (real `t`) `= −i dt tr(Vg* ∂H Vsᵀ dS)`
   4. `big_mat_is_block_triangular`, `dS_is_top_right_block`, `model_dS_is_expBlock`, `lanczos_raises_only_recursion`,
      `lanczos_returns_square_T`, `lanczos_iteration_is_krylov_exp_iteration`   bookkeeping of `Model.DoubleKrylov` (tied to the code by the tape correspondence)
  Assumed (hypotheses of 3): the two Lanczos relations hold exactly (both runs end in a happy breakdown) — the truncation
  error of an accepted error estimate is measured by the dense oracle of `harness/props/c30_frechet.py`; `torch.matrix_exp`
  is an oracle (`MexpContract`).
-/
import EmuVerif.Proofs.FrechetDeriv
import EmuVerif.Proofs.DoubleKrylov

set_option linter.unusedSectionVars false
set_option linter.unusedVariables false

namespace EmuVerif.Props.C30Frechet
open EmuVerif EmuVerif.Frechet Matrix NormedSpace
open scoped Nat

/-! ## 1. powers -/
section powers

theorem block_triangular_pow {R : Type*} [Semiring R] {n m : Type*} [Fintype n] [Fintype m] [DecidableEq n] [DecidableEq m]
    (A : Matrix n n R) (E : Matrix n m R) (B : Matrix m m R) (k : ℕ) :
    (fromBlocks A E 0 B) ^ k = fromBlocks (A ^ k) (∑ j ∈ Finset.range k, A ^ j * E * B ^ (k - 1 - j)) 0 (B ^ k) := by
  rw [fromBlocks_pow, dpow_eq_sum]

/-- the recursion the closed form satisfies -/
theorem block_triangular_pow_rec {R : Type*} [Semiring R] {n m : Type*} [Fintype n] [Fintype m] [DecidableEq n]
    [DecidableEq m] (A : Matrix n n R) (E : Matrix n m R) (B : Matrix m m R) (k : ℕ) :
    (fromBlocks A E 0 B) ^ k = fromBlocks (A ^ k) (dpow A E B k) 0 (B ^ k)
      ∧ dpow A E B 0 = 0 ∧ dpow A E B (k + 1) = A * dpow A E B k + E * B ^ k
      ∧ dpow A E B (k + 1) = A ^ k * E + dpow A E B k * B :=
  ⟨fromBlocks_pow A E B k, rfl, rfl, dpow_succ' A E B k⟩

/-- **`D_k(a,e,a)` is the derivative of `x ↦ x^k` at `a` along `e`**, any (non-commutative) algebra, explicit remainder -/
theorem pow_first_order {K S : Type*} [CommSemiring K] [Semiring S] [Algebra K S] (t : K) (a e : S) (k : ℕ) :
    (a + t • e) ^ k = a ^ k + t • (∑ j ∈ Finset.range k, a ^ j * e * a ^ (k - 1 - j)) + (t * t) • rrem t a e k := by
  rw [add_smul_pow, rdpow_eq_sum]

theorem pow_dual_number {S : Type*} [Semiring S] (a e : S) (k : ℕ) :
    ((TrivSqZeroExt.inl a + TrivSqZeroExt.inr e : TrivSqZeroExt S S)) ^ k
      = TrivSqZeroExt.inl (a ^ k) + TrivSqZeroExt.inr (∑ j ∈ Finset.range k, a ^ j * e * a ^ (k - 1 - j)) := by
  rw [dual_pow, rdpow_eq_sum]

/-- non-vacuity / test: non-commuting 2×2 integer matrices, `k = 3` -/
example : (fromBlocks !![1, 2; 0, 1] !![0, 1; 1, 0] 0 !![2, 0; 1, 1] : Matrix (Fin 2 ⊕ Fin 2) (Fin 2 ⊕ Fin 2) ℤ) ^ 3
    = fromBlocks (!![1, 2; 0, 1] ^ 3) (!![12, 3; 7, 0]) 0 (!![2, 0; 1, 1] ^ 3) := by
  rw [block_triangular_pow]
  congr 1
  decide +kernel

/-- the two matrices of the example do not commute (the statement is about the non-commutative case) -/
example : (!![1, 2; 0, 1] : Matrix (Fin 2) (Fin 2) ℤ) * !![0, 1; 1, 0] ≠ !![0, 1; 1, 0] * !![1, 2; 0, 1] := by decide +kernel

end powers

/-! ## 2. exponential -/
section exponential
variable {n m : Type*} [Fintype n] [Fintype m] [DecidableEq n] [DecidableEq m]

theorem exp_block_triangular (A : Matrix n n ℂ) (E : Matrix n m ℂ) (B : Matrix m m ℂ) :
    exp (fromBlocks A E 0 B) = fromBlocks (exp A) (expBlock A E B) 0 (exp B)
      ∧ HasSum (fun k : ℕ => ((k ! : ℂ)⁻¹) • ∑ j ∈ Finset.range k, A ^ j * E * B ^ (k - 1 - j)) (expBlock A E B) := by
  refine ⟨exp_fromBlocks A E B, ?_⟩
  simpa only [dpow_eq_sum] using hasSum_expBlock A E B

/-- **series-level Fréchet derivative**: for every `k`, `(A + t•E)^k / k!` is `A^k/k! + t • (k-th term of L) + t² • (…)` with
`L = expBlock A E A = Σ_k (that term)` -/
theorem frechet_first_order_coefficients (A E : Matrix n n ℂ) :
    (∀ (t : ℂ) (k : ℕ), ((k ! : ℂ)⁻¹) • (A + t • E) ^ k
        = ((k ! : ℂ)⁻¹) • A ^ k + t • (((k ! : ℂ)⁻¹) • dpow A E A k) + (t * t) • (((k ! : ℂ)⁻¹) • rrem t A E k))
      ∧ HasSum (fun k : ℕ => ((k ! : ℂ)⁻¹) • dpow A E A k) (expBlock A E A)
      ∧ HasSum (fun k : ℕ => ((k ! : ℂ)⁻¹) • A ^ k) (exp A) := by
  refine ⟨fun t k => ?_, hasSum_expBlock A E A, hasSum_exp A⟩
  rw [add_smul_pow, dpow_eq_rdpow, smul_add, smul_add, smul_comm _ t, smul_comm _ (t * t)]

set_option backward.isDefEq.respectTransparency false in
/-- **the Fréchet derivative of the matrix exponential in a non-commuting direction** -/
theorem exp_add_smul_hasDerivAt {n : Type*} [Fintype n] [DecidableEq n] (A E : Matrix n n ℂ) :
    open scoped Matrix.Norms.Operator in HasDerivAt (fun t : ℂ => exp (A + t • E)) (expBlock A E A) 0 :=
  hasDerivAt_exp_add_smul_matrix A E

/-- second-order expansion with an explicit bound, any complete normed `ℂ`-algebra -/
theorem exp_add_smul_second_order {𝔸 : Type*} [NormedRing 𝔸] [NormedAlgebra ℂ 𝔸] [CompleteSpace 𝔸] (a e : 𝔸) (t : ℂ)
    (ht : ‖t‖ ≤ 1) :
    exp (a + t • e) = exp a + t • frechetL a e + (t * t) • frechetS t a e
      ∧ ‖frechetS t a e‖ ≤ Real.exp (3 * (‖a‖ + ‖e‖))
      ∧ HasSum (fun k : ℕ => ((k ! : ℂ)⁻¹) • ∑ j ∈ Finset.range k, a ^ j * e * a ^ (k - 1 - j)) (frechetL a e) := by
  obtain ⟨h1, h2⟩ := exp_add_smul_expansion a e t ht
  refine ⟨h1, h2, ?_⟩
  simpa only [rdpow_eq_sum] using hasSum_frechetL a e

theorem expectation_hasDerivAt {n : Type*} [Fintype n] [DecidableEq n] (A E : Matrix n n ℂ) (g ψ : n → ℂ) :
    HasDerivAt (fun t : ℂ => star g ⬝ᵥ (exp (A + t • E) *ᵥ ψ)) (star g ⬝ᵥ (expBlock A E A *ᵥ ψ)) 0 :=
  hasDerivAt_sandwich_exp A E g ψ

theorem expectation_hasDerivAt_real {n : Type*} [Fintype n] [DecidableEq n] (A E : Matrix n n ℂ) (g ψ : n → ℂ) :
    HasDerivAt (fun t : ℝ => star g ⬝ᵥ (exp (A + (t : ℂ) • E) *ᵥ ψ)) (star g ⬝ᵥ (expBlock A E A *ᵥ ψ)) 0 :=
  hasDerivAt_sandwich_exp_real A E g ψ

end exponential

/-! ## 3. the Krylov compression, in the code's convention -/
section krylov
variable {N ps pg : Type*} [Fintype N] [Fintype ps] [Fintype pg] [DecidableEq N] [DecidableEq ps] [DecidableEq pg]

/-- why `block_diag(Ts, Tg)` uses `Tg` as it is: `op` is anti-Hermitian -/
theorem left_relation_of_skew {A : Matrix N N ℂ} (hA : Aᴴ = -A) (Vg : Matrix pg N ℂ) (Tg : Matrix pg pg ℂ)
    (hVg : Vg.map star * Vgᵀ = 1) (hTg : A * Vgᵀ = Vgᵀ * Tg) : Vg.map star * A = Tg * Vg.map star := by
  have h : (Vgᵀ)ᴴ = Vg.map star := by ext i j; simp [conjTranspose_apply]
  have := left_intertwine_of_skew hA (V := Vgᵀ) (T := Tg) (by rw [h]; exact hVg) hTg
  rwa [h] at this

/-- **`double_krylov`'s claim `dU(op, |state⟩⟨grad|) = Vsᵗ @ dS @ Vg*`.**  `Vs`, `Vg` have the Lanczos vectors as ROWS
(`torch.stack`), `Ts[k,j] = ⟨q_k, op q_j⟩`; `state = ns · Vs[i0]`, `grad = ng · Vg[j0]` (`i0 = j0 = 0` in the code),
`dS = expBlock Ts (ns·ng at (i0,j0)) Tg` is `matrix_exp(big_mat)[:size_s, size_s:]`. -/
theorem double_krylov_identity (A : Matrix N N ℂ) (hA : Aᴴ = -A) (Vs : Matrix ps N ℂ) (Vg : Matrix pg N ℂ)
    (Ts : Matrix ps ps ℂ) (Tg : Matrix pg pg ℂ) (i0 : ps) (j0 : pg)
    (hVg : Vg.map star * Vgᵀ = 1) (hTs : A * Vsᵀ = Vsᵀ * Ts) (hTg : A * Vgᵀ = Vgᵀ * Tg)
    (state grad : N → ℂ) (ns ng : ℝ) (hs : state = fun x => (ns : ℂ) * Vs i0 x) (hg : grad = fun x => (ng : ℂ) * Vg j0 x) :
    expBlock A (vecMulVec state (star grad)) A
      = Vsᵀ * expBlock Ts (single i0 j0 ((ns * ng : ℝ) : ℂ)) Tg * Vg.map star := by
  have h : (Vgᵀ)ᴴ = Vg.map star := by ext i j; simp [conjTranspose_apply]
  have hE : vecMulVec state (star grad) = Vsᵀ * single i0 j0 ((ns * ng : ℝ) : ℂ) * Vg.map star := by
    rw [hs, hg, ← h]
    exact vecMulVec_eq_mul_single_mul Vsᵀ Vgᵀ i0 j0 ns ng
  rw [hE]
  exact expBlock_intertwine hTs (left_relation_of_skew hA Vg Tg hVg hTg) _

/-- the same with a Hermitian `op` (not the emulator's case; shows which hypothesis is used) -/
theorem double_krylov_identity_hermitian (A : Matrix N N ℂ) (hA : Aᴴ = A) (Vs : Matrix ps N ℂ) (Vg : Matrix pg N ℂ)
    (Ts : Matrix ps ps ℂ) (Tg : Matrix pg pg ℂ) (i0 : ps) (j0 : pg)
    (hVg : Vg.map star * Vgᵀ = 1) (hTs : A * Vsᵀ = Vsᵀ * Ts) (hTg : A * Vgᵀ = Vgᵀ * Tg)
    (state grad : N → ℂ) (ns ng : ℝ) (hs : state = fun x => (ns : ℂ) * Vs i0 x) (hg : grad = fun x => (ng : ℂ) * Vg j0 x) :
    expBlock A (vecMulVec state (star grad)) A
      = Vsᵀ * expBlock Ts (single i0 j0 ((ns * ng : ℝ) : ℂ)) Tg * Vg.map star := by
  have h : (Vgᵀ)ᴴ = Vg.map star := by ext i j; simp [conjTranspose_apply]
  have hE : vecMulVec state (star grad) = Vsᵀ * single i0 j0 ((ns * ng : ℝ) : ℂ) * Vg.map star := by
    rw [hs, hg, ← h]
    exact vecMulVec_eq_mul_single_mul Vsᵀ Vgᵀ i0 j0 ns ng
  have hl := left_intertwine_of_hermitian hA (V := Vgᵀ) (T := Tg) (by rw [h]; exact hVg) hTg
  rw [h] at hl
  rw [hE]
  exact expBlock_intertwine hTs hl _

/-- with orthonormal rows the factor `ns` is the norm of `state`: `⟨state|state⟩ = ns²` -/
theorem norm_sq_of_row (Vs : Matrix ps N ℂ) (i0 : ps) (hVs : Vs.map star * Vsᵀ = 1) (ns : ℝ) :
    star (fun x => (ns : ℂ) * Vs i0 x) ⬝ᵥ (fun x => (ns : ℂ) * Vs i0 x) = ((ns ^ 2 : ℝ) : ℂ) := by
  have h := congrFun (congrFun hVs i0) i0
  simp only [mul_apply, map_apply, transpose_apply, one_apply_eq] at h
  simp only [dotProduct, Pi.star_apply, star_mul', Complex.star_def, Complex.conj_ofReal]
  have : ∀ x, (ns : ℂ) * (starRingEnd ℂ) (Vs i0 x) * ((ns : ℂ) * Vs i0 x)
      = (ns : ℂ) ^ 2 * (star (Vs i0 x) * Vs i0 x) := fun x => by simp only [Complex.star_def]; ring
  simp only [this, ← Finset.mul_sum, h, mul_one]
  push_cast; ring

/-- **the number `backward` puts into `grad_p[i]` (before `.real`)**: with `E = −i·dt·∂H/∂p` the directional derivative of
`⟨g|exp(A)|ψ⟩` (`Props.C30Frechet.exp_add_smul_hasDerivAt`) is `⟨g| expBlock A E A |ψ⟩`, and it equals
`-1j*dt * tensordot(Vg.conj(), dH @ e_l)` with `e_l = dS.mT @ Vs` (rows of `e_l` = columns of `Vsᵀ dS`). -/
theorem backward_parameter_gradient (A : Matrix N N ℂ) (hA : Aᴴ = -A) (Vs : Matrix ps N ℂ) (Vg : Matrix pg N ℂ)
    (Ts : Matrix ps ps ℂ) (Tg : Matrix pg pg ℂ) (i0 : ps) (j0 : pg)
    (hVg : Vg.map star * Vgᵀ = 1) (hTs : A * Vsᵀ = Vsᵀ * Ts) (hTg : A * Vgᵀ = Vgᵀ * Tg)
    (ψ g : N → ℂ) (ns ng : ℝ) (hs : ψ = fun x => (ns : ℂ) * Vs i0 x) (hg : g = fun x => (ng : ℂ) * Vg j0 x)
    (dt : ℂ) (dH : Matrix N N ℂ) :
    star g ⬝ᵥ (expBlock A ((-(Complex.I * dt)) • dH) A *ᵥ ψ)
      = -(Complex.I * dt) * trace (Vg.map star * (dH * (Vsᵀ * expBlock Ts (single i0 j0 ((ns * ng : ℝ) : ℂ)) Tg))) := by
  rw [star_dotProduct_mulVec, ← trace_mul_comm, trace_mul_expBlock,
    double_krylov_identity A hA Vs Vg Ts Tg i0 j0 hVg hTs hTg ψ g ns ng hs hg, Matrix.mul_smul, trace_smul, smul_eq_mul,
    trace_mul_comm]
  congr 1
  rw [← Matrix.mul_assoc, trace_mul_comm]

/-- **the contract of `backward`, closed**: for `A = −i·dt·H` anti-Hermitian, a real parameter entering `H` affinely with
derivative `∂H` (`Ω_k`, `δ_k`, `U_ij`: `Props.C30.*_derivative_exact`; for `φ_k` the first-order term is `DHDPhi`), exact Lanczos
relations: the derivative of `t ↦ ⟨g| exp(−i·dt·(H + t·∂H)) |ψ⟩` at `0` is the number the code computes (its real part is
stored). -/
theorem backward_gradient_is_derivative (H dH : Matrix N N ℂ) (dt : ℝ) (hH : Hᴴ = H) (Vs : Matrix ps N ℂ)
    (Vg : Matrix pg N ℂ) (Ts : Matrix ps ps ℂ) (Tg : Matrix pg pg ℂ) (i0 : ps) (j0 : pg)
    (hVg : Vg.map star * Vgᵀ = 1)
    (hTs : ((-(Complex.I * dt)) • H) * Vsᵀ = Vsᵀ * Ts) (hTg : ((-(Complex.I * dt)) • H) * Vgᵀ = Vgᵀ * Tg)
    (ψ g : N → ℂ) (ns ng : ℝ) (hs : ψ = fun x => (ns : ℂ) * Vs i0 x) (hg : g = fun x => (ng : ℂ) * Vg j0 x) :
    HasDerivAt (fun t : ℝ => star g ⬝ᵥ (exp ((-(Complex.I * dt)) • (H + (t : ℂ) • dH)) *ᵥ ψ))
      (-(Complex.I * dt) * trace (Vg.map star * (dH * (Vsᵀ * expBlock Ts (single i0 j0 ((ns * ng : ℝ) : ℂ)) Tg)))) 0 := by
  have hA : ((-(Complex.I * dt)) • H)ᴴ = -((-(Complex.I * dt)) • H) := by
    rw [conjTranspose_smul, hH, ← neg_smul]
    congr 1
    simp [Complex.conj_ofReal]
  have h := expectation_hasDerivAt_real ((-(Complex.I * dt)) • H) ((-(Complex.I * dt)) • dH) g ψ
  rw [backward_parameter_gradient _ hA Vs Vg Ts Tg i0 j0 hVg hTs hTg ψ g ns ng hs hg] at h
  refine h.congr_of_eventuallyEq (Filter.Eventually.of_forall fun t => ?_)
  simp only [smul_add, smul_comm ((t : ℂ)) _ dH]

/-- **the state gradient**: `⟨g| exp(A) x⟩ = ⟨exp(−A) g| x⟩` for anti-Hermitian `A` — `grad_state_in = exp(+i·dt·H) g` -/
theorem backward_state_gradient (A : Matrix N N ℂ) (hA : Aᴴ = -A) (g x : N → ℂ) :
    star g ⬝ᵥ (exp A *ᵥ x) = star (exp (-A) *ᵥ g) ⬝ᵥ x := by
  rw [← hA, Matrix.exp_conjTranspose, star_mulVec, conjTranspose_conjTranspose, dotProduct_mulVec]

end krylov

/-! ## 4. the bookkeeping model -/
section model
open EmuVerif.Krylov EmuVerif.DoubleKrylov

/-- contract of the `matrix_exp` oracle on `big_mat` (validated numerically by the harness against scipy): it returns an
array of the same shape whose reading as a matrix is the exponential -/
def MexpContract (a b : Nat) (mexpBig : Mat ℂ → Mat ℂ) (M : Mat ℂ) : Prop :=
  Shape (a + b) (mexpBig M) ∧ blk a b (mexpBig M) = exp (blk a b M)

theorem big_mat_is_block_triangular {a b : Nat} {Ts Tg : Mat ℂ} (hA : Shape a Ts) (hB : Shape b Tg) (ha : 0 < a)
    (hb : 0 < b) (c : ℂ) :
    blk a b (bigMat Ts Tg a c) = fromBlocks (sq a Ts) (single ⟨0, ha⟩ ⟨0, hb⟩ c) 0 (sq b Tg) :=
  blk_bigMat hA hB ha hb c

theorem dS_is_top_right_block {a b : Nat} {X : Mat ℂ} (hX : Shape (a + b) X) :
    rect a b (sliceTR X a a) = (blk a b X).toBlocks₁₂ := sliceTR_eq_toBlocks₁₂ hX

theorem lanczos_raises_only_recursion {V : Type} (O : VecOps ℂ ℝ V) (mexp : Nat → Mat ℂ → Mat ℂ) (tol : ℝ) (maxDim : Nat)
    (v : V) (e : Err) (h : lanczos O mexp tol maxDim v = .error e) : e = Err.recursion := by
  have := lanczos_spec O mexp tol maxDim v
  rw [h] at this
  exact this

theorem lanczos_returns_square_T {V : Type} (O : VecOps ℂ ℝ V) (mexp : Nat → Mat ℂ → Mat ℂ) (tol : ℝ) (maxDim : Nat)
    (v : V) (r : LanResult ℂ V) (h : lanczos O mexp tol maxDim v = .ok r) :
    Shape r.qs.length r.T ∧ 0 < r.qs.length ∧ r.qs.length ≤ maxDim + 1 := by
  have hs := lanczos_spec O mexp tol maxDim v
  rw [h] at hs
  refine ⟨lanczos_shape O mexp tol maxDim v r h, ?_, ?_⟩ <;> · rw [hs.1]; split_ifs <;> omega

/-- `lanczos` is "a copy of the code in krylov_exp" (its docstring): one iteration of the model is one iteration of the C07 model
of `krylov_exp_impl` with `is_hermitian=True` and both tolerances equal — so C07's control-flow theorems apply to it -/
theorem lanczos_iteration_is_krylov_exp_iteration {V : Type} (O : VecOps ℂ ℝ V) (mexp : Nat → Mat ℂ → Mat ℂ) (tol : ℝ)
    (maxDim : Nat) (n0 : ℝ) (j : Nat) (st : ExpSt ℂ ℝ V) :
    IterAgree (lanIter O mexp tol maxDim j st) (expIter O mexp (lanCfg tol maxDim) n0 j st) :=
  lanIter_eq_expIter O mexp tol maxDim n0 j st

/-- **what the model of `double_krylov` returns**: sizes are the lengths of the two bases, and — given the oracle contract —
`dS` is `expBlock Ts (‖state‖·‖grad‖ at (0,0)) Tg`, the matrix of `double_krylov_identity` -/
theorem model_dS_is_expBlock {V : Type} (O : VecOps ℂ ℝ V) (mexpS mexpG : Nat → Mat ℂ → Mat ℂ) (mexpBig : Mat ℂ → Mat ℂ)
    (tol : ℝ) (maxDim : Nat) (state grad : V) (r : DKResult ℂ V)
    (h : doubleKrylov O mexpS mexpG mexpBig tol maxDim state grad = .ok r)
    (hc : MexpContract r.sizeS r.sizeG mexpBig r.big) :
    r.sizeS = r.Vs.length ∧ r.sizeG = r.Vg.length ∧ ∃ (hs : 0 < r.sizeS) (hg : 0 < r.sizeG),
      rect r.sizeS r.sizeG r.dS
        = expBlock (sq r.sizeS r.Ts) (single ⟨0, hs⟩ ⟨0, hg⟩ (O.ofReal (O.norm state * O.norm grad))) (sq r.sizeG r.Tg) := by
  unfold doubleKrylov at h
  cases h1 : lanczos O mexpS tol maxDim state with
  | error e => rw [h1] at h; simp at h
  | ok rs =>
    cases h2 : lanczos O mexpG tol maxDim grad with
    | error e => rw [h1, h2] at h; simp at h
    | ok rg =>
      rw [h1, h2] at h
      simp only [Except.ok.injEq] at h
      subst h
      obtain ⟨hS, hs0, _⟩ := lanczos_returns_square_T O mexpS tol maxDim state rs h1
      obtain ⟨hG, hg0, _⟩ := lanczos_returns_square_T O mexpG tol maxDim grad rg h2
      refine ⟨rfl, rfl, hs0, hg0, ?_⟩
      simp only at hc ⊢
      rw [dS_is_top_right_block hc.1, hc.2, big_mat_is_block_triangular hS hG hs0 hg0]
      rfl

end model

/-! ## non-vacuity of the hypotheses of `double_krylov_identity` -/
section examples

/-- every anti-Hermitian `A`, the full basis `Vs = Vg = 1` (`Ts = Tg = A`), `state`, `grad` multiples of basis vectors -/
example (A : Matrix (Fin 3) (Fin 3) ℂ) (hA : Aᴴ = -A) :
    expBlock A (vecMulVec (fun x => ((2 : ℝ) : ℂ) * (1 : Matrix (Fin 3) (Fin 3) ℂ) 0 x)
        (star fun x => ((3 : ℝ) : ℂ) * (1 : Matrix (Fin 3) (Fin 3) ℂ) 1 x)) A
      = (1 : Matrix (Fin 3) (Fin 3) ℂ)ᵀ * expBlock A (single 0 1 (((2 : ℝ) * 3 : ℝ) : ℂ)) A
          * (1 : Matrix (Fin 3) (Fin 3) ℂ).map star :=
  double_krylov_identity A hA 1 1 A A 0 1 (by simp [Matrix.map_one]) (by simp) (by simp) _ _ 2 3 rfl rfl

/-- `backward_gradient_is_derivative` instantiated: any Hermitian 2×2 `H`, any direction, full bases -/
example (H dH : Matrix (Fin 2) (Fin 2) ℂ) (hH : Hᴴ = H) (dt : ℝ) :
    HasDerivAt (fun t : ℝ => star (fun x => ((3 : ℝ) : ℂ) * (1 : Matrix (Fin 2) (Fin 2) ℂ) 1 x)
        ⬝ᵥ (exp ((-(Complex.I * dt)) • (H + (t : ℂ) • dH)) *ᵥ fun x => ((2 : ℝ) : ℂ) * (1 : Matrix (Fin 2) (Fin 2) ℂ) 0 x))
      (-(Complex.I * dt) * trace ((1 : Matrix (Fin 2) (Fin 2) ℂ).map star * (dH * ((1 : Matrix (Fin 2) (Fin 2) ℂ)ᵀ
        * expBlock ((-(Complex.I * dt)) • H) (single 0 1 (((2 : ℝ) * 3 : ℝ) : ℂ)) ((-(Complex.I * dt)) • H))))) 0 :=
  backward_gradient_is_derivative H dH dt hH 1 1 _ _ 0 1 (by simp [Matrix.map_one]) (by simp) (by simp) _ _ 2 3 rfl rfl

/-- a genuinely rectangular instance: `A = diag(i·[[0,1],[1,0]], 2i)` (anti-Hermitian), the invariant plane of the first
two coordinates, `Vs = Vg` = its standard basis (2 × 3), `Ts = Tg = i·[[0,1],[1,0]]` -/
def exA : Matrix (Fin 3) (Fin 3) ℂ := !![0, Complex.I, 0; Complex.I, 0, 0; 0, 0, 2 * Complex.I]
def exV : Matrix (Fin 2) (Fin 3) ℂ := !![1, 0, 0; 0, 1, 0]
def exT : Matrix (Fin 2) (Fin 2) ℂ := !![0, Complex.I; Complex.I, 0]

example : exAᴴ = -exA ∧ exV.map star * exVᵀ = 1 ∧ exA * exVᵀ = exVᵀ * exT := by
  refine ⟨?_, ?_, ?_⟩
  · ext i j; fin_cases i <;> fin_cases j <;> simp [exA, conjTranspose_apply]
  · ext i j; fin_cases i <;> fin_cases j <;> simp [exV, Matrix.mul_apply, Fin.sum_univ_three]
  · ext i j; fin_cases i <;> fin_cases j <;>
      simp [exA, exV, exT, Matrix.mul_apply, Fin.sum_univ_three, Fin.sum_univ_two]

end examples
end EmuVerif.Props.C30Frechet
