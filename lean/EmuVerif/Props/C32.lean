/-
  C32 — Qubit-order optimisation returns a valid, no-worse permutation; the permutation
  helpers are mutually consistent.

  Statement (properties.jsonl): for any symmetric interaction matrix, the optimiser returns a
  permutation of all atoms whose weighted bandwidth is no larger than the original order's.
  Inverting undoes permuting, and permuting strings, lists, vectors and matrices moves the same
  elements.

  All theorems are about `Model.Bandwidth` / `Model.Perm` (tied to `optimiser.py` /
  `permutations.py` by the exact correspondence check), read over an arbitrary linear ordered
  field, for every size `n`, every square matrix (symmetry is *not* needed), every number of
  thresholds and restarts, and **every** oracle tape: SciPy's reverse Cuthill–McKee and
  `torch.randperm` are only assumed to return permutations of `0..n-1` (an answer violating
  that contract ends the model run with `Err.contract`, see `contract_respected`).

  Proved here, at full strength:
    * `matrix_bandwidth_def`      – `matrix_bandwidth(M)` is the maximum of `|M[i][j]·(j−i)|`;
    * `impl_loop_invariant`       – the loop of `minimize_bandwidth_impl` keeps
                                    `matrix = permute(A, acc)`, `acc` a permutation, `bandwidth =
                                    matrix_bandwidth(matrix)`, and only ever *strictly* lowers it;
    * `impl_spec`                 – `minimize_bandwidth_impl(A, init)` returns a permutation, the
                                    bandwidth it reports is that of `permute(A, result)` and is ≤ the
                                    bandwidth of `permute(A, init)`;
    * `result_is_permutation`     – `minimize_bandwidth` returns a permutation of `0..n-1`;
    * `result_no_worse`           – its bandwidth on `|M|` (and on `M`) is ≤ `matrix_bandwidth(M)`;
    * `final_assert_never_fails`  – the closing `assert best_bandwidth <= matrix_bandwidth(input)`
                                    cannot fire;
    * `contract_respected`        – if every tape entry is a permutation the run never ends in
                                    `Err.contract`;
    * `inverse_two_sided`, `same_gather`, `composition_law` – helper consistency (shared with C03).
  Not a theorem (validated on the real code): that SciPy's RCM and `torch.randperm` meet the
  contract; binary64 rounding of `|m·(j−i)|` (one correctly rounded product, identical in the
  model run at `Float`).
-/
import EmuVerif.Proofs.Bandwidth
import EmuVerif.Props.C03

set_option linter.unusedSectionVars false

namespace EmuVerif.Props.C32
open EmuVerif EmuVerif.Perm EmuVerif.Bandwidth

variable {α : Type} [Field α] [LinearOrder α] [IsStrictOrderedRing α]

/-! ### `matrix_bandwidth` -/

/-- **`matrix_bandwidth` is `max_{i,j} |M[i][j]·(j−i)|`**: the value returned is attained at
some entry and bounds every entry; it is undefined (`torch.max` raises) only for a matrix without
entries. -/
theorem matrix_bandwidth_def (m : Mat α) (b : α) :
    matrixBandwidth m = some b ↔
      (∃ (i j : Nat) (x : α), (m[i]?.bind (fun row => row[j]?)) = some x ∧ b = |x * (((j : ℤ) - (i : ℤ) : ℤ) : α)|) ∧
      (∀ (i j : Nat) (x : α), (m[i]?.bind (fun row => row[j]?)) = some x → |x * (((j : ℤ) - (i : ℤ) : ℤ) : α)| ≤ b) := by
  unfold matrixBandwidth
  rw [maxOf_eq_some_iff]
  constructor
  · rintro ⟨hm, hub⟩
    obtain ⟨i, j, x, hx, rfl⟩ := mem_weights.mp hm
    refine ⟨⟨i, j, x, hx, weight_eq i j x⟩, ?_⟩
    intro i' j' x' hx'
    rw [← weight_eq]
    exact hub _ (mem_weights.mpr ⟨i', j', x', hx', rfl⟩)
  · rintro ⟨⟨i, j, x, hx, rfl⟩, hub⟩
    refine ⟨mem_weights.mpr ⟨i, j, x, hx, (weight_eq i j x).symm⟩, ?_⟩
    intro w hw
    obtain ⟨i', j', x', hx', rfl⟩ := mem_weights.mp hw
    rw [weight_eq]
    exact hub i' j' x' hx'

/-! ### the loop of `minimize_bandwidth_impl` -/

/-- **Loop invariant.** Started in a state with `matrix = permute(A, acc)`, `acc` a permutation
and `bandwidth = matrix_bandwidth(matrix)`, whatever the oracle answers, the loop returns a
permutation `acc'` with `bandwidth' = matrix_bandwidth(permute(A, acc'))`, and either nothing was
accepted (`acc' = acc`) or the bandwidth went *strictly* down. -/
theorem impl_loop_invariant {n nThr : Nat} {a : Mat α} (ha : IsSquareN n a) :
    ∀ (fuel : Nat) (m : Mat α) (acc : List Nat) (bw : α) (tape : List (List Nat))
      (r : List Nat × α × List (List Nat)),
      IsPerm n acc → m = permuteMatT a acc → matrixBandwidth m = some bw →
      implLoop nThr n fuel m acc bw tape = .ok r →
      IsPerm n r.1 ∧ bwOf a r.1 = some r.2.1 ∧ ((r.1 = acc ∧ r.2.1 = bw) ∨ r.2.1 < bw)
  | 0, _, _, _, _, _, _, _, _, h => by simp [implLoop] at h
  | fuel + 1, m, acc, bw, tape, r, hacc, hm, hbw, h => by
    unfold implLoop at h
    cases hc : takeChunk n nThr tape with
    | error e => simp [hc] at h
    | ok ct =>
      obtain ⟨cands, tape'⟩ := ct
      simp only [hc] at h
      cases hg : globalStep m cands with
      | error e => simp [hg] at h
      | ok ok =>
        obtain ⟨opt, k⟩ := ok
        simp only [hg] at h
        obtain ⟨hmem, _⟩ := globalStep_spec hg
        have hopt : IsPerm n opt := (takeChunk_spec hc).1 opt hmem
        cases hnb : matrixBandwidth (permuteMatT m opt) with
        | none => simp [hnb] at h
        | some newBw =>
          simp only [hnb] at h
          by_cases hle : bw ≤ newBw
          · simp only [hle, if_true, Except.ok.injEq] at h
            subst h
            exact ⟨hacc, by rw [bwOf, ← hm]; exact hbw, Or.inl ⟨rfl, rfl⟩⟩
          · simp only [hle, if_false] at h
            have hcomp : permuteMatT m opt = permuteMatT a (gatherT acc opt) := by
              rw [hm]
              exact permuteMatT_permuteMatT ha hacc.2.1 (by rw [hacc.1]; exact hopt.2.1)
            obtain ⟨h1, h2, h3⟩ := impl_loop_invariant ha fuel _ _ newBw tape' r
              (hacc.gatherT hopt) hcomp hnb h
            have hlt : newBw < bw := not_le.mp hle
            refine ⟨h1, h2, Or.inr ?_⟩
            rcases h3 with ⟨_, e⟩ | h3
            · rw [e]; exact hlt
            · exact lt_trans h3 hlt

/-- **`minimize_bandwidth_impl`**: from any initial permutation, the result is a permutation,
the reported bandwidth is the bandwidth of `permute(A, result)`, and it is no larger than the
bandwidth of `permute(A, initial_perm)`. -/
theorem impl_spec {n nThr : Nat} {a : Mat α} (ha : IsSquareN n a) {init : List Nat}
    (hinit : IsPerm n init) {tape : List (List Nat)} {r : List Nat × α × List (List Nat)}
    (h : minimizeBandwidthImpl nThr a init tape = .ok r) :
    IsPerm n r.1 ∧ bwOf a r.1 = some r.2.1 ∧ ∃ b0, bwOf a init = some b0 ∧ r.2.1 ≤ b0 := by
  unfold minimizeBandwidthImpl at h
  simp only [ha.1] at h
  have hm0 : (if init = List.range n then a else permuteMatT a init) = permuteMatT a init := by
    split_ifs with e
    · rw [e, permuteMatT_range ha]
    · rfl
  rw [hm0] at h
  cases hb : matrixBandwidth (permuteMatT a init) with
  | none => simp [hb] at h
  | some bw =>
    simp only [hb] at h
    obtain ⟨h1, h2, h3⟩ := impl_loop_invariant ha 100 _ init bw tape r hinit rfl hb h
    refine ⟨h1, h2, bw, hb, ?_⟩
    rcases h3 with ⟨_, e⟩ | h3
    · exact le_of_eq e
    · exact le_of_lt h3

/-! ### restarts and the final choice -/

theorem run_starts_spec {n nThr : Nat} {a : Mat α} (ha : IsSquareN n a) :
    ∀ (starts tape : List (List Nat)) (b : List Nat) (kb : α) (r : List Nat × α),
      (∀ s ∈ starts, IsPerm n s) → IsPerm n b → bwOf a b = some kb →
      runStarts nThr a starts tape b kb = .ok r →
      IsPerm n r.1 ∧ bwOf a r.1 = some r.2 ∧ r.2 ≤ kb
  | [], _, b, kb, r, _, hb, hkb, h => by
    simp only [runStarts, Except.ok.injEq] at h
    subst h
    exact ⟨hb, hkb, le_refl _⟩
  | s :: ss, tape, b, kb, r, hs, hb, hkb, h => by
    unfold runStarts at h
    cases hi : minimizeBandwidthImpl nThr a s tape with
    | error e => simp [hi] at h
    | ok res =>
      obtain ⟨p, bw, tape'⟩ := res
      simp only [hi] at h
      obtain ⟨hp, hpb, _⟩ := impl_spec ha (hs s (by simp)) hi
      have hss : ∀ s' ∈ ss, IsPerm n s' := fun s' h' => hs s' (by simp [h'])
      by_cases hlt : bw < kb
      · simp only [hlt, if_true] at h
        obtain ⟨h1, h2, h3⟩ := run_starts_spec ha ss tape' p bw r hss hp hpb h
        exact ⟨h1, h2, le_trans h3 (le_of_lt hlt)⟩
      · simp only [hlt, if_false] at h
        exact run_starts_spec ha ss tape' b kb r hss hb hkb h

/-- The best of identity start + restarts: a permutation, with its bandwidth, no worse than the
identity order. -/
theorem choose_best_spec {nThr : Nat} {a : Mat α} (ha : IsSquareN a.length a)
    {starts tape : List (List Nat)} (hs : ∀ s ∈ starts, IsPerm a.length s) {r : List Nat × α}
    (h : chooseBest nThr a starts tape = .ok r) :
    IsPerm a.length r.1 ∧ bwOf a r.1 = some r.2 ∧ ∃ b0, matrixBandwidth a = some b0 ∧ r.2 ≤ b0 := by
  unfold chooseBest at h
  cases h0 : minimizeBandwidthImpl nThr a (List.range a.length) tape with
  | error e => simp [h0] at h
  | ok res =>
    obtain ⟨p0, bw0, tape0⟩ := res
    simp only [h0] at h
    obtain ⟨hp0, hb0, b00, hid, hle0⟩ := impl_spec ha (isPerm_range _) h0
    obtain ⟨hbp, hbb, hble⟩ := run_starts_spec ha _ _ _ _ _ hs hp0 hb0 h
    rw [bwOf_range ha] at hid
    exact ⟨hbp, hbb, b00, hid, le_trans hble hle0⟩

/-- What the four guards of `minimize_bandwidth` establish. -/
theorem guards {atol rtol : α} {nThr samples : Nat} {m : Mat α} {rnd tape : List (List Nat)}
    {res : Except Err (List Nat)} (h : minimizeBandwidth atol rtol nThr samples m rnd tape = res) :
    (res = .error .shape ∨ res = .error .notSymmetric ∨ res = .error (.inner .tape)
      ∨ res = .error (.inner .contract)) ∨
    (IsSquareN m.length m ∧ (∀ s ∈ rnd.take samples, IsPerm m.length s) ∧
      res = (match chooseBest nThr (absMat m) (rnd.take samples) tape with
             | .error e => .error (.inner e)
             | .ok r => finalAssert m r)) := by
  unfold minimizeBandwidth at h
  split_ifs at h with hsq hsym hlen hrnd
  · exact Or.inl (Or.inl h.symm)
  · exact Or.inl (Or.inr (Or.inl h.symm))
  · exact Or.inl (Or.inr (Or.inr (Or.inl h.symm)))
  · exact Or.inl (Or.inr (Or.inr (Or.inr h.symm)))
  · refine Or.inr ⟨isSquare_iff.mp (by simpa using hsq), ?_, h.symm⟩
    intro s hs
    have := List.all_eq_true.mp (by simpa using hrnd) s hs
    exact isPermOf_iff.mp this

/-- Everything `minimize_bandwidth` guarantees, in one statement. -/
theorem minimize_spec {atol rtol : α} {nThr samples : Nat} {m : Mat α}
    {rnd tape : List (List Nat)} {p : List Nat}
    (h : minimizeBandwidth atol rtol nThr samples m rnd tape = .ok p) :
    IsSquareN m.length m ∧ IsPerm m.length p ∧
      ∃ b b0, bwOf (absMat m) p = some b ∧ matrixBandwidth m = some b0 ∧ b ≤ b0 := by
  rcases guards h with (e | e | e | e) | ⟨hsq, hstarts, e⟩
  · cases e
  · cases e
  · cases e
  · cases e
  · have ha := Bandwidth.IsSquareN.absMat hsq
    have hl : (absMat m).length = m.length := by simp [absMat]
    cases hc : chooseBest nThr (absMat m) (rnd.take samples) tape with
    | error e' => simp [hc] at e
    | ok r =>
      simp only [hc] at e
      obtain ⟨h1, h2, b0, h3, h4⟩ := choose_best_spec (hl ▸ ha) (hl ▸ hstarts) hc
      rw [matrixBandwidth_absMat] at h3
      unfold finalAssert at e
      simp only [h3] at e
      split_ifs at e
      simp only [Except.ok.injEq] at e
      subst e
      exact ⟨hsq, hl ▸ h1, r.2, b0, h2, h3, h4⟩

/-- **The optimiser returns a permutation of all atoms.** -/
theorem result_is_permutation {atol rtol : α} {nThr samples : Nat} {m : Mat α}
    {rnd tape : List (List Nat)} {p : List Nat}
    (h : minimizeBandwidth atol rtol nThr samples m rnd tape = .ok p) :
    IsPerm m.length p ∧ p.Perm (List.range m.length) :=
  ⟨(minimize_spec h).2.1, (minimize_spec h).2.1.perm_range⟩

/-- **The returned order is no worse than the original one**: the bandwidth of the reordered
interaction strengths `permute(|M|, p)` — equivalently of `permute(M, p)` — is at most
`matrix_bandwidth(M)`. -/
theorem result_no_worse {atol rtol : α} {nThr samples : Nat} {m : Mat α}
    {rnd tape : List (List Nat)} {p : List Nat}
    (h : minimizeBandwidth atol rtol nThr samples m rnd tape = .ok p) :
    ∃ b b0, matrixBandwidth (permuteMatT (absMat m) p) = some b ∧
      matrixBandwidth (permuteMatT m p) = some b ∧ matrixBandwidth m = some b0 ∧ b ≤ b0 := by
  obtain ⟨_, _, b, b0, h1, h2, h3⟩ := minimize_spec h
  refine ⟨b, b0, h1, ?_, h2, h3⟩
  have : permuteMatT (absMat m) p = absMat (permuteMatT m p) := by
    simp only [permuteMatT, absMat, gatherT_map, List.map_map]
    apply List.map_congr_left
    intro row _
    simp [gatherT_map]
  rw [bwOf, this, matrixBandwidth_absMat] at h1
  exact h1

/-- **The closing assert `best_bandwidth <= matrix_bandwidth(input_matrix)` never fires**, for
any tape: the identity order is always one of the candidates and steps are accepted only when
they strictly improve. -/
theorem final_assert_never_fails (atol rtol : α) (nThr samples : Nat) (m : Mat α)
    (rnd tape : List (List Nat)) :
    minimizeBandwidth atol rtol nThr samples m rnd tape ≠ .error .notOptimised := by
  intro h
  rcases guards h with (e | e | e | e) | ⟨hsq, hstarts, e⟩
  · cases e
  · cases e
  · cases e
  · cases e
  · have ha := Bandwidth.IsSquareN.absMat hsq
    have hl : (absMat m).length = m.length := by simp [absMat]
    cases hc : chooseBest nThr (absMat m) (rnd.take samples) tape with
    | error e' => simp [hc] at e
    | ok r =>
      simp only [hc] at e
      obtain ⟨_, _, b0, h3, h4⟩ := choose_best_spec (hl ▸ ha) (hl ▸ hstarts) hc
      rw [matrixBandwidth_absMat] at h3
      unfold finalAssert at e
      simp only [h3] at e
      split_ifs at e

/-- **Given the oracle contract, the run never leaves it**: if every answer of
`torch.randperm` and of `minimize_bandwidth_above_threshold` (RCM) is a permutation of `0..n-1`,
the model never reports `Err.contract` — so `result_is_permutation` / `result_no_worse` cover
every such run that returns. -/
theorem contract_respected (atol rtol : α) (nThr samples : Nat) (m : Mat α)
    {rnd tape : List (List Nat)} (hr : ValidTape m.length rnd) (ht : ValidTape m.length tape) :
    minimizeBandwidth atol rtol nThr samples m rnd tape ≠ .error (.inner .contract) := by
  intro h
  unfold minimizeBandwidth at h
  have hl : (absMat m).length = m.length := by simp [absMat]
  split_ifs at h with hsq hsym hlen hrnd
  · simp at h
  · simp at h
  · simp at h
  · simp only [Bool.not_eq_true', List.all_eq_false] at hrnd
    obtain ⟨x, hx, hx'⟩ := hrnd
    exact hx' (isPermOf_iff.mpr (hr x (List.mem_of_mem_take hx)))
  · cases hc : chooseBest nThr (absMat m) (rnd.take samples) tape with
    | error e =>
      simp only [hc, Except.error.injEq, Err.inner.injEq] at h
      exact chooseBest_valid (absMat m) _ (hl ▸ ht) (h ▸ hc)
    | ok r =>
      simp only [hc] at h
      unfold finalAssert at h
      cases hmb : matrixBandwidth m with
      | none => simp [hmb] at h
      | some orig =>
        simp only [hmb] at h
        split_ifs at h
        simp at h

/-! ### the permutation helpers are mutually consistent (details in `Props/C03.lean`) -/

/-- **Helpers mutually consistent**: on a sequence of `n` elements and a permutation `p` of
`0..n-1`, `permute_list`, `permute_tuple` and 1-D `permute_tensor` return the same gather
(`permute_string` is `permute_list` on the characters), `inv_permutation(p)` is defined, and
inverting undoes permuting in both orders. -/
theorem helpers_mutually_consistent {β : Type} {n : Nat} {p : List Nat} (h : IsPerm n p)
    (xs : List β) (s : String) (hx : xs.length = n) :
    permuteTuple xs p = permuteList xs p ∧ permuteVec xs p = permuteList xs p ∧
    permuteString s p = (permuteList s.toList p).map String.ofList ∧
    permuteList xs p = some (gatherT xs p) ∧
    ∃ q, invPermutation p = some q ∧ IsPerm n q ∧
      (permuteList xs p).bind (fun ys => permuteList ys q) = some xs ∧
      (permuteList xs q).bind (fun ys => permuteList ys p) = some xs := by
  obtain ⟨h1, h2, h3, _, _⟩ := C03.same_gather xs s p
  obtain ⟨q, hq, hqp, _, _, _⟩ := C03.inverse_two_sided h
  have hq' : q = invPermT p := by
    simp only [invPermutation] at hq
    split_ifs at hq
    exact (Option.some.inj hq).symm
  refine ⟨h1, h2, h3, ?_, q, hq, hqp, ?_⟩
  · rw [permuteList_eq, inRange_iff.mpr (hx ▸ h.2.1), if_pos rfl]
  · rw [hq']
    exact (C03.inverse_undoes_permuting h).1 xs hx

/-! ### Non-vacuity: concrete instances (ℚ, kernel-evaluated — tests, not proofs) -/

/-- 3 atoms, strong 0–2 bond with a negative sign. -/
def exM : Mat ℚ := [[0, 1, -5], [1, 0, 0], [-5, 0, 0]]

example : matrixBandwidth exM = some 10 := by decide +kernel

/-- One threshold, one restart; the oracle proposes `[1,0,2]` (accepted: 5 < 10), then the
identity twice (rejected: not a strict improvement). The hypotheses of `result_is_permutation`,
`result_no_worse` and `contract_respected` are met by this run. -/
example : minimizeBandwidth (1 / 100000000 : ℚ) (1 / 100000) 1 1 exM [[2, 1, 0]]
    [[1, 0, 2], [0, 1, 2], [0, 1, 2]] = .ok [1, 0, 2] := by decide +kernel

example : matrixBandwidth (permuteMatT exM [1, 0, 2]) = some 5 := by decide +kernel

example : ValidTape exM.length [[1, 0, 2], [0, 1, 2], [0, 1, 2]] := by
  intro x hx
  apply isPermOf_iff.mp
  revert x
  decide

/-- `impl_loop_invariant` / `impl_spec`: a start from `[2,1,0]` that accepts one step. -/
example : minimizeBandwidthImpl 1 exM [2, 1, 0] [[1, 0, 2], [0, 1, 2]]
    = .ok ([1, 2, 0], 5, []) := by decide +kernel

/-- an oracle answer that is not a permutation ends the run outside the contract -/
example : minimizeBandwidth (1 / 100000000 : ℚ) (1 / 100000) 1 0 exM [] [[1, 1, 2]]
    = .error (.inner .contract) := by decide +kernel

/-- the symmetry assert rejects -/
example : minimizeBandwidth (1 / 100000000 : ℚ) (1 / 100000) 1 0 [[0, 1], [2, 0]] [] [[0, 1]]
    = .error .notSymmetric := by decide +kernel

example : IsPerm 3 [1, 0, 2] := isPermOf_iff.mp (by decide)

end EmuVerif.Props.C32
