/-
  C33 — Configuration safeguards are always applied.

  Statement (properties.jsonl): constructed configurations always satisfy the documented
  safeguards: the effective Krylov tolerance is at least 1e-12, an autosave interval of 10 s or
  less is rejected, and qubit reordering is switched off whenever an observable that cannot be
  un-permuted is requested. The DMRG solver refuses noise models with noise.

  All theorems are about `Model.Config` (tied to `MPSConfig.__init__`, `create_impl`,
  `DMRGBackendImpl.__init__` by the correspondence check of `harness/props/c33.py`), the scalar
  ones read over an arbitrary linear ordered field, for *all* precisions / tolerances /
  intervals, *all* observable-tag lists (list induction) and *all* noise-kind lists.

  Proved at full strength (exact arithmetic):
    * `krylov_floor`            – `0 < precision` ⇒ the stored `extra_krylov_tolerance` exists (no
                                  ZeroDivisionError) and `precision · extra' ≥ 1e-12`; if the
                                  requested product was already ≥ the floor nothing changes, if it
                                  was below, the effective tolerance is *exactly* the floor;
    * `krylov_floor_literal`    – the same with the floor written as the literal `1e-12`;
    * `krylov_zero_precision`   – `precision = 0` raises ZeroDivisionError (no config is returned);
    * `autosave_rejected`       – `autosave_dt ≤ 10` ⇒ AssertionError, whatever the other arguments;
    * `autosave_accepted_iff`   – a config is returned only if `autosave_dt > 10`;
    * `reorder_off`             – a tag outside the whitelist anywhere in the observable list ⇒
                                  `optimize_qubit_ordering = False` (for every list and flag);
    * `reorder_kept`            – all tags whitelisted ⇒ the user's flag is kept;
    * `constructed_config_safe` – every config `mkConfig` returns satisfies all three safeguards;
    * `dmrg_refuses_noise_impl`, `dmrg_refuses_noise_seq`, `dmrg_refuses_noise` – solver DMRG with
      Lindblad operators on the `SequenceData` or a non-empty `config.noise_model.noise_types`
      never yields an implementation object / a result: `create_impl` raises NotImplementedError;
      through the whole pipeline, for every non-empty noise-kind list.
    * `dmrg_noise_asFound_counterexample` – for the tree *before* the fix (`Variant.asFound`:
      `create_impl` tested the Lindblad operators first) the statement is false: DMRG + one
      Lindblad operator returns the TDVP quantum-jump implementation and emulates (D9).

  Binary64: `p * (1e-12 / p)` can be one ulp below `1e-12` (two roundings); the theorem is about
  exact arithmetic, the harness accepts 4 ulp on the real `MPSConfig` and says so.

  D22 (`known_findings.d/config.json`, **fixed** in /repo de798eb): `DMRGBackendImpl.__init__` only
  looks at `config.noise_model`; with `prefer_device_noise_model=True` the noise in effect is the
  device's default noise model. `acceptDev fixed` models `run()`: `fixed = true` is the current
  tree (`run()` refuses DMRG when the noise model in effect is not empty), `fixed = false` the tree
  before the fix. `DmrgRefusesEffectiveNoise fixed` is the full-strength statement over the noise
  *in effect*: `dmrg_refuses_effective_noise_fixed` proves it for the current tree,
  `dmrg_device_noise_counterexample` refutes it for the old one (device SPAM/doppler/amplitude
  noise + DMRG was emulated), `dmrg_refuses_effective_noise_partial` is what held there. The
  harness resolves the variant against the real `run()` on every run and reports a regression.
-/
import EmuVerif.Proofs.Config

set_option linter.unusedSectionVars false

namespace EmuVerif.Props.C33
open EmuVerif EmuVerif.Config

section field
variable {α : Type} [Field α] [LinearOrder α] [IsStrictOrderedRing α]

/-- Effective Krylov tolerance ≥ floor for every positive precision and every requested
`extra_krylov_tolerance` (negative, zero, huge — anything). -/
theorem krylov_floor (p e : α) (hp : 0 < p) :
    ∃ e', effExtra p e = some e' ∧ effTol p e = some (p * e') ∧ minKrylovTol ≤ p * e' ∧
      (minKrylovTol ≤ p * e → e' = e) ∧ (p * e < minKrylovTol → p * e' = minKrylovTol) := by
  by_cases h : p * e < minKrylovTol
  · refine ⟨minKrylovTol / p, effExtra_below h (ne_of_gt hp), ?_, ?_, ?_, ?_⟩
    · unfold effTol; rw [effExtra_below h (ne_of_gt hp)]; rfl
    · rw [mul_div_cancel₀ _ (ne_of_gt hp)]
    · intro h'; exact absurd h (not_lt.2 h')
    · intro _; rw [mul_div_cancel₀ _ (ne_of_gt hp)]
  · have h' := not_lt.1 h
    refine ⟨e, effExtra_above h', ?_, h', fun _ => rfl, fun hh => absurd hh h⟩
    unfold effTol; rw [effExtra_above h']; rfl

/-- The same, with the floor spelled as the code spells it. -/
theorem krylov_floor_literal (p e : α) (hp : 0 < p) :
    ∃ e', effExtra p e = some e' ∧ (1e-12 : α) ≤ p * e' := by
  obtain ⟨e', h1, _, h3, _⟩ := krylov_floor p e hp
  exact ⟨e', h1, by rw [← minKrylovTol_eq]; exact h3⟩

/-- `precision = 0`: the product is 0 < 1e-12, the code divides by zero and raises. -/
theorem krylov_zero_precision (e dt : α) (flag : Bool) (tags : List String) (s : Solver)
    (hdt : 10 < dt) : mkConfig (0 : α) e dt flag tags s = .err .zeroDiv := by
  have h0 : (0 : α) * e < minKrylovTol := by rw [zero_mul]; exact minKrylovTol_pos
  unfold mkConfig
  rw [(autosaveOk_iff dt).2 hdt, effExtra_below_zero h0]
  rfl

/-- `autosave_dt ≤ 10` is rejected for all values of everything else. -/
theorem autosave_rejected (p e dt : α) (flag : Bool) (tags : List String) (s : Solver)
    (h : dt ≤ 10) : mkConfig p e dt flag tags s = .err .assertion := by
  unfold mkConfig
  have : autosaveOk dt = false := by
    cases hb : autosaveOk dt
    · rfl
    · exact absurd ((autosaveOk_iff dt).1 hb) (not_lt.2 h)
  rw [this]; rfl

theorem autosave_accepted_iff (p e dt : α) (flag : Bool) (tags : List String) (s : Solver)
    (c : MpsCfg α) (h : mkConfig p e dt flag tags s = .ok c) : 10 < dt ∧ c.autosaveDt = dt := by
  by_cases hd : 10 < dt
  · refine ⟨hd, ?_⟩
    unfold mkConfig at h
    rw [(autosaveOk_iff dt).2 hd] at h
    simp only [Bool.not_true, Bool.false_eq_true, if_false] at h
    cases he : effExtra p e with
    | none => rw [he] at h; cases h
    | some e' => rw [he] at h; cases h; rfl
  · rw [autosave_rejected p e dt flag tags s (not_lt.1 hd)] at h; cases h
end field

/-- Reordering is off whenever *any* requested observable has a tag outside the whitelist —
for every observable list (induction on the list) and whatever the user asked for. -/
theorem reorder_off (flag : Bool) (tags : List String) (h : ∃ t ∈ tags, t ∉ whitelist) :
    reorder flag tags = false := by
  have hp : permutable tags = false := by
    induction tags with
    | nil => obtain ⟨t, ht, _⟩ := h; cases ht
    | cons x xs ih =>
      obtain ⟨t, ht, hw⟩ := h
      unfold permutable
      rcases List.mem_cons.1 ht with rfl | hx
      · have : allowedTag t = false := by
          cases ha : allowedTag t
          · rfl
          · exact absurd ((allowedTag_iff t).1 ha) hw
        rw [this]; rfl
      · rw [ih ⟨t, hx, hw⟩]; exact Bool.and_false _
  unfold reorder; rw [hp]; exact Bool.and_false _

/-- Only whitelisted tags: the user's choice is kept. -/
theorem reorder_kept (flag : Bool) (tags : List String) (h : ∀ t ∈ tags, t ∈ whitelist) :
    reorder flag tags = flag := by
  have : permutable tags = true :=
    (permutable_iff tags).2 (fun t ht => (allowedTag_iff t).2 (h t ht))
  unfold reorder; rw [this]; exact Bool.and_true _

section field
variable {α : Type} [Field α] [LinearOrder α] [IsStrictOrderedRing α]

/-- Every configuration that `MPSConfig.__init__` returns satisfies the three safeguards. -/
theorem constructed_config_safe (p e dt : α) (flag : Bool) (tags : List String) (s : Solver)
    (c : MpsCfg α) (h : mkConfig p e dt flag tags s = .ok c) :
    10 < c.autosaveDt ∧
    (0 < p → minKrylovTol ≤ c.precision * c.extraKrylovTol) ∧
    ((∃ t ∈ tags, t ∉ whitelist) → c.reorder = false) ∧
    ((∀ t ∈ tags, t ∈ whitelist) → c.reorder = flag) := by
  obtain ⟨hd, hdt⟩ := autosave_accepted_iff p e dt flag tags s c h
  unfold mkConfig at h
  rw [(autosaveOk_iff dt).2 hd] at h
  simp only [Bool.not_true, Bool.false_eq_true, if_false] at h
  cases he : effExtra p e with
  | none => rw [he] at h; cases h
  | some e' =>
    rw [he] at h
    cases h
    refine ⟨hd, ?_, reorder_off flag tags, reorder_kept flag tags⟩
    intro hp
    obtain ⟨e'', h1, _, h3, _⟩ := krylov_floor p e hp
    rw [he] at h1
    cases h1
    exact h3
end field

/-! ### DMRG refuses noise -/

/-- `create_impl` with solver DMRG: Lindblad operators on the data or any configured noise type
⇒ NotImplementedError; and it never hands out the TDVP implementations. -/
theorem dmrg_refuses_noise_impl (nOps nAtoms : Nat) (cfgNoise : Bool) :
    ((0 < nOps ∨ cfgNoise = true) → createImpl .repaired .dmrg nOps cfgNoise nAtoms = .err .notImpl) ∧
    (∀ i, createImpl .repaired .dmrg nOps cfgNoise nAtoms = .ok i → i = .dmrg ∧ nOps = 0 ∧ cfgNoise = false) := by
  unfold createImpl
  by_cases h1 : 0 < nOps
  · simp [h1]
  · cases cfgNoise
    · simp only [h1, if_false, false_or, Bool.false_eq_true, if_true]
      refine ⟨by simp, ?_⟩
      intro i hi
      have : nOps = 0 := Nat.eq_zero_of_not_pos h1
      split_ifs at hi
      cases hi
      exact ⟨rfl, this, trivial⟩
    · simp [h1]

/-- On a `SequenceData`: DMRG + noise never returns results. -/
theorem dmrg_refuses_noise_seq (d : Seq) (cfgNoise : Bool)
    (h : d.opDims ≠ [] ∨ cfgNoise = true) :
    mpsAccept .repaired d .dmrg cfgNoise = .raise .notImpl := by
  have h' : 0 < d.opDims.length ∨ cfgNoise = true := by
    rcases h with h | h
    · exact Or.inl (List.length_pos_iff.2 h)
    · exact Or.inr h
  unfold mpsAccept
  rw [(dmrg_refuses_noise_impl d.opDims.length d.nAtoms cfgNoise).1 h']

/-- Through the whole pipeline, for every non-empty list of noise kinds (Lindbladian or not),
every interaction type and every level count: emu-mps with the DMRG solver raises. -/
theorem dmrg_refuses_noise (it : IntType) (dim : Nat) (kinds : List NoiseKind) (h : kinds ≠ []) :
    ∃ e, accept .mps it dim kinds .dmrg = .raise e := by
  unfold accept acceptV acceptCore
  cases detectHam it with
  | err e => exact ⟨e, rfl⟩
  | ok ham =>
    cases allLindblad dim kinds with
    | err e => exact ⟨e, rfl⟩
    | ok n =>
      refine ⟨.notImpl, ?_⟩
      simp only [acceptSeq]
      apply dmrg_refuses_noise_seq
      right
      cases kinds with
      | nil => exact absurd rfl h
      | cons k ks => rfl

/-- Before the fix the statement fails: DMRG + one Lindblad operator emulates (as TDVP jumps). -/
theorem dmrg_noise_asFound_counterexample :
    ¬ (∀ (d : Seq) (cfgNoise : Bool), (d.opDims ≠ [] ∨ cfgNoise = true) →
        ∃ e, mpsAccept .asFound d .dmrg cfgNoise = .raise e) := by
  intro h
  obtain ⟨e, he⟩ := h { ham := .rydberg, dim := 2, opDims := [2], nAtoms := 2, nGood := 2 } false
    (Or.inl (by simp))
  have hw : mpsAccept .asFound { ham := .rydberg, dim := 2, opDims := [2], nAtoms := 2, nGood := 2 }
      .dmrg false = .emulate .rydberg2 := by decide
  rw [hw] at he
  cases he

/-! ### However the solver is requested -/

/-- `Solver` is a `str` enum and `MPSConfig` stores the option as given: the enum member, the
documented string `"dmrg"`, or a string coming back from an abstract-repr round trip. The code
tests the *value* (`==`), so the refusal holds for every form. -/
theorem dmrg_refuses_noise_any_form (f : SolverForm) (d : Seq) (cfgNoise : Bool)
    (h : d.opDims ≠ [] ∨ cfgNoise = true) :
    acceptSeqF .byValue f .repaired .mps d .dmrg cfgNoise = .raise .notImpl :=
  dmrg_refuses_noise_seq d cfgNoise h

/-- Seeded variant t09-C33 (`is Solver.DMRG`): requested as a string, DMRG + noise is emulated by
the TDVP quantum-jump implementation. -/
theorem dmrg_identity_counterexample :
    ¬ (∀ (f : SolverForm) (d : Seq) (cfgNoise : Bool), (d.opDims ≠ [] ∨ cfgNoise = true) →
        ∃ e, acceptSeqF .byIdentity f .repaired .mps d .dmrg cfgNoise = .raise e) := by
  intro h
  obtain ⟨e, he⟩ := h .string { ham := .rydberg, dim := 2, opDims := [2], nAtoms := 2, nGood := 2 } false
    (Or.inl (by simp))
  have hw : acceptSeqF .byIdentity .string .repaired .mps
      { ham := .rydberg, dim := 2, opDims := [2], nAtoms := 2, nGood := 2 } .dmrg false
      = .emulate .rydberg2 := by decide
  rw [hw] at he
  cases he

/-! ### The noise model *in effect* (finding: `prefer_device_noise_model`) -/

/-- Full-strength reading of "the DMRG solver refuses noise models with noise": whatever the
source of the noise model in effect (`config.noise_model`, or the device's default one when
`prefer_device_noise_model=True`), a non-empty one makes DMRG raise. Satisfied by the current
tree (`fixed = true`, `dmrg_refuses_effective_noise_fixed`); **not** by the tree before the D22
fix (`dmrg_device_noise_counterexample`). -/
def DmrgRefusesEffectiveNoise (fixed : Bool) : Prop :=
  ∀ (it : IntType) (dim : Nat) (prefer : Bool) (cfgKinds devKinds : List NoiseKind),
    (if prefer then devKinds else cfgKinds) ≠ [] →
    ∃ e, acceptDev fixed .mps it dim prefer cfgKinds devKinds .dmrg = .raise e

/-- With `run()` checking the noise model in effect (the current tree) the statement holds in full. -/
theorem dmrg_refuses_effective_noise_fixed : DmrgRefusesEffectiveNoise true := by
  intro it dim prefer cfgKinds devKinds h
  unfold acceptDev acceptDevEff
  cases detectHam it with
  | err e => exact ⟨e, rfl⟩
  | ok ham =>
    cases allLindblad dim (if prefer then devKinds else cfgKinds) with
    | err e => exact ⟨e, rfl⟩
    | ok n =>
      refine ⟨.notImpl, ?_⟩
      have : (!(if prefer then devKinds else cfgKinds).isEmpty) = true := by
        cases hk : (if prefer then devKinds else cfgKinds) with
        | nil => exact absurd hk h
        | cons k ks => rfl
      simp only [this, and_self, if_true]

/-- What held before the D22 fix: the noise in effect is refused when it is `config.noise_model`
(`prefer_device_noise_model=False`), or when `config.noise_model` is not empty either, or when the
device noise yields at least one Lindblad operator. -/
theorem dmrg_refuses_effective_noise_partial (it : IntType) (dim : Nat) (prefer : Bool)
    (cfgKinds devKinds : List NoiseKind)
    (h : (if prefer then devKinds else cfgKinds) ≠ [])
    (hg : prefer = false ∨ cfgKinds ≠ [] ∨
          ∃ n, allLindblad dim devKinds = .ok n ∧ 0 < n) :
    ∃ e, acceptDev false .mps it dim prefer cfgKinds devKinds .dmrg = .raise e := by
  unfold acceptDev acceptDevEff acceptCore
  cases hd : detectHam it with
  | err e => exact ⟨e, rfl⟩
  | ok ham =>
    cases hl : allLindblad dim (if prefer then devKinds else cfgKinds) with
    | err e => exact ⟨e, rfl⟩
    | ok n =>
      refine ⟨.notImpl, ?_⟩
      simp only [Bool.false_eq_true, false_and, if_false, hd, hl, acceptSeq]
      apply dmrg_refuses_noise_seq
      have hcfg : cfgKinds ≠ [] → (!cfgKinds.isEmpty) = true := by
        intro hc; cases cfgKinds with
        | nil => exact absurd rfl hc
        | cons k ks => rfl
      rcases hg with hp | hc | ⟨m, hm, hpos⟩
      · subst hp
        exact Or.inr (hcfg h)
      · exact Or.inr (hcfg hc)
      · cases prefer with
        | false => exact Or.inr (hcfg h)
        | true =>
          left
          simp only [if_true] at hl
          rw [hm] at hl
          have hmn : m = n := by cases hl; rfl
          subst hmn
          intro hnil
          have hnil' : List.replicate m dim = [] := hnil
          have : (List.replicate m dim).length = 0 := by rw [hnil']; rfl
          rw [List.length_replicate] at this
          omega

/-- The tree before the D22 fix does **not** satisfy the full-strength statement: a device whose default
noise model has only non-Lindbladian noise (SPAM, doppler, amplitude …), taken with
`prefer_device_noise_model=True` and an empty `config.noise_model`, is emulated by DMRG. -/
theorem dmrg_device_noise_counterexample : ¬ DmrgRefusesEffectiveNoise false := by
  intro h
  obtain ⟨e, he⟩ := h .ising 2 true [] [.nonLindblad] (by simp)
  have hw : acceptDev false .mps .ising 2 true [] [.nonLindblad] .dmrg = .emulate .rydberg2 := by decide
  rw [hw] at he
  cases he

/-! ### Non-vacuity -/

/-- `krylov_floor` bites: precision 1e-5 × extra 1e-9 = 1e-14 < 1e-12 is lifted to 1e-12. -/
example : effTol (1 / 100000 : ℚ) (1 / 1000000000) = some (1 / 1000000000000) := by
  unfold effTol effExtra belowFloor isZero minKrylovTol; norm_num
/-- … and a request above the floor is kept. -/
example : effExtra (1 / 100000 : ℚ) (1 / 1000) = some (1 / 1000) := by
  unfold effExtra belowFloor minKrylovTol; norm_num
example : mkConfig (1 / 100000 : ℚ) (1 / 1000) 10 true ["occupation"] .tdvp = .err .assertion :=
  autosave_rejected _ _ _ _ _ _ (le_refl _)
example : ∃ c, mkConfig (1 / 100000 : ℚ) (1 / 1000) 11 true ["occupation", "fidelity"] .tdvp = .ok c
    ∧ c.reorder = false := by
  have ha : autosaveOk (11 : ℚ) = true := by unfold autosaveOk minAutosaveDt; norm_num
  have he : effExtra (1 / 100000 : ℚ) (1 / 1000) = some (1 / 1000) := by
    unfold effExtra belowFloor minKrylovTol; norm_num
  have hr : reorder true ["occupation", "fidelity"] = false := by decide
  refine ⟨{ precision := 1 / 100000, extraKrylovTol := 1 / 1000, autosaveDt := 11,
            reorder := false, solver := .tdvp }, ?_, rfl⟩
  unfold mkConfig
  rw [ha, he, hr]
  rfl
example : reorder true ["energy", "occupation", "bitstrings"] = true := by decide
example : reorder true ["energy", "entanglement_entropy", "bitstrings"] = false :=
  reorder_off _ _ ⟨"entanglement_entropy", by simp, by decide⟩
example : createImpl .repaired .dmrg 0 false 3 = .ok .dmrg := by decide
example : accept .mps .ising 2 [.relaxation] .dmrg = .raise .notImpl := by decide
example : accept .mps .ising 2 [.nonLindblad] .dmrg = .raise .notImpl := by decide
example : accept .mps .ising 2 [] .dmrg = .emulate .rydberg2 := by decide
example : acceptDev true .mps .ising 2 true [] [] .dmrg = .emulate .rydberg2 := by decide
example : acceptDev true .mps .ising 2 true [] [.nonLindblad] .tdvp = .emulate .rydberg2 := by decide
example : acceptDev false .mps .ising 2 true [] [.relaxation] .dmrg = .raise .notImpl := by decide
example : acceptDev false .mps .ising 2 true [.nonLindblad] [.nonLindblad] .dmrg = .raise .notImpl := by decide

end EmuVerif.Props.C33
