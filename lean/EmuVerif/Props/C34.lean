/-
  C34 — Multi-trajectory results aggregate all simulated trajectories.

  Statement (properties.jsonl): with n_trajectories > 1 the returned results combine exactly
  n_trajectories simulations; mean-aggregated observables equal the average of the
  per-trajectory values; bitstring counts add up to n_trajectories × shots per run.

  All theorems are about `Model.Aggregate` (tied to `PulserData.get_sequences` and to the
  `run()` loops of both back-ends by the correspondence check), for every list of
  `(samples, reps)` entries, every per-trajectory simulation `run` (stateful: the state is
  whatever the back-end mutates between trajectories, e.g. the RNG) and every `shots`.

  Proved, full strength on the counting:
    * `yields_sum_reps`            – number of `SequenceData` yielded = Σ reps;
    * `yields_in_order`            – they come in the order of `noisy_samples`, each entry
                                     repeated `reps` times consecutively;
    * `handed_length`, `handed_kth` – the list handed to `Results.aggregate` has length Σ reps and
                                     its k-th element is the simulation of the k-th yielded item
                                     (in the state left by the k−1 earlier simulations);
    * `handed_independent_if_state_preserved` – if no simulation modifies the shared state (configured
                                     initial state), every handed result is the simulation of its own item
                                     from that state (hypothesis checked on the real emu-sv runs);
    * `aggregate_defined`          – `aggregate` raises iff Σ reps = 0; one trajectory is returned as is;
    * `bitstring_totals`           – joined counter has total (Σ reps) × shots when every run
                                     returns `shots` samples; `bitstring_counts_add` per key;
    * `mean_weights_reps`          – under the mean contract the aggregated value of a
                                     deterministic observable is Σ reps·v / Σ reps.
  Assumed (Pulser code, validated numerically by the harness, not proved):
    * `Σ reps = n_trajectories` for the list Pulser's `HamiltonianData.noise_trajectories` builds;
    * `MeanContract`: `_mean_aggregator` returns the arithmetic mean of the list it is given.
-/
import EmuVerif.Proofs.Aggregate
import Mathlib.Algebra.Field.Basic
import Mathlib.Tactic.FieldSimp
import Mathlib.Data.Rat.Defs

namespace EmuVerif.Props.C34
open EmuVerif.Aggregate

/-- Σ reps (what Pulser guarantees to equal `n_trajectories`). -/
def totalReps {σ : Type} (samples : List (σ × Int)) : Nat := (samples.map (fun p => p.2.toNat)).sum

theorem yields_sum_reps {σ : Type} (samples : List (σ × Int)) :
    (expand samples).length = totalReps samples := expand_length samples

theorem yields_in_order {σ : Type} (samples : List (σ × Int)) :
    expand samples = samples.flatMap (fun p => List.replicate p.2.toNat p.1) :=
  expand_eq_flatMap samples

example : expand [("a", (2 : Int)), ("b", 0), ("c", 3)] = ["a", "a", "c", "c", "c"] := by decide

/-- The index form used by the correspondence check. -/
theorem expandIdx_length (reps : List Int) :
    (expandIdx reps).length = (reps.map Int.toNat).sum := by
  unfold expandIdx
  rw [expand_length, List.map_map]
  have : ((fun p : Nat × Int => p.2.toNat) ∘ fun x : Int × Nat => (x.2, x.1)) = fun x => x.1.toNat := rfl
  rw [this]
  have h : ∀ (l : List Int) (k : Nat), ((l.zipIdx k).map (fun x => x.1.toNat)) = l.map Int.toNat := by
    intro l; induction l with
    | nil => simp
    | cons a t ih => intro k; simp [List.zipIdx_cons, ih]
  rw [h]

theorem handed_length {S σ ρ : Type} (run : S → σ → ρ × S) (st : S) (samples : List (σ × Int)) :
    (handedToAggregate run st samples).length = totalReps samples := by
  unfold handedToAggregate
  rw [runLoop_fst, List.nil_append, runSpec_length, expand_length]; rfl

theorem handed_kth {S σ ρ : Type} (run : S → σ → ρ × S) (st : S) (samples : List (σ × Int))
    (k : Nat) (hk : k < (expand samples).length) :
    (handedToAggregate run st samples)[k]'(by
        unfold handedToAggregate; rw [runLoop_fst, List.nil_append, runSpec_length]; exact hk)
      = (run (stateAt run st (expand samples) k) (expand samples)[k]).1 := by
  unfold handedToAggregate
  simp only [runLoop_fst, List.nil_append]
  exact runSpec_getElem run st (expand samples) k hk

/-- With a back-end that keeps no state between trajectories the handed list is the map. -/
theorem handed_stateless {S σ ρ : Type} (f : σ → ρ) (st : S) (samples : List (σ × Int)) :
    handedToAggregate (fun st sd => (f sd, st)) st samples = (expand samples).map f := by
  unfold handedToAggregate; rw [runLoop_fst, List.nil_append, runSpec_stateless]

/-- **Independent trajectories**: when every simulation leaves the shared state `st` (the
configured initial state and anything else the config carries) as it found it, the k-th result
handed to `aggregate` is the simulation of the k-th item started from that very `st` — the
aggregate combines Σ reps independent simulations of the configured problem. The hypothesis is
what the harness checks on the real back-ends (initial state bit-identical before/after a run). -/
theorem handed_independent_if_state_preserved {S σ ρ : Type} (run : S → σ → ρ × S) (st : S)
    (samples : List (σ × Int)) (h : ∀ sd ∈ expand samples, (run st sd).2 = st) :
    handedToAggregate run st samples = (expand samples).map (fun sd => (run st sd).1) := by
  unfold handedToAggregate; rw [runLoop_fst, List.nil_append, runSpec_preserving run st _ h]

example : handedToAggregate (fun (st : Nat) (sd : String) => ((st, sd), st + 1)) 0
    [("a", (2 : Int)), ("b", 1)] = [(0, "a"), (1, "a"), (2, "b")] := by decide

theorem aggregate_defined {S σ ρ : Type} (combine : List ρ → ρ) (run : S → σ → ρ × S) (st : S)
    (samples : List (σ × Int)) :
    (aggregate combine (handedToAggregate run st samples) = none ↔ totalReps samples = 0) := by
  rw [← handed_length run st samples]
  cases h : handedToAggregate run st samples with
  | nil => simp [aggregate]
  | cons a t => cases t <;> simp [aggregate]

theorem aggregate_single {ρ : Type} (combine : List ρ → ρ) (r : ρ) : aggregate combine [r] = some r := rfl

theorem aggregate_many {ρ : Type} (combine : List ρ → ρ) (rs : List ρ) (h : 2 ≤ rs.length) :
    aggregate combine rs = some (combine rs) := by
  match rs, h with
  | a :: b :: t, _ => rfl

/-- **Bitstring totals add up**: if every simulated trajectory returns a counter with `shots`
samples, the joined counter holds (Σ reps) × shots. -/
theorem bitstring_totals {S σ : Type} (run : S → σ → Counter × S) (st : S)
    (samples : List (σ × Int)) (shots : Nat)
    (hshots : ∀ c ∈ handedToAggregate run st samples, Counter.total c = shots) :
    Counter.total (bagUnion (handedToAggregate run st samples)) = totalReps samples * shots := by
  rw [total_bagUnion, ← handed_length run st samples]
  generalize handedToAggregate run st samples = l at hshots
  induction l with
  | nil => simp
  | cons c t ih =>
    simp only [List.map_cons, List.sum_cons, List.length_cons]
    rw [ih (fun c hc => hshots c (List.mem_cons_of_mem _ hc)), hshots c (List.mem_cons_self ..)]
    ring

example : Counter.total (bagUnion [[("01", 3), ("10", 2)], [("10", 5)]]) = 2 * 5 := by decide

theorem bitstring_counts_add (cs : List Counter) (q : String) :
    Counter.get (bagUnion cs) q = (cs.map (Counter.count · q)).sum := get_bagUnion cs q

/-- Contract of Pulser's `_mean_aggregator` on scalars (external code). -/
def MeanContract {K : Type} [Field K] (mean : List K → K) : Prop :=
  ∀ l : List K, l ≠ [] → mean l = l.sum / (l.length : K)

/-- Under the contract, an observable whose per-trajectory value is a function of the entry
(no back-end state: trajectory-invariant noise) is averaged with weights `reps`. -/
theorem mean_weights_reps {K σ S : Type} [Field K] (mean : List K → K) (hm : MeanContract mean)
    (f : σ → K) (st : S) (samples : List (σ × Int)) (h : totalReps samples ≠ 0) :
    mean (handedToAggregate (fun st sd => (f sd, st)) st samples)
      = (samples.map (fun p => (p.2.toNat : K) * f p.1)).sum / (totalReps samples : K) := by
  have hl := handed_length (fun (st : S) sd => (f sd, st)) st samples
  rw [hm _ (by intro e; rw [e] at hl; exact h hl.symm), hl, handed_stateless, sum_expand]
  simp [nsmul_eq_mul]

example : MeanContract (fun l : List ℚ => l.sum / (l.length : ℚ)) := fun _ _ => rfl

/-- The full end-to-end statement of C34, *given* Pulser's two guarantees. -/
def FullStatement : Prop :=
  ∀ (S σ : Type) (run : S → σ → Counter × S) (st : S) (samples : List (σ × Int)) (nTraj shots : Nat),
    totalReps samples = nTraj →
    (∀ c ∈ handedToAggregate run st samples, Counter.total c = shots) →
    (handedToAggregate run st samples).length = nTraj ∧
    Counter.total (bagUnion (handedToAggregate run st samples)) = nTraj * shots

theorem full_statement : FullStatement := by
  intro S σ run st samples nTraj shots h1 h2
  exact ⟨h1 ▸ handed_length run st samples, h1 ▸ bitstring_totals run st samples shots h2⟩

end EmuVerif.Props.C34
