"""Reproductions of the defects of DESIGN.md §6 on the real code (run with /venv/bin/python).
Each function returns a short string describing what it observed; used before/after the fix: commits."""
import sys, os, math, logging
sys.path.insert(0, os.path.dirname(os.path.dirname(os.path.dirname(os.path.abspath(__file__)))))
import numpy as np, torch
from harness import compat
compat.install()
from pulser.backend import Occupation, Energy, BitStrings

def d18():
    from emu_base.math.pchip_torch import PCHIP1D
    x = torch.arange(4, dtype=torch.float64); y = torch.tensor([3., 1., 0., 0.], dtype=torch.float64)
    p = PCHIP1D(x, y)
    return f"D18 pchip y=[3,1,0,0]: P(2.5)={p(torch.tensor(2.5)).item():.6g} P(3.5)={p(torch.tensor(3.5)).item():.6g} (standard PCHIP: 0, 0)"

def d12():
    from emu_base.math.pchip_torch import PCHIP1D
    x = torch.arange(6, dtype=torch.float64); y = torch.tensor([0., 1., 1., 1., 2., 0.], dtype=torch.float64, requires_grad=True)
    p = PCHIP1D(x, y); out = p(torch.tensor([0.5, 1.5, 2.5, 3.5, 4.5], dtype=torch.float64)).sum(); out.backward()
    return f"D12 grad through flat run: {y.grad.tolist()}"

def d6():
    from emu_base.pulser_adapter import _extract_omega_delta_phi
    class S:  # SequenceSamples stand-in
        max_duration = 10
        def to_nested_dict(self, all_local, samples_type):
            amp = torch.tensor([9.2 - i for i in range(10)], dtype=torch.float64)
            z = torch.zeros(10, dtype=torch.float64)
            return {"Local": {"ground-rydberg": {"q0": {"amp": amp, "det": z, "phase": z}}}}
    tt = [0.25 * i for i in range(41)]
    om, _, _ = _extract_omega_delta_phi(S(), ("q0",), tt)
    return f"D6 amplitudes of the last 4 steps (dt=0.25, samples 9.2-i): {[round(v, 4) for v in om[-4:, 0].real.tolist()]}"

def d7():
    from emu_base.pulser_adapter import _get_target_times
    class Seq:
        def get_duration(self, include_fall_time=False): return 63
    cfg = compat.sv_config(observables=[BitStrings(evaluation_times=[1.0])])
    t = _get_target_times(Seq(), cfg, 0.7)
    return f"D7 duration 63 dt 0.7: last target times {t[-3:]} (n={len(t)})"

def _seq3(local=True, bad=None, spe=0.0):
    n = 3
    pos = np.array([0., 20., 7.])
    U = np.zeros((n, n))
    for i in range(n):
        for j in range(n):
            if i != j: U[i, j] = 5420158.53 / abs(pos[i] - pos[j]) ** 6
    T = [float(10 * k) for k in range(51)]
    om = np.full((50, n), 6.0); de = np.zeros((50, n)); ph = np.zeros((50, n))
    if local: de[:, 1] = 12.0
    return compat.make_sequence_data(om, de, ph, U, T, bad_atoms=bad, state_prep_error=spe)

def d1():
    out = []
    for reorder in (False, True):
        cfg = compat.mps_config(observables=[Occupation(evaluation_times=[1.0])], optimize_qubit_ordering=reorder)
        r = compat.run_mps(_seq3(), cfg)
        out.append([round(v, 3) for v in r.occupation[-1].tolist()])
    sv = compat.run_sv(_seq3(), compat.sv_config(observables=[Occupation(evaluation_times=[1.0])]))
    return f"D1 occupations reordering off {out[0]} on {out[1]} emu-sv {[round(v,3) for v in sv.occupation[-1].tolist()]}"

def d2():
    out = []
    for reorder in (False, True):
        cfg = compat.mps_config(observables=[Occupation(evaluation_times=[1.0])], optimize_qubit_ordering=reorder)
        r = compat.run_mps(_seq3(local=False, bad=(True, False, False), spe=0.1), cfg)
        out.append([round(v, 3) for v in r.occupation[-1].tolist()])
    return f"D2 bad atom 0: occupations reordering off {out[0]} on {out[1]}"

def d9():
    from emu_mps.mps_backend_impl import create_impl
    from emu_mps.solver import Solver
    L = [torch.tensor([[0, 0], [1., 0]], dtype=torch.complex128)]
    n = 2; T = [0., 10., 20.]
    data = compat.make_sequence_data(np.ones((2, n)), np.zeros((2, n)), np.zeros((2, n)), np.zeros((n, n)), T, lindblad_ops=L)
    cfg = compat.mps_config(observables=[Occupation(evaluation_times=[1.0])], solver=Solver.DMRG)
    try:
        impl = create_impl(data, cfg); return f"D9 create_impl(DMRG + lindblad ops) -> {type(impl).__name__}"
    except Exception as e:
        return f"D9 create_impl(DMRG + lindblad ops) raises {type(e).__name__}"

def d8():
    n = 2; T = [0., 10., 20.]
    data = compat.make_sequence_data(np.ones((2, n)), np.zeros((2, n)), np.zeros((2, n)), np.array([[0, 1.], [1., 0]]), T,
                                     hamiltonian_type="XY", eigenstates=("u", "d"))
    try:
        r = compat.run_sv(data, compat.sv_config(observables=[Occupation(evaluation_times=[1.0])]))
        return f"D8 emu-sv on an XY SequenceData returns results: occupation {r.occupation[-1].tolist()}"
    except Exception as e:
        return f"D8 emu-sv on an XY SequenceData raises {type(e).__name__}: {e}"

def d3():
    import emu_mps.mps_backend_impl as impl_mod
    from emu_mps.mps_backend import MPSBackend
    from emu_mps.mps_backend_impl import create_impl
    import tempfile, pickle, glob
    cwd = os.getcwd(); tmp = tempfile.mkdtemp(); os.chdir(tmp)
    try:
        class FakeTime:
            t = 0.0
            @classmethod
            def time(cls): cls.t += 100.0; return cls.t
        real = impl_mod.time; impl_mod.time = FakeTime
        cfg = compat.mps_config(observables=[Occupation(evaluation_times=[1.0])], optimize_qubit_ordering=True, autosave_dt=11)
        ref = compat.run_mps(_seq3(), cfg)
        impl = create_impl(_seq3(), cfg); impl.init()
        for _ in range(7): impl.progress()
        f = impl.autosave_file
        res = MPSBackend.resume(f)
        impl_mod.time = real
        return (f"D3 uninterrupted atom_order {ref.atom_order} occ {[round(v,3) for v in ref.occupation[-1].tolist()]}; "
                f"resumed atom_order {res.atom_order} occ {[round(v,3) for v in res.occupation[-1].tolist()]}")
    finally:
        os.chdir(cwd)

def d4():
    import emu_mps.mps_backend_impl as impl_mod
    from emu_mps.mps_backend_impl import create_impl
    import tempfile
    cwd = os.getcwd(); tmp = tempfile.mkdtemp(); os.chdir(tmp)
    try:
        class FakeTime:
            t = 0.0
            @classmethod
            def time(cls): cls.t += 100.0; return cls.t
        real = impl_mod.time; impl_mod.time = FakeTime
        cfg = compat.mps_config(observables=[Occupation(evaluation_times=[1.0])], autosave_dt=11)
        impl = create_impl(_seq3(), cfg); impl.init(); impl.progress()   # first autosave completes
        base = impl.autosave_file
        seen = []
        real_rename, real_replace = os.rename, os.replace
        def spy(kind, fn):
            def w(a, b):
                fn(a, b)
                seen.append((kind, os.path.basename(str(a)).split(".")[-1], os.path.basename(str(b)).split(".")[-1], base.is_file()))
            return w
        os.rename, os.replace = spy("rename", real_rename), spy("replace", real_replace)
        try: impl.progress()
        finally: os.rename, os.replace = real_rename, real_replace
        impl_mod.time = real
        return f"D4 file ops of the 2nd autosave (kind, from, to, advertised file exists afterwards): {seen}"
    finally:
        os.chdir(cwd)

def d19():
    from emu_mps.mps_backend_impl import create_impl
    from emu_mps.solver import Solver
    n = 3; steps = 20
    T = [float(10 * k) for k in range(steps + 1)]
    U = np.array([[0, 1., .1], [1., 0, 1.], [.1, 1., 0]])
    data = compat.make_sequence_data(np.full((steps, n), 2.0), np.full((steps, n), 1.0), np.zeros((steps, n)), U, T)
    cfg = compat.mps_config(observables=[Energy(evaluation_times=[1.0])], solver=Solver.DMRG)
    impl = create_impl(data, cfg); impl.max_sweeps = 12; impl.init()
    sweeps_per_step = []; last = 0; idx = 0
    try:
        while not impl.is_finished():
            impl.progress()
            if impl._timestep_index != idx:
                sweeps_per_step.append(impl.sweep_count - last); last = impl.sweep_count; idx = impl._timestep_index
        return f"D19 DMRG max_sweeps=12, 20 steps: sweeps per step {sweeps_per_step}, total {impl.sweep_count}"
    except RuntimeError as e:
        return f"D19 DMRG max_sweeps=12, 20 steps: sweeps per step {sweeps_per_step} then RuntimeError: {e}"

if __name__ == "__main__":
    which = sys.argv[1:] or ["d18", "d12", "d6", "d7", "d1", "d2", "d9", "d8", "d3", "d4", "d19"]
    for w in which:
        try: print(globals()[w]())
        except Exception as e: print(w, "EXC", type(e).__name__, e)
