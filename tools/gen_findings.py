#!/usr/bin/env python3
"""Aggregate known_findings.d/*.json into the committed known_findings.json (never written at check time)."""
import glob, json, os
ROOT = os.path.dirname(os.path.dirname(os.path.abspath(__file__)))
out = {"comment": "Genuine defects of pasqal-io/emulators recorded rather than repaired (status open) and repaired ones "
                  "(status fixed: suppress nothing). A check prints KNOWN-FINDING only for an open entry whose narrow "
                  "'class' matches the failing input it found on this run. Generated from known_findings.d/ by tools/gen_findings.py.",
       "findings": []}
for f in sorted(glob.glob(os.path.join(ROOT, "known_findings.d", "*.json"))):
    out["findings"] += json.load(open(f)).get("findings", [])
ids = [x["id"] for x in out["findings"]]
assert len(ids) == len(set(ids)), "duplicate finding ids"
json.dump(out, open(os.path.join(ROOT, "known_findings.json"), "w"), indent=1)
print(len(ids), "findings")
