#!/usr/bin/env python3
"""Regenerate /verif/MANIFEST.json from harness/registry.py and validate it against the schema."""
import json, os, subprocess, sys
ROOT = os.path.dirname(os.path.dirname(os.path.abspath(__file__)))
sys.path.insert(0, ROOT)
from harness.registry import load_checks, NOT_APPLICABLE, NOT_YET, GUARD
CHECKS = load_checks()

props = [json.loads(l)["id"] for l in open(os.path.join(ROOT, "properties.jsonl"))]
hooks_commits = []
hp = os.path.join(ROOT, "hooks_commits.txt")
if os.path.exists(hp):
    hooks_commits = [l.split()[0] for l in open(hp) if l.strip()]
man = {
    "version": 1,
    "setup_cmd": "cd lean && lake build",
    "hooks": {
        "guard": GUARD,
        "enable": f"checks set {GUARD}=1 in their own process; the repository has no build step (editable install of /repo)",
        "baseline_off_cmd": "cd /repo && /venv/bin/python -m pytest -ra -q -p no:cacheprovider --timeout=900 --continue-on-collection-errors",
        "source_commits": hooks_commits,
        "add_only": True,
    },
    "engines": [{
        "name": "emuverif-lean",
        "path": "lean/",
        "serves_properties": sorted(CHECKS),
        "kind_free_text": "Lean 4.33 + Mathlib library EmuVerif (Model/ executable models, Proofs/, Props/ theorems, Driver.lean line protocol) "
                          "driven by harness/ (Python, /venv/bin/python, imports the live /repo) through ./vcheck",
    }],
    "checks": [],
    "not_applicable": [],
    "notes": "See DESIGN.md. Every claimed check is category 'proof'; full/partial and the assumed contracts are spelled out per check.",
}
for pid in props:
    if pid in CHECKS:
        c = CHECKS[pid]
        man["checks"].append({
            "property_id": pid,
            "quick_cmd": f"./vcheck {pid} --tier quick",
            "thorough_cmd": f"./vcheck {pid} --tier thorough",
            "evidence_file": f"evidence/{pid}.json",
            "replay_cmd_template": f"./vcheck {pid} --replay {{path}}",
            "engine": "emuverif-lean",
            "level_claimed": {"category": "proof", "text": c["text"], "design_ref": c.get("design_ref", "DESIGN.md §5")},
            "level_note": c["note"],
            "technique": c["technique"],
        })
    elif pid in NOT_APPLICABLE:
        man["not_applicable"].append({"property_id": pid, "reason": NOT_APPLICABLE[pid]})
    else:
        man["not_applicable"].append({"property_id": pid, "reason": NOT_YET.get(pid, "check not built yet (planned in DESIGN.md §5); not claimed")})
json.dump(man, open(os.path.join(ROOT, "MANIFEST.json"), "w"), indent=1)
try:
    import jsonschema
    jsonschema.validate(man, json.load(open("/root/.vp/MANIFEST.schema.json")))
    print("MANIFEST.json valid;", len(man["checks"]), "checks,", len(man["not_applicable"]), "not claimed")
except ImportError:
    print("jsonschema not available; written without validation")
