#!/bin/bash
# merge a package branch; generated files are regenerated instead of merged
set -e
cd "$(dirname "$0")/.."
GEN="lean/EmuVerif/Drv/All.lean lean/EmuVerif.lean MANIFEST.json known_findings.json"
git add -A; git commit -qm "evidence/working files before merging $1" || true
git merge --no-commit --no-ff "$1" >/dev/null 2>&1 || true
for f in $GEN; do git checkout --ours -- $f 2>/dev/null || true; done
# per-package findings files: the package branch is authoritative
for f in $(git diff --name-only --diff-filter=U | grep "^known_findings.d/" || true); do git checkout --theirs -- $f; done
# evidence is rewritten by the next run of the check on main: keep ours on conflict
for f in $(git diff --name-only --diff-filter=U | grep "^evidence/" || true); do git checkout --ours -- $f; done
python3 tools/gen_index.py >/dev/null
python3 tools/gen_findings.py >/dev/null
python3-vt tools/gen_manifest.py
if git diff --name-only --diff-filter=U | grep -q .; then echo "UNRESOLVED (fix, git add, git commit):"; git diff --name-only --diff-filter=U; exit 1; fi
git add -A
git commit -qm "Merge $1"
git log --oneline | head -1
