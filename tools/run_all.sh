#!/bin/bash
# run every registered quick (or $1=thorough) check sequentially; summary lines only
cd "$(dirname "$0")/.."
TIER=${1:-quick}
# CHECKS="C01 C05 ..." restricts the run to those checks
for c in ${CHECKS:-$(python3 -c "import json;print(' '.join(x['property_id'] for x in json.load(open('MANIFEST.json'))['checks']))")}; do
  ./vcheck $c --tier $TIER 2>&1 | grep -v conda | grep -E "^\[C|^VIOLATION|^KNOWN" | cut -c1-220
done
