#!/usr/bin/env python3
"""Print the markdown table 'which check catches which seeded change' from seeded/*/meta.json."""
import glob, json, os
ROOT = os.path.dirname(os.path.dirname(os.path.abspath(__file__)))
print("| seeded change | property | what it is | needs to manifest | demo (clean/changed) | my check: verdict |")
print("|---|---|---|---|---|---|")
for d in sorted(glob.glob(os.path.join(ROOT, "seeded", "*"))):
    try:
        m = json.load(open(os.path.join(d, "meta.json")))
    except Exception:
        continue
    v = m.get("verified_by_me", {})
    checks = "; ".join(f"{c['check']}: " + ("**caught, concrete replay**" if "VIOLATION" in c["verdict"] and "no-failing-input-found" not in c["verdict"]
                                             else "caught (no-failing-input-found)" if "VIOLATION" in c["verdict"] else "MISSED") for c in v.get("checks", []))
    def cut(s, n=160):
        s = str(s).replace("\n", " ").replace("|", "/")
        return s if len(s) <= n else s[:n - 1] + "…"
    print(f"| {os.path.basename(d)} | {m.get('property','?')} | {cut(m.get('summary',''))} | {cut(m.get('needs_to_manifest',''))} | "
          f"{v.get('demo_clean_exit','?')}/{v.get('demo_changed_exit','?')} | {checks} |")
