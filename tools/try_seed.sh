#!/bin/bash
# tools/try_seed.sh <seed_out_dir containing patch.diff/demo.py/meta.json> <seed-id> <Cxx> [more Cxx ...]
# Verifies a seeded change in a scratch worktree of /repo (never in /repo itself) and records it under seeded/<seed-id>/.
set -u
SRC=$1; ID=$2; shift 2
ROOT="$(cd "$(dirname "$0")/.." && pwd)"
WT=$(mktemp -d /tmp/tryseed_XXXX); rmdir $WT
git -C /repo worktree add -q $WT HEAD || exit 2
DEMO=$(ls $SRC/demo.py $SRC/test_demo.py 2>/dev/null | head -1)
run_demo() { (cd $WT && if [[ $DEMO == *test_demo.py ]]; then timeout 600 /venv/bin/python -m pytest -q -p no:cacheprovider $DEMO >/dev/null 2>&1; else timeout 600 /venv/bin/python $DEMO >/dev/null 2>&1; fi; echo $?); }
CLEAN=$(run_demo)
if ! git -C $WT apply $SRC/patch.diff 2>/tmp/apply_err; then echo "patch does not apply: $(cat /tmp/apply_err | head -3)"; git -C /repo worktree remove --force $WT; exit 3; fi
MUT=$(run_demo)
echo "demo: clean exit=$CLEAN changed exit=$MUT"
mkdir -p $ROOT/seeded/$ID; cp $SRC/patch.diff $SRC/meta.json $DEMO $ROOT/seeded/$ID/ 2>/dev/null
RES=""
for P in "$@"; do
  OUT=$(cd $ROOT && VERIF_REPO=$WT ./vcheck $P 2>&1 | grep -v conda | tail -4)
  LINE=$(echo "$OUT" | grep -E "^VIOLATION" | head -1 | tr '\n' ' ')
  LAST=$(echo "$OUT" | tail -1)
  echo "check $P: $LINE | $LAST"
  RES="$RES{\"check\":\"$P\",\"verdict\":\"$(echo $LINE | sed 's/"/\\"/g')\",\"summary\":\"$(echo $LAST | sed 's/"/\\"/g')\"},"
done
python3 - <<PY
import json
p="$ROOT/seeded/$ID/meta.json"
try: m=json.load(open(p))
except Exception: m={}
m["verified_by_me"]={"demo_clean_exit":$CLEAN,"demo_changed_exit":$MUT,"checks":[${RES%,}],"how":"scratch worktree of /repo HEAD, git apply patch.diff, demo run from the worktree, ./vcheck with VERIF_REPO=<worktree>"}
json.dump(m,open(p,"w"),indent=1)
PY
git -C /repo worktree remove --force $WT
